#!/bin/bash
# eval_round.sh <root> — for every <root>/<ID>/mK: confirm the mutant (confirm_mut.sh) and run the property's check on it (mutrun.sh).
HERE="$(cd "$(dirname "${BASH_SOURCE[0]}")" && pwd)"
ROOT="$1"
ls -d $ROOT/C*/m*/ | xargs -P 10 -I{} bash -c 'd={}; d=${d%/}; m=$(basename $d); p=$(basename $(dirname $d)); c=$('"$HERE"'/confirm_mut.sh $d 2>&1 | tail -1); r=$('"$HERE"'/mutrun.sh $d/patch.diff $p 2>&1 | head -1 | cut -c1-160); echo "$p $m | $c | $r"' | sort
