#!/bin/bash
# regress.sh — development regression: (1) every check silent on /repo, (2) every seeded mutant caught by its property,
# (3) every behaviour-preserving refactoring in /tmp/ref (if present) raises no alarm. Prints a summary.
HERE="$(cd "$(dirname "${BASH_SOURCE[0]}")" && pwd)"; cd "$HERE"
export GOPROXY=off GOSUMDB=off GOTOOLCHAIN=local GOFLAGS=-mod=mod; unset GOWORK
echo "== unchanged tree"
./bin/gfcheck -prop all -tier quick -repo /repo -out /tmp/gfreg-out -known ./known_findings.json -controls ./checker/testdata/controls 2>&1 | grep -E "^C[0-9]+ quick:" | grep -vE "violated=0 undecided=0 fatal=0" | sed 's/^/  NOT SILENT: /'
rm -rf /tmp/gfreg-out
echo "== seeds"
ls -d $HERE/seeded/*/ | xargs -P 8 -I{} bash -c 'd={}; d=${d%/}; id=$(basename $d); p=${id%%-*}; r=$(./mutrun.sh $d/patch.diff $p 2>&1 | head -1 | cut -c1-80); echo "$id $r"' | sort > /tmp/gfreg-seeds.txt
grep -c CAUGHT /tmp/gfreg-seeds.txt | sed 's/^/  caught: /'; grep -v CAUGHT /tmp/gfreg-seeds.txt | sed 's/^/  NOT CAUGHT: /'
for DIR in "$@"; do
  echo "== refactorings in $DIR"
  ls -d $(realpath $DIR)/[CX]*/ 2>/dev/null | xargs -P 8 -I{} bash -c 'd={}; r=$(./matrix.sh $d/patch.diff 2>&1 | head -1); echo "$(basename $d) $r"' | sort > /tmp/gfreg-ref.txt
  grep -c "ALARMS: none" /tmp/gfreg-ref.txt | sed 's/^/  silent: /'
  grep -c "SKIPPED" /tmp/gfreg-ref.txt | sed 's/^/  no longer applicable (context changed by a later fix commit): /'
  grep -v "ALARMS: none" /tmp/gfreg-ref.txt | grep -v SKIPPED | sed 's/^/  FALSE ALARM: /'
done
