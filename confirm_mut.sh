#!/bin/bash
# confirm_mut.sh <dir with patch.diff + zz_demo_test.go> — confirm in a scratch copy of /repo (current HEAD) that
# (1) the demo passes without the patch, (2) the patched tree builds and passes the existing suite, (3) the demo fails with the patch.
set -u
D="$1"
export GOFLAGS=-mod=mod GOPROXY=off GOSUMDB=off GOTOOLCHAIN=local; unset GOWORK
W=$(mktemp -d /tmp/gfconf.XXXXXX); trap 'rm -rf "$W"' EXIT
(cd /repo && git ls-files -z | xargs -0 cp --parents -t "$W")
cd "$W" && git init -q . 2>/dev/null
NAMES=$(grep -ohE '^func (Test[A-Za-z0-9_]+)' "$D/zz_demo_test.go" | awk '{print $2}' | paste -sd'|')
cp "$D/zz_demo_test.go" "$W/zz_demo_test.go"
if go test -vet=off -count=1 -run "^($NAMES)\$" . >"$W/.o1" 2>&1; then A=pass; else A=FAIL; fi
# make sure the demo actually ran a test
grep -q "no tests to run" "$W/.o1" && A=NOTESTS
rm "$W/zz_demo_test.go"
if ! git apply --whitespace=nowarn "$D/patch.diff" 2>"$W/.ae"; then echo "APPLY-FAILED $(head -1 $W/.ae)"; exit 3; fi
if go build ./... >"$W/.o2" 2>&1 && go test -vet=off -count=1 ./... >>"$W/.o2" 2>&1; then B=pass; else B=FAIL; fi
cp "$D/zz_demo_test.go" "$W/zz_demo_test.go"
if go test -vet=off -count=1 -run "^($NAMES)\$" . >"$W/.o3" 2>&1; then C=pass; else C=FAIL; fi
echo "demo-without=$A suite-with=$B demo-with=$C"
[ "$A" = pass ] && [ "$B" = pass ] && [ "$C" = FAIL ]
