#!/bin/bash
# fa.sh <Cxx/rK>… — development helper: rebuild gfcheck, then show the alarms each refactoring raises
HERE="$(cd "$(dirname "${BASH_SOURCE[0]}")" && pwd)"
export GOFLAGS=-mod=vendor GOPROXY=off GOSUMDB=off GOTOOLCHAIN=local
(cd $HERE/checker && go build -o $HERE/bin/gfcheck . ) || exit 1
for x in "$@"; do echo "=== $x"; $HERE/matrix.sh -v $HERE/${REFDIR:-refactorings}/${x/\//-}/patch.diff 2>&1 | grep -E "ALARMS|VIOLATED|UNDECIDED|FATAL" -A1 | grep -v "^--" | cut -c1-420; done
