#!/bin/bash
# heldout.sh <dir> — run every refactoring of <dir> through all checks; list the ones that raise an alarm
HERE="$(cd "$(dirname "${BASH_SOURCE[0]}")" && pwd)"; D="$(cd "$1" && pwd)"
ls -d $D/*/ | xargs -P 10 -I{} bash -c 'd={}; r=$('"$HERE"'/matrix.sh ${d}patch.diff 2>&1 | head -1); echo "$(basename $d) $r"' | sort > /tmp/heldout.txt
echo "silent: $(grep -c 'ALARMS: none' /tmp/heldout.txt) of $(wc -l < /tmp/heldout.txt)"; grep -v "ALARMS: none" /tmp/heldout.txt | cut -c1-120
