#!/bin/bash
# matrix.sh <patch.diff> — apply a patch to a scratch copy of /repo and run ALL property checks on it (one process).
# prints "ALARMS: C.. C.." (properties that report VIOLATED/UNDECIDED/FATAL) and, with -v, the offending obligations.
set -u
HERE="$(cd "$(dirname "${BASH_SOURCE[0]}")" && pwd)"
V=0; [ "${1:-}" = "-v" ] && { V=1; shift; }
PATCH="$1"
export GOPROXY=off GOSUMDB=off GOTOOLCHAIN=local GOFLAGS=-mod=mod; unset GOWORK
W=$(mktemp -d /tmp/gfmat.XXXXXX); trap 'rm -rf "$W"' EXIT
mkdir -p "$W/repo" "$W/out"
(cd /repo && git ls-files -z | xargs -0 cp --parents -t "$W/repo")
if ! (cd "$W/repo" && git init -q . 2>/dev/null && git apply --whitespace=nowarn "$PATCH" 2>"$W/apply.err"); then echo "SKIPPED(context changed): $(head -1 "$W/apply.err")"; exit 3; fi
if ! (cd "$W/repo" && go build ./... >"$W/build.txt" 2>&1); then echo "BUILD-FAILED: $(head -2 "$W/build.txt" | tr '\n' ' ')"; exit 4; fi
"$HERE/bin/gfcheck" -prop all -tier quick -repo "$W/repo" -out "$W/out" -known "$HERE/known_findings.json" -controls "$HERE/checker/testdata/controls" > "$W/log.txt" 2>&1
alarms=$(grep -E "^C[0-9]+ quick:" "$W/log.txt" | grep -vE "violated=0 undecided=0 fatal=0" | awk '{print $1}' | tr '\n' ' ')
echo "ALARMS: ${alarms:-none}"
if [ $V = 1 ]; then grep -E "^\s+(VIOLATED|UNDECIDED|FATAL)" -A1 "$W/log.txt" | grep -v "^--" | cut -c1-330; fi
