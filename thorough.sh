#!/bin/bash
# thorough.sh <ID> <auxfile> — deeper exploration for one property:
#  (a) replays every seeded mutant of the property (one scratch copy and one process per mutant) and records caught/missed/skipped,
#  (b) collects the compiler's list of bounds checks it could not prove (compilation only, nothing is executed),
#  (c) type-checks the GOOS=windows configuration.
# Writes a JSON summary to <auxfile>; gfcheck -tier thorough merges it into the evidence and fails on a missed mutant.
set -u
HERE="$(cd "$(dirname "${BASH_SOURCE[0]}")" && pwd)"
ID="$1"; AUX="$2"
REPO="${VERIF_REPO:-/repo}"
export GOPROXY=off GOSUMDB=off GOTOOLCHAIN=local GOFLAGS=-mod=mod; unset GOWORK
W=$(mktemp -d /tmp/gfthorough.XXXXXX); trap 'rm -rf "$W"' EXIT
killed=0; total=0; skipped=0; missed=""; details=""
run_one() { # dir
  d="$1"; n=$(basename "$d")
  out=$("$HERE/mutrun.sh" "$d/patch.diff" "$ID" 2>&1); rc=$?
  echo "$n|$rc|$(echo "$out" | head -1 | cut -c1-300)"
}
export -f run_one; export HERE ID
ls -d "$HERE"/seeded/$ID-* 2>/dev/null | xargs -r -P 4 -I{} bash -c 'run_one {}' > "$W/res.txt"
while IFS='|' read -r n rc line; do
  [ -z "$n" ] && continue
  total=$((total+1))
  case "$rc" in
    0) killed=$((killed+1));;
    3) skipped=$((skipped+1));;
    *) missed="$missed $n";;
  esac
done < "$W/res.txt"
# (b) compiler bounds-check list
(cd "$REPO" && go build -gcflags='-l -d=ssa/check_bce/debug=1' -o /dev/null . 2>&1 | grep -E "Found Is(Slice)?InBounds" | sed -E 's#^\./##' ) > "$W/bce.txt" || true
# (c) windows
if (cd "$REPO" && GOOS=windows go build ./... >"$W/win.txt" 2>&1); then win=true; else win=false; fi
python3 - "$AUX" "$W/res.txt" "$W/bce.txt" "$win" "$killed" "$total" "$skipped" "$missed" <<'PY'
import json,sys
aux,res,bce,win,killed,total,skipped,missed=sys.argv[1:9]
mut=[]
for l in open(res):
    p=l.rstrip("\n").split("|",2)
    if len(p)==3: mut.append({"seed":p[0],"rc":int(p[1]),"result":p[2]})
mut.sort(key=lambda m:m["seed"])
b=[l.strip() for l in open(bce) if l.strip()]
json.dump({"mutants":mut,"mutants_killed":int(killed),"mutants_total":int(total),"mutants_skipped":int(skipped),"mutants_missed":missed.split(),
           "bce_sites":b,"windows_build_ok":win=="true"},open(aux,"w"),indent=1)
PY
echo "thorough $ID: mutants killed=$killed/$total skipped=$skipped missed=[$missed ] bce_sites=$(wc -l < "$W/bce.txt") windows_build_ok=$win"
