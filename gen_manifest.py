#!/usr/bin/env python3
"""Regenerates MANIFEST.json from claims.json (per-property claim texts) and properties.jsonl."""
import json
props=[json.loads(l) for l in open('/verif/properties.jsonl')]
claims=json.load(open('/verif/claims.json'))
checks=[]; na=[]
for p in props:
    c=claims.get(p['id'])
    if c and c.get('claimed'):
        checks.append({
            "property_id":p['id'],
            "quick_cmd":f"./check.sh {p['id']} quick",
            "thorough_cmd":f"./check.sh {p['id']} thorough",
            "evidence_file":f"/verif/evidence/{p['id']}.json",
            "replay_cmd_template":"./check.sh explain {path}",
            "engine":"gfcheck",
            "level_claimed":{"category":c['level'],"text":c['text'],"design_ref":c.get('design_ref','DESIGN.md §4 '+p['id'])},
            "level_note":c['note'],
            "technique":c['technique'],
        })
    else:
        na.append({"property_id":p['id'],"reason":(c or {}).get('reason',"rule designed in DESIGN.md §4, not implemented yet")})
m={"version":1,"setup_cmd":"./setup.sh",
 "hooks":{"guard":"verif","enable":"none needed: static analysis reads /repo's working tree; no source hooks exist","baseline_off_cmd":"cd /repo && go test -vet=off -count=1 ./...","source_commits":[],"add_only":True},
 "engines":[{"name":"gfcheck","path":"checker/","serves_properties":[c['property_id'] for c in checks],"kind_free_text":"custom static analyser over go/types + go/ssa of /repo's current working tree (x/tools v0.29.0, vendored): call-graph reachability, who-may-call/store, path rules on the SSA CFG, provenance terms, order-taint, no-panic prover, unit analysis, table agreement"}],
 "checks":checks,
 "notes":"Static analysis only: no check runs go-flags code or its tests. Each claimed property is decided for the structural clauses listed in its level text; the value-level statement is not decided (see DESIGN.md §4/§6). Findings on the pinned tree were repaired by fix: commits in /repo or are listed in known_findings.json.",
 "not_applicable":na}
json.dump(m,open('/verif/MANIFEST.json','w'),indent=1)
print(len(checks),"claimed;",len(na),"not applicable")
