package main

// gamma.go — gated (γ) normal form of what one trip around a loop stores into
// a memory cell. Within the loop-free body of a loop every value is written as
// an expression over leaves, with phis replaced by ite(condition of the
// deciding branch, value on its true side, value on its false side) and loads
// of the cell replaced by the value most recently stored to it on the way
// (store forwarding, again gated at joins). The result is one expression for
// the cell's content at the back edge, independent of whether the code
// updates the cell in place several times or computes the value in a local
// first. Integer minimum idioms are folded: ite(a<r, a+1, r) = min(r, a+1).
// This is a syntactic normal form (gated SSA); no path feasibility is decided.

import (
	"fmt"
	"go/token"
	"sort"
	"strings"

	"golang.org/x/tools/go/ssa"
)

type gx struct {
	op   string // leaf, ite, lt, le, add, min, max, not, eq
	leaf string
	k    int64
	args []*gx
}

func (e *gx) String() string {
	switch e.op {
	case "leaf":
		return e.leaf
	case "add":
		return fmt.Sprintf("%s%+d", e.args[0], e.k)
	case "not":
		return "!" + e.args[0].String()
	case "lt":
		return "(" + e.args[0].String() + "<" + e.args[1].String() + ")"
	case "le":
		return "(" + e.args[0].String() + "<=" + e.args[1].String() + ")"
	case "eq":
		return "(" + e.args[0].String() + "==" + e.args[1].String() + ")"
	}
	var ss []string
	for _, a := range e.args {
		ss = append(ss, a.String())
	}
	return e.op + "(" + strings.Join(ss, ", ") + ")"
}

func gLeaf(s string) *gx { return &gx{op: "leaf", leaf: s} }

func gAdd(a *gx, k int64) *gx {
	if k == 0 {
		return a
	}
	if a.op == "add" {
		return gAdd(a.args[0], a.k+k)
	}
	return &gx{op: "add", k: k, args: []*gx{a}}
}

func gMin(op string, as ...*gx) *gx {
	var flat []*gx
	for _, a := range as {
		if a.op == op {
			flat = append(flat, a.args...)
		} else {
			flat = append(flat, a)
		}
	}
	sort.Slice(flat, func(i, j int) bool { return flat[i].String() < flat[j].String() })
	var out []*gx
	for i, a := range flat {
		if i > 0 && a.String() == flat[i-1].String() {
			continue
		}
		out = append(out, a)
	}
	if len(out) == 1 {
		return out[0]
	}
	return &gx{op: op, args: out}
}

func gIte(c, a, b *gx) *gx {
	if c.op == "not" {
		return gIte(c.args[0], b, a)
	}
	as, bs := a.String(), b.String()
	if as == bs {
		return a
	}
	if c.op == "lt" || c.op == "le" {
		x, y := c.args[0], c.args[1]
		xs, ys := x.String(), y.String()
		switch {
		case xs == as && ys == bs: // x<y ? x : y
			return gMin("min", a, b)
		case xs == bs && ys == as: // x<y ? y : x
			return gMin("max", a, b)
		case c.op == "lt" && ys == bs && gAdd(x, 1).String() == as: // x<r ? x+1 : r  (integers)
			return gMin("min", b, a)
		case c.op == "le" && xs == bs && gAdd(y, 1).String() == as: // r<=y ? ... no
		}
	}
	return &gx{op: "ite", args: []*gx{c, a, b}}
}

type gamma struct {
	c      *Ctx
	loop   *Loop
	isCell func(addr ssa.Value) bool
	leaf   func(v ssa.Value) string
	eqLeaf func(a, b ssa.Value) string // name of a recognised equality test ("" if none)
	depth  int
	bad    string
}

func (g *gamma) fail(why string) *gx {
	if g.bad == "" {
		g.bad = why
	}
	return gLeaf("?" + why)
}

func (g *gamma) expr(v ssa.Value) *gx {
	g.depth++
	defer func() { g.depth-- }()
	if g.depth > 60 {
		return g.fail("depth")
	}
	switch x := v.(type) {
	case *ssa.Const:
		if k, ok := constInt(x); ok {
			return gLeaf(fmt.Sprint(k))
		}
	case *ssa.BinOp:
		switch x.Op {
		case token.ADD, token.SUB:
			if k, ok := constInt(x.Y); ok {
				if x.Op == token.SUB {
					k = -k
				}
				return gAdd(g.expr(x.X), k)
			}
			if k, ok := constInt(x.X); ok && x.Op == token.ADD {
				return gAdd(g.expr(x.Y), k)
			}
		case token.LSS:
			return &gx{op: "lt", args: []*gx{g.expr(x.X), g.expr(x.Y)}}
		case token.GTR:
			return &gx{op: "lt", args: []*gx{g.expr(x.Y), g.expr(x.X)}}
		case token.LEQ:
			return &gx{op: "le", args: []*gx{g.expr(x.X), g.expr(x.Y)}}
		case token.GEQ:
			return &gx{op: "le", args: []*gx{g.expr(x.Y), g.expr(x.X)}}
		case token.EQL, token.NEQ:
			var e *gx
			if s := g.eqLeaf(x.X, x.Y); s != "" {
				e = gLeaf(s)
			} else {
				e = &gx{op: "eq", args: []*gx{g.expr(x.X), g.expr(x.Y)}}
			}
			if x.Op == token.NEQ {
				return &gx{op: "not", args: []*gx{e}}
			}
			return e
		}
	case *ssa.UnOp:
		if x.Op == token.NOT {
			return &gx{op: "not", args: []*gx{g.expr(x.X)}}
		}
		if x.Op == token.MUL && g.isCell(x.X) && g.loop.Blocks[x.Block()] {
			b := x.Block()
			for i, in := range b.Instrs {
				if in == ssa.Instruction(x) {
					return g.memBefore(b, i)
				}
			}
		}
	case *ssa.Phi:
		b := x.Block()
		if g.loop.Blocks[b] && b != g.loop.Header {
			return g.gate(b.Preds, b, func(p *ssa.BasicBlock) *gx {
				for i, q := range b.Preds {
					if q == p {
						return g.expr(x.Edges[i])
					}
				}
				return g.fail("phi edge")
			})
		}
	}
	return gLeaf(g.leaf(v))
}

func (g *gamma) memBefore(b *ssa.BasicBlock, idx int) *gx {
	for i := idx - 1; i >= 0; i-- {
		if st, ok := b.Instrs[i].(*ssa.Store); ok && g.isCell(st.Addr) {
			return g.expr(st.Val)
		}
	}
	return g.memIn(b)
}

func (g *gamma) memOut(b *ssa.BasicBlock) *gx { return g.memBefore(b, len(b.Instrs)) }

func (g *gamma) memIn(b *ssa.BasicBlock) *gx {
	g.depth++
	defer func() { g.depth-- }()
	if g.depth > 60 {
		return g.fail("depth")
	}
	if b == g.loop.Header {
		return gLeaf("old")
	}
	var preds []*ssa.BasicBlock
	for _, p := range b.Preds {
		if g.loop.Blocks[p] {
			preds = append(preds, p)
		}
	}
	if len(preds) == 0 {
		return gLeaf("old")
	}
	return g.gate(preds, b, g.memOut)
}

// gate: the value at join j as a function of the branch that selects the predecessor.
func (g *gamma) gate(preds []*ssa.BasicBlock, j *ssa.BasicBlock, val func(p *ssa.BasicBlock) *gx) *gx {
	if len(preds) == 1 {
		return val(preds[0])
	}
	// nearest block D (dominating all preds) whose two successors separate them
	for d := preds[0]; d != nil && g.loop.Blocks[d]; d = d.Idom() {
		iff, ok := d.Instrs[len(d.Instrs)-1].(*ssa.If)
		if !ok {
			continue
		}
		var ts, fs []*ssa.BasicBlock
		okSplit := true
		for _, p := range preds {
			if p != d && !d.Dominates(p) {
				okSplit = false
				break
			}
			switch {
			case p == d && d.Succs[0] == j:
				ts = append(ts, p)
			case p == d && d.Succs[1] == j:
				fs = append(fs, p)
			case p != d && d.Succs[0] != j && d.Succs[0].Dominates(p) && len(d.Succs[0].Preds) == 1:
				ts = append(ts, p)
			case p != d && d.Succs[1] != j && d.Succs[1].Dominates(p) && len(d.Succs[1].Preds) == 1:
				fs = append(fs, p)
			default:
				okSplit = false
			}
		}
		if !okSplit || len(ts) == 0 || len(fs) == 0 {
			continue
		}
		return gIte(g.expr(iff.Cond), g.gate(ts, j, val), g.gate(fs, j, val))
	}
	return g.fail(fmt.Sprintf("join b%d not gated by a single branch", j.Index))
}

// final: the cell's content when the loop header is reached again.
func (g *gamma) final() *gx {
	var latches []*ssa.BasicBlock
	for _, p := range g.loop.Header.Preds {
		if g.loop.Blocks[p] {
			latches = append(latches, p)
		}
	}
	if len(latches) == 0 {
		return g.fail("no back edge")
	}
	return g.gate(latches, g.loop.Header, g.memOut)
}
