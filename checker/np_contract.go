package main

// np_contract.go — preconditions of trusted callees (reflect, strings, strconv)
// and nil-dereference obligations.

import (
	"fmt"
	"go/token"
	"go/types"
	"reflect"
	"sort"
	"strings"

	"golang.org/x/tools/go/ssa"
)

type contract struct {
	kinds     []reflect.Kind // receiver (or arg0) kind must be one of
	onType    bool           // receiver is a reflect.Type (else reflect.Value)
	argNonNeg int            // index of an int argument that must be ≥ 0 (0 = none)
	baseArg   int            // index of a base argument that must be in 2..36
	idxBound  string         // "Len" | "NumField" | "NumIn": arg1 must be < recv.<that>()
	nonNilFn  bool           // receiver func must be non-nil (Call)
	doc       string
}

var intKinds = []reflect.Kind{reflect.Int, reflect.Int8, reflect.Int16, reflect.Int32, reflect.Int64}
var uintKinds = []reflect.Kind{reflect.Uint, reflect.Uint8, reflect.Uint16, reflect.Uint32, reflect.Uint64, reflect.Uintptr}
var floatKinds = []reflect.Kind{reflect.Float32, reflect.Float64}

func cat(ks ...[]reflect.Kind) []reflect.Kind {
	var out []reflect.Kind
	for _, k := range ks {
		out = append(out, k...)
	}
	return out
}

var npContracts = map[string]contract{
	"strings.Repeat":     {argNonNeg: 2, doc: "strings.Repeat panics if count is negative"},
	"strconv.FormatInt":  {baseArg: 2, doc: "strconv.FormatInt panics unless 2 ≤ base ≤ 36"},
	"strconv.FormatUint": {baseArg: 2, doc: "strconv.FormatUint panics unless 2 ≤ base ≤ 36"},

	"(reflect.Value).IsNil":       {kinds: []reflect.Kind{reflect.Chan, reflect.Func, reflect.Interface, reflect.Map, reflect.Ptr, reflect.Slice, reflect.UnsafePointer}, doc: "Value.IsNil panics for other kinds"},
	"(reflect.Value).Elem":        {kinds: []reflect.Kind{reflect.Interface, reflect.Ptr}, doc: "Value.Elem panics unless Interface or Ptr"},
	"(reflect.Value).Len":         {kinds: []reflect.Kind{reflect.Array, reflect.Chan, reflect.Map, reflect.Slice, reflect.String}, doc: "Value.Len"},
	"(reflect.Value).MapKeys":     {kinds: []reflect.Kind{reflect.Map}, doc: "Value.MapKeys"},
	"(reflect.Value).MapIndex":    {kinds: []reflect.Kind{reflect.Map}, doc: "Value.MapIndex"},
	"(reflect.Value).SetMapIndex": {kinds: []reflect.Kind{reflect.Map}, doc: "Value.SetMapIndex (also: assignability and non-nil map)"},
	"(reflect.Value).Index":       {kinds: []reflect.Kind{reflect.Array, reflect.Slice, reflect.String}, idxBound: "Len", doc: "Value.Index"},
	"(reflect.Value).Field":       {kinds: []reflect.Kind{reflect.Struct}, idxBound: "NumField", doc: "Value.Field"},
	"(reflect.Value).NumField":    {kinds: []reflect.Kind{reflect.Struct}, doc: "Value.NumField"},
	"(reflect.Value).Call":        {kinds: []reflect.Kind{reflect.Func}, nonNilFn: true, doc: "Value.Call panics on a nil func or a wrong argument count"},
	"(reflect.Value).Int":         {kinds: intKinds, doc: "Value.Int"},
	"(reflect.Value).Uint":        {kinds: uintKinds, doc: "Value.Uint"},
	"(reflect.Value).Float":       {kinds: floatKinds, doc: "Value.Float"},
	"(reflect.Value).Bool":        {kinds: []reflect.Kind{reflect.Bool}, doc: "Value.Bool"},
	"(reflect.Value).SetInt":      {kinds: intKinds, doc: "Value.SetInt (kind; settability is the SETTABLE rule)"},
	"(reflect.Value).SetUint":     {kinds: uintKinds, doc: "Value.SetUint"},
	"(reflect.Value).SetFloat":    {kinds: floatKinds, doc: "Value.SetFloat"},
	"(reflect.Value).SetBool":     {kinds: []reflect.Kind{reflect.Bool}, doc: "Value.SetBool"},
	"(reflect.Value).SetString":   {kinds: []reflect.Kind{reflect.String}, doc: "Value.SetString"},
	"reflect.Append":              {kinds: []reflect.Kind{reflect.Slice}, doc: "reflect.Append"},
	"reflect.MakeMap":             {kinds: []reflect.Kind{reflect.Map}, onType: true, doc: "reflect.MakeMap"},
	"invoke:Type.Elem":            {kinds: []reflect.Kind{reflect.Array, reflect.Chan, reflect.Map, reflect.Ptr, reflect.Slice}, onType: true, doc: "Type.Elem"},
	"invoke:Type.Key":             {kinds: []reflect.Kind{reflect.Map}, onType: true, doc: "Type.Key"},
	"invoke:Type.In":              {kinds: []reflect.Kind{reflect.Func}, onType: true, idxBound: "NumIn", doc: "Type.In"},
	"invoke:Type.NumIn":           {kinds: []reflect.Kind{reflect.Func}, onType: true, doc: "Type.NumIn"},
	"invoke:Type.Field":           {kinds: []reflect.Kind{reflect.Struct}, onType: true, idxBound: "NumField", doc: "Type.Field"},
	"invoke:Type.NumField":        {kinds: []reflect.Kind{reflect.Struct}, onType: true, doc: "Type.NumField"},
	"invoke:Type.Bits":            {kinds: cat(intKinds, uintKinds, floatKinds, []reflect.Kind{reflect.Complex64, reflect.Complex128}), onType: true, doc: "Type.Bits"},
}

// kindSubject returns the normalised term of "the thing whose kind matters":
// a reflect.Value term V. Type-level subjects are written "type:" + T.
func (c *Ctx) kindSubjectOfValue(v ssa.Value) string { return "V:" + c.term(v) }

// kindOfExpr: if v is an expression computing a Kind, returns the subject it is the kind of.
func (c *Ctx) kindSubjectOfKindExpr(v ssa.Value) (string, bool) {
	v = c.resolve(v)
	call, ok := v.(*ssa.Call)
	if !ok {
		return "", false
	}
	name := c.calleeName(call.Common())
	switch name {
	case "(reflect.Value).Kind":
		return c.kindSubjectOfValue(call.Call.Args[0]), true
	case "invoke:Type.Kind":
		return c.typeSubject(call.Call.Value), true
	}
	return "", false
}

// typeSubject normalises a reflect.Type expression: Type(V) ≡ V.
func (c *Ctx) typeSubject(t ssa.Value) string {
	t = c.resolve(t)
	if call, ok := t.(*ssa.Call); ok {
		if c.calleeName(call.Common()) == "(reflect.Value).Type" {
			return c.kindSubjectOfValue(call.Call.Args[0])
		}
	}
	return "T:" + c.term(t)
}

// kindFacts extracts from a condition the set of kinds the subject is known to have.
// returns subject → allowed kinds (positive) .
func (c *Ctx) kindFact(cond ssa.Value, pos bool) (subject string, kinds []int64, ok bool) {
	cond = c.resolve(cond)
	switch x := cond.(type) {
	case *ssa.BinOp:
		if (x.Op == token.EQL && pos) || (x.Op == token.NEQ && !pos) {
			a, b := c.resolve(x.X), c.resolve(x.Y)
			for k := 0; k < 2; k++ {
				if kv, isC := constInt(b); isC {
					if s, ok := c.kindSubjectOfKindExpr(a); ok {
						return s, []int64{kv}, true
					}
				}
				a, b = b, a
			}
		}
	case *ssa.Call:
		// predicate helpers of the shape `return X.Type().Kind() == K` (one block)
		if !pos {
			return "", nil, false
		}
		cal := x.Common().StaticCallee()
		if cal == nil || cal.Blocks == nil || cal.Pkg != c.Pkg {
			return "", nil, false
		}
		for _, f := range c.frames {
			if f.Common().StaticCallee() == cal {
				return "", nil, false
			}
		}
		// a helper that is looked through renders its parameters as this call's arguments: evaluate in this call's frame
		through := c.isNew(cal)
		if through {
			c.frames = append(c.frames, x)
			defer func() { c.frames = c.frames[:len(c.frames)-1] }()
		}
		// every way the predicate can answer true carries a kind test of one and the same subject
		origins, okO := c.verdictOrigins(cal, true)
		if !okO || len(origins) == 0 || len(origins) > 8 {
			return "", nil, false
		}
		var s string
		var ks []int64
		for _, fs := range origins {
			found := false
			for _, f := range fs {
				if _, isCall := c.resolve(f.cond).(*ssa.Call); isCall {
					continue // no recursion through further helpers here
				}
				if s1, k1, ok1 := c.kindFact(f.cond, f.pos); ok1 && (s == "" || s == s1) {
					s, found = s1, true
					ks = append(ks, k1...)
					break
				}
			}
			if !found {
				return "", nil, false
			}
		}
		if through {
			return s, ks, true
		}
		// substitute the callee's parameters by the call's arguments
		for i := range cal.Params {
			if i < len(x.Call.Args) {
				s = strings.ReplaceAll(s, c.pname(cal, i), "\x00"+fmt.Sprint(i)+"\x00")
			}
		}
		for i := range cal.Params {
			if i < len(x.Call.Args) {
				s = strings.ReplaceAll(s, "\x00"+fmt.Sprint(i)+"\x00", c.term(x.Call.Args[i]))
			}
		}
		return s, ks, true
	}
	return "", nil, false
}

func kindNames(ks []int64) string {
	var s []string
	for _, k := range ks {
		s = append(s, reflect.Kind(k).String())
	}
	sort.Strings(s)
	return strings.Join(s, "|")
}

func kindAllowed(ks []int64, allowed []reflect.Kind) bool {
	for _, k := range ks {
		ok := false
		for _, a := range allowed {
			if int64(a) == k {
				ok = true
			}
		}
		if !ok {
			return false
		}
	}
	return len(ks) > 0
}

func (c *Ctx) npContract(s npSite, fx *Facts) npResult {
	ci := s.in.(ssa.CallInstruction)
	cc := ci.Common()
	name := c.calleeName(cc)
	ct := npContracts[name]
	args := cc.Args
	if cc.IsInvoke() {
		args = append([]ssa.Value{cc.Value}, cc.Args...)
	}
	var bys []string
	if ct.argNonNeg > 0 {
		n, _ := c.npAt(s.in, fx)
		l := n.linOf(args[ct.argNonNeg-1])
		n.searchAxioms()
		if !n.provesLe(lin{"", 0}, l) {
			return npResult{why: ct.doc + ": cannot prove " + linStr(l) + " ≥ 0"}
		}
		bys = append(bys, linStr(l)+" ≥ 0")
	}
	if ct.baseArg > 0 {
		n, _ := c.npAt(s.in, fx)
		l := n.linOf(args[ct.baseArg-1])
		n.searchAxioms()
		if !(n.provesLe(lin{"", 2}, l) && n.provesLe(l, lin{"", 36})) {
			return npResult{why: ct.doc + ": cannot prove 2 ≤ " + linStr(l) + " ≤ 36"}
		}
		bys = append(bys, "2 ≤ "+linStr(l)+" ≤ 36")
	}
	if len(ct.kinds) > 0 {
		var subj string
		if ct.onType {
			subj = c.typeSubject(args[0])
		} else {
			subj = c.kindSubjectOfValue(args[0])
		}
		found := false
		var seen []string
		for _, f := range c.domFacts(s.in.Block()) {
			alts := f.Alts
			if alts == nil {
				alts = []DomFact{f}
			}
			var all []int64
			okAll := true
			for _, a := range alts {
				sub, ks, ok := c.kindFact(a.Cond, a.Pos)
				if !ok || sub != subj {
					okAll = false
					break
				}
				if a.If != nil && strings.Contains(subj, ".") && strings.Contains(subj, "value(") && c.factClobbered(a, s.in, fx) {
					okAll = false
					break
				}
				all = append(all, ks...)
			}
			if !okAll {
				continue
			}
			seen = append(seen, kindNames(all))
			if kindAllowed(all, ct.kinds) {
				found = true
				bys = append(bys, "kind ∈ {"+kindNames(all)+"} by dominating kind test on the same value")
				break
			}
		}
		if !found {
			// all dominating tests together (nested switches: the outer case list minus the inner cases ruled out)
			skip := func(a DomFact) bool {
				return strings.Contains(subj, ".") && strings.Contains(subj, "value(") && c.factClobbered(a, s.in, fx)
			}
			if comb, ok := c.kindSetAt(s.in.Block(), subj, skip); ok && len(comb) > 0 && kindAllowed(comb, ct.kinds) {
				found = true
				bys = append(bys, "kind ∈ {"+kindNames(comb)+"} by the dominating kind tests combined")
			}
		}
		if !found {
			// by construction: reflect.New(T) is a Ptr; Indirect(New(..)) etc.
			if k, ok := c.kindByConstruction(args[0], ct.onType); ok && kindAllowed([]int64{int64(k)}, ct.kinds) {
				found = true
				bys = append(bys, "kind "+k.String()+" by construction")
			}
		}
		if !found {
			if by, ok := c.kindFromCallers(s.fn, subj, ct.kinds, fx); ok {
				found = true
				bys = append(bys, by)
			}
		}
		if !found {
			why := ct.doc + ": no dominating kind test on " + trunc(subj, 90) + " restricting it to the allowed kinds"
			if len(seen) > 0 {
				why += " (dominating tests give {" + strings.Join(seen, "},{") + "})"
			}
			return npResult{why: why}
		}
	}
	if ct.idxBound != "" {
		n, _ := c.npAt(s.in, fx)
		idx := n.linOf(args[1])
		n.searchAxioms()
		lo := n.provesLe(lin{"", 0}, idx)
		// upper bound: a dominating `idx < recv.<bound>()`
		up := false
		for a := range n.atoms {
			if strings.Contains(a, "."+ct.idxBound+"(") || strings.Contains(a, ")."+ct.idxBound+"(") || strings.Contains(a, ct.idxBound+"(") {
				if c.sameReflectSubject(a, args[0], ct) && n.provesLe(lin{idx.sym, idx.k + 1}, lin{a, 0}) {
					up = true
				}
			}
		}
		if !(lo && up) {
			return npResult{why: fmt.Sprintf("%s: cannot prove 0 ≤ %s (%v) and %s < %s() of the same value (%v)", ct.doc, linStr(idx), lo, linStr(idx), ct.idxBound, up)}
		}
		bys = append(bys, "0 ≤ "+linStr(idx)+" < "+ct.idxBound+"()")
	}
	if ct.nonNilFn {
		return npResult{why: "the kind is Func (" + strings.Join(bys, "; ") + ") but nothing proves the func value non-nil: a func-typed option the program left nil makes Value.Call panic"}
	}
	return npResult{ok: true, by: strings.Join(bys, "; ")}
}

// sameReflectSubject: atom is `…NumField(T)`/`Len(V)` on the same value/type as recv.
func (c *Ctx) sameReflectSubject(atom string, recv ssa.Value, ct contract) bool {
	rt := c.term(recv)
	if strings.Contains(atom, "("+rt+")") || strings.Contains(atom, "("+rt+";") {
		return true
	}
	// Value.Field(i) bounded by Type().NumField()
	if !ct.onType && strings.Contains(atom, "call:(reflect.Value).Type("+rt+")") {
		return true
	}
	return false
}

// kindByConstruction: kinds known from how the value was built.
func (c *Ctx) kindByConstruction(v ssa.Value, onType bool) (reflect.Kind, bool) {
	v = c.resolve(v)
	call, ok := v.(*ssa.Call)
	if !ok {
		return 0, false
	}
	switch c.calleeName(call.Common()) {
	case "reflect.TypeOf":
		// TypeOf(x) where x's static type is a pointer: the type is a Ptr type
		if onType {
			if mi, ok := call.Call.Args[0].(*ssa.MakeInterface); ok {
				if _, isPtr := mi.X.Type().Underlying().(*types.Pointer); isPtr {
					return reflect.Ptr, true
				}
			}
		}
	case "reflect.New":
		if !onType {
			return reflect.Ptr, true
		}
	case "reflect.MakeMap":
		if !onType {
			return reflect.Map, true
		}
	case "(reflect.Value).Addr":
		if !onType {
			return reflect.Ptr, true
		}
	}
	return 0, false
}

// ---- nil dereference --------------------------------------------------------------

// nilParams: pointer/interface/func parameters that may be nil: some package call site
// passes a literal nil (or a maybe-nil parameter of its own), or the function
// itself compares the parameter with nil (contradiction rule).
func (c *Ctx) maybeNilParams() map[*ssa.Parameter]string {
	out := map[*ssa.Parameter]string{}
	for _, fn := range c.Funcs {
		for i, p := range fn.Params {
			if !nilable(p.Type()) {
				continue
			}
			if i == 0 && fn.Signature.Recv() != nil {
				continue // receivers: a nil receiver is the caller's bug, not input-driven
			}
			// compared to nil inside?
			if refs := p.Referrers(); refs != nil {
				for _, r := range *refs {
					if bo, ok := r.(*ssa.BinOp); ok && (bo.Op == token.EQL || bo.Op == token.NEQ) && (isConstNil(bo.X) || isConstNil(bo.Y)) {
						out[p] = "compared with nil in " + c.fname(fn)
					}
				}
			}
		}
	}
	changed := true
	for iter := 0; changed && iter < 4; iter++ {
		changed = false
		for _, fn := range c.Funcs {
			for _, b := range fn.Blocks {
				for _, in := range b.Instrs {
					ci, ok := in.(ssa.CallInstruction)
					if !ok {
						continue
					}
					cal := ci.Common().StaticCallee()
					if cal == nil || cal.Blocks == nil || len(cal.Params) != len(ci.Common().Args) {
						continue
					}
					for i, a := range ci.Common().Args {
						p := cal.Params[i]
						if !nilable(p.Type()) || out[p] != "" {
							continue
						}
						if i == 0 && cal.Signature.Recv() != nil {
							continue
						}
						ra := c.resolve(a)
						if isConstNil(ra) {
							out[p] = "nil passed at " + c.ipos(in)
							changed = true
						} else if pp, ok := ra.(*ssa.Parameter); ok && out[pp] != "" {
							if c.okAt(a, b) {
								continue // tested non-nil on the way to this call
							}
							out[p] = "maybe-nil parameter passed at " + c.ipos(in)
							changed = true
						} else if ph, ok := ra.(*ssa.Phi); ok {
							for _, e := range ph.Edges {
								if isConstNil(e) {
									out[p] = "nil (via phi) passed at " + c.ipos(in)
									changed = true
								}
							}
						}
					}
				}
			}
		}
	}
	return out
}

func nilable(t types.Type) bool {
	switch t.Underlying().(type) {
	case *types.Pointer, *types.Interface, *types.Signature, *types.Map:
		return true
	}
	return false
}

// nilReturning: package functions with a `return nil` in some pointer/interface result position.
func (c *Ctx) nilReturning() map[*ssa.Function]map[int]bool {
	out := map[*ssa.Function]map[int]bool{}
	for _, fn := range c.Funcs {
		for _, ret := range returnsOf(fn) {
			for i, rv := range ret.Results {
				if !nilable(rv.Type()) || isErrorType(fn.Signature.Results().At(i).Type()) {
					continue
				}
				r := c.resolve(rv)
				isNil := isConstNil(r)
				if ph, ok := r.(*ssa.Phi); ok {
					for _, e := range ph.Edges {
						if isConstNil(e) {
							isNil = true
						}
					}
				}
				if isNil {
					if out[fn] == nil {
						out[fn] = map[int]bool{}
					}
					out[fn][i] = true
				}
			}
		}
	}
	return out
}

type nilInfo struct {
	params map[*ssa.Parameter]string
	rets   map[*ssa.Function]map[int]bool
	// onlyWithErr[fn][i]: result i is nil only on returns whose error result is not the constant nil
	onlyWithErr map[*ssa.Function]map[int]bool
}

func (c *Ctx) nilOnlyWithErr(rets map[*ssa.Function]map[int]bool) map[*ssa.Function]map[int]bool {
	out := map[*ssa.Function]map[int]bool{}
	for fn, idxs := range rets {
		res := fn.Signature.Results()
		if res.Len() < 2 || !isErrorType(res.At(res.Len()-1).Type()) {
			continue
		}
		for i := range idxs {
			ok := true
			for _, ret := range returnsOf(fn) {
				r := c.resolve(ret.Results[i])
				maybeNil := isConstNil(r)
				if _, isPhi := r.(*ssa.Phi); isPhi {
					maybeNil = true
				}
				if maybeNil && isConstNil(c.resolve(ret.Results[res.Len()-1])) {
					ok = false
				}
				if maybeNil {
					// the error operand must be provably non-nil: a constructor result or a value tested non-nil on this path
					e := c.resolve(ret.Results[res.Len()-1])
					nonnil := false
					if _, isCall := e.(*ssa.Call); isCall {
						nonnil = false
					}
					for _, f := range c.domFacts(ret.Block()) {
						if f.Alts != nil {
							continue
						}
						if bo, isB := c.resolve(f.Cond).(*ssa.BinOp); isB && (isConstNil(bo.Y) || isConstNil(bo.X)) {
							other := bo.X
							if isConstNil(bo.X) {
								other = bo.Y
							}
							if c.resolve(other) == e && ((bo.Op == token.NEQ && f.Pos) || (bo.Op == token.EQL && !f.Pos)) {
								nonnil = true
							}
						}
					}
					if mi, isMI := ret.Results[res.Len()-1].(*ssa.MakeInterface); isMI {
						if call, isCall := mi.X.(*ssa.Call); isCall {
							n := c.calleeName(call.Common())
							if n == "newError" || n == "newErrorf" {
								nonnil = true
							}
						}
					}
					if !nonnil {
						ok = false
					}
				}
			}
			if ok {
				if out[fn] == nil {
					out[fn] = map[int]bool{}
				}
				out[fn][i] = true
			}
		}
	}
	return out
}

var nilCache = map[*Ctx]*nilInfo{}

func (c *Ctx) nilInfo() *nilInfo {
	if ni, ok := nilCache[c]; ok {
		return ni
	}
	ni := &nilInfo{params: c.maybeNilParams(), rets: c.nilReturning()}
	ni.onlyWithErr = c.nilOnlyWithErr(ni.rets)
	nilCache[c] = ni
	return ni
}

// mayBeNil: why v may be nil ("" if not known to be nil-able).
func (c *Ctx) mayBeNil(v ssa.Value, seen map[ssa.Value]bool) string {
	v = c.resolve(v)
	if seen[v] {
		return ""
	}
	seen[v] = true
	ni := c.nilInfo()
	switch x := v.(type) {
	case *ssa.Const:
		if x.Value == nil && nilable(x.Type()) {
			return "literal nil"
		}
	case *ssa.Parameter:
		return ni.params[x]
	case *ssa.Lookup:
		if _, isMap := x.X.Type().Underlying().(*types.Map); isMap && nilable(x.Type()) && !x.CommaOk {
			return "result of a map lookup (nil when the key is absent)"
		}
	case *ssa.Extract:
		switch t := x.Tuple.(type) {
		case *ssa.Lookup:
			if x.Index == 0 && nilable(x.Type()) {
				return "result of a map lookup (nil when the key is absent)"
			}
		case *ssa.TypeAssert:
			if x.Index == 0 && nilable(x.Type()) {
				return "result of a failed comma-ok type assertion"
			}
		case *ssa.Call:
			if cal := t.Common().StaticCallee(); cal != nil && ni.rets[cal][x.Index] {
				return "result of " + c.fname(cal) + ", which can return nil"
			}
		}
	case *ssa.Call:
		if cal := x.Common().StaticCallee(); cal != nil && ni.rets[cal][0] && cal.Signature.Results().Len() == 1 {
			return "result of " + c.fname(cal) + ", which can return nil"
		}
	case *ssa.Phi:
		for i, e := range x.Edges {
			if w := c.mayBeNil(e, seen); w != "" {
				// the edge value arrives from predecessor i: a comma-ok result used on its ok edge is fine
				if c.okAt(e, x.Block().Preds[i]) {
					continue
				}
				return w + " (through a phi)"
			}
		}
	}
	return ""
}

// okAt: v is result #0 of a comma-ok type assertion and block b is reachable
// only through the ok == true edge (or v is tested non-nil on the way to b).
func (c *Ctx) okAt(v ssa.Value, b *ssa.BasicBlock) bool {
	v = c.resolve(v)
	facts := c.domFacts(b)
	// facts on entry to b; b itself may end in the If, so also the edge b→phi block is not needed here
	for _, f := range facts {
		if f.Alts != nil {
			continue
		}
		cond := c.resolve(f.Cond)
		// lockstep phis of a comma-ok loop (`for x, ok := a.(T); ok; x, ok = b.(T)`): the value phi and the ok phi
		// sit in the same block and take, edge by edge, the two results of the same assertion
		if pk, ok := cond.(*ssa.Phi); ok && f.Pos {
			if pv, ok := v.(*ssa.Phi); ok && pv.Block() == pk.Block() && len(pv.Edges) == len(pk.Edges) {
				lock := len(pv.Edges) > 0
				for i := range pv.Edges {
					e0, ok0 := pv.Edges[i].(*ssa.Extract)
					e1, ok1 := pk.Edges[i].(*ssa.Extract)
					if !ok0 || !ok1 || e0.Tuple != e1.Tuple || e0.Index != 0 || e1.Index != 1 {
						lock = false
						break
					}
					if _, isTA := e0.Tuple.(*ssa.TypeAssert); !isTA {
						lock = false
						break
					}
				}
				if lock {
					return true
				}
			}
		}
		if e1, ok := cond.(*ssa.Extract); ok && e1.Index == 1 && f.Pos {
			if e0, ok := v.(*ssa.Extract); ok && e0.Tuple == e1.Tuple && e0.Index == 0 {
				if _, isTA := e1.Tuple.(*ssa.TypeAssert); isTA {
					return true
				}
			}
			// field of the asserted value: i.Group where i is the ok result
			if u, ok := v.(*ssa.UnOp); ok {
				if fa, ok := u.X.(*ssa.FieldAddr); ok {
					if e0, ok := c.resolve(fa.X).(*ssa.Extract); ok && e0.Tuple == e1.Tuple {
						return true
					}
				}
			}
		}
		if bo, ok := cond.(*ssa.BinOp); ok && (isConstNil(bo.X) || isConstNil(bo.Y)) {
			other := bo.X
			if isConstNil(bo.X) {
				other = bo.Y
			}
			if c.resolve(other) == v && ((bo.Op == token.NEQ && f.Pos) || (bo.Op == token.EQL && !f.Pos)) {
				return true
			}
		}
	}
	return false
}

func (c *Ctx) nilSites(fn *ssa.Function) []npSite {
	var out []npSite
	add := func(in ssa.Instruction, ptr ssa.Value, what string) {
		if why := c.mayBeNil(ptr, map[ssa.Value]bool{}); why != "" {
			out = append(out, npSite{fn, in, "nil", what + " " + c.term(ptr)})
		}
	}
	for _, b := range fn.Blocks {
		for _, in := range b.Instrs {
			switch x := in.(type) {
			case *ssa.FieldAddr:
				add(in, x.X, "field access through")
			case *ssa.UnOp:
				if x.Op == token.MUL {
					switch x.X.(type) {
					case *ssa.FieldAddr, *ssa.IndexAddr, *ssa.Alloc, *ssa.Global, *ssa.FreeVar:
					default:
						add(in, x.X, "dereference of")
					}
				}
			case *ssa.Store:
				switch x.Addr.(type) {
				case *ssa.FieldAddr, *ssa.IndexAddr, *ssa.Alloc, *ssa.Global, *ssa.FreeVar:
				default:
					add(in, x.Addr, "store through")
				}
			case ssa.CallInstruction:
				cc := x.Common()
				if cc.IsInvoke() {
					add(in, cc.Value, "method call on interface")
				} else if cc.StaticCallee() == nil {
					if _, isB := cc.Value.(*ssa.Builtin); !isB {
						add(in, cc.Value, "call of func value")
					}
				}
			case *ssa.MapUpdate:
				add(in, x.Map, "write to map")
			}
		}
	}
	return out
}

// nonNilFact: does cond/pos establish that v (same SSA value after resolve, or same term) is non-nil?
func (c *Ctx) npNil(s npSite, fx *Facts) npResult {
	var ptr ssa.Value
	switch x := s.in.(type) {
	case *ssa.FieldAddr:
		ptr = x.X
	case *ssa.UnOp:
		ptr = x.X
	case *ssa.Store:
		ptr = x.Addr
	case *ssa.MapUpdate:
		ptr = x.Map
	case ssa.CallInstruction:
		ptr = x.Common().Value
	}
	why := c.mayBeNil(ptr, map[ssa.Value]bool{})
	rp := c.resolve(ptr)
	tp := c.term(rp)
	// (value, err) results: nil only together with a non-nil error
	if e0, ok := rp.(*ssa.Extract); ok {
		if call, ok := e0.Tuple.(*ssa.Call); ok {
			if cal := call.Common().StaticCallee(); cal != nil && c.nilInfo().onlyWithErr[cal][e0.Index] {
				errIdx := cal.Signature.Results().Len() - 1
				for _, f := range c.domFacts(s.in.Block()) {
					if f.Alts != nil {
						continue
					}
					if bo, isB := c.resolve(f.Cond).(*ssa.BinOp); isB && (isConstNil(bo.X) || isConstNil(bo.Y)) {
						other := bo.X
						if isConstNil(bo.X) {
							other = bo.Y
						}
						if ee, isE := c.resolve(other).(*ssa.Extract); isE && ee.Tuple == e0.Tuple && ee.Index == errIdx {
							if (bo.Op == token.EQL && f.Pos) || (bo.Op == token.NEQ && !f.Pos) {
								return npResult{ok: true, by: c.fname(cal) + " returns nil only together with a non-nil error, and the error of this call is tested nil on every path here"}
							}
						}
					}
				}
			}
		}
	}
	for _, f := range c.domFacts(s.in.Block()) {
		if f.Alts != nil {
			continue
		}
		cond := c.resolve(f.Cond)
		pos := f.Pos
		for {
			if u, ok := cond.(*ssa.UnOp); ok && u.Op == token.NOT {
				cond, pos = c.resolve(u.X), !pos
				continue
			}
			break
		}
		switch x := cond.(type) {
		case *ssa.BinOp:
			var other ssa.Value
			if isConstNil(x.Y) {
				other = x.X
			} else if isConstNil(x.X) {
				other = x.Y
			}
			if other == nil {
				continue
			}
			nonnil := (x.Op == token.NEQ && pos) || (x.Op == token.EQL && !pos)
			if !nonnil {
				continue
			}
			ro := c.resolve(other)
			if ro == rp || (c.term(ro) == tp && !c.factClobbered(f, s.in, fx)) {
				return npResult{ok: true, by: "dominating test " + trunc(tp, 80) + " != nil"}
			}
		case *ssa.Phi:
			// lockstep phis of a comma-ok loop: see okAt
			if pv, ok := rp.(*ssa.Phi); ok && pos && pv.Block() == x.Block() && len(pv.Edges) == len(x.Edges) && len(x.Edges) > 0 {
				lock := true
				for i := range pv.Edges {
					e0, ok0 := pv.Edges[i].(*ssa.Extract)
					e1, ok1 := x.Edges[i].(*ssa.Extract)
					if !ok0 || !ok1 || e0.Tuple != e1.Tuple || e0.Index != 0 || e1.Index != 1 {
						lock = false
						break
					}
					if _, isTA := e0.Tuple.(*ssa.TypeAssert); !isTA {
						lock = false
						break
					}
				}
				if lock {
					return npResult{ok: true, by: "dominating test of the ok flag that is carried in lockstep with this value (both results of the same comma-ok assertion on every edge)"}
				}
			}
		case *ssa.Extract:
			// `v, ok := m[k]` / `x.(T)`: ok true ⇒ … (map lookup ok does not imply non-nil value; type assertion ok does)
			if !pos || x.Index != 1 {
				continue
			}
			if e0, isE := rp.(*ssa.Extract); isE && e0.Tuple == x.Tuple && e0.Index == 0 {
				if _, isTA := x.Tuple.(*ssa.TypeAssert); isTA {
					return npResult{ok: true, by: "dominating comma-ok of the same type assertion"}
				}
			}
		}
	}
	return npResult{why: "may be nil (" + why + ") and no dominating non-nil test"}
}

// kindFromCallers: the kind restriction on a subject written over fn's
// parameters holds if fn is unexported, never used as a value, and every call
// site is dominated by a kind test on the corresponding argument expression.
func (c *Ctx) kindFromCallers(fn *ssa.Function, subj string, allowed []reflect.Kind, fx *Facts) (string, bool) {
	if isExportedFn(fn) || fn.Parent() != nil {
		return "", false
	}
	sites, asValue := c.callersOf(fn)
	if len(sites) == 0 || len(asValue) > 0 {
		return "", false
	}
	for _, cs := range sites {
		args := cs.Call.Common().Args
		s := subj
		for i := range fn.Params {
			s = strings.ReplaceAll(s, c.pname(fn, i), "\x00"+fmt.Sprint(i)+"\x00")
		}
		for i := range fn.Params {
			if i < len(args) {
				s = strings.ReplaceAll(s, "\x00"+fmt.Sprint(i)+"\x00", c.term(args[i]))
			}
		}
		ok := false
		for _, f := range c.domFacts(cs.Call.Block()) {
			alts := f.Alts
			if alts == nil {
				alts = []DomFact{f}
			}
			var all []int64
			good := true
			for _, a := range alts {
				sub, ks, isK := c.kindFact(a.Cond, a.Pos)
				if !isK || sub != s {
					good = false
					break
				}
				all = append(all, ks...)
			}
			if good && kindAllowed(all, allowed) {
				ok = true
			}
		}
		if !ok {
			return "", false
		}
	}
	return fmt.Sprintf("kind guaranteed by the caller(s): each of the %d call site(s) of %s is dominated by a kind test on the corresponding argument", len(sites), c.fname(fn)), true
}
