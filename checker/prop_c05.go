package main

import (
	"fmt"
	"sort"
	"strings"

	"golang.org/x/tools/go/ssa"
)

func init() {
	register(&Property{
		Meta: PropMeta{
			ID:          "C05",
			Level:       "other",
			Explanation: "Structural necessary conditions of value-source precedence, decided on the SSA of /repo for all paths: (ORDER) the defaults pass runs only when parseState.err == nil, outside the argument loop, and before checkRequired; (CLEAR) in clearDefault everything after the first test requires ¬preventDefault, the list of defaults applied originates only from Option.Default or — only when os.LookupEnv reports the variable set — from the environment value (split on EnvDefaultDelim or as a single value), the variable looked up is EnvKeyWithNamespace() and not the bare key, and the value is emptied before the defaults are applied; (FLAGS) preventDefault is stored only by Set (true, on every path to every return), setDefault (false) and the INI reader, setDefault applies nothing when preventDefault is set, and clearReferenceBeforeSet is armed with the constant true once per parse (ParseArgs before its loop, the INI reader before its loops) and cleared only by Set, which empties a slice/map exactly when it is armed; (INI) both INI setters are skipped in as-defaults mode for options recorded as explicitly set *before* the entries are read (no loop-carried inhibition), the mode selects setDefault vs Set, and preventDefault = true follows every applied entry; (ENVKEY) the namespace walks of EnvKeyWithNamespace and LongNameWithNamespace climb through *Group and *Command parents up to the *Parser and prepend namespace + the parser's delimiter.",
			NotDecided:  "the final value for each subset of the five sources (a value relation); faults confined to one kind; os.LookupEnv semantics (trusted).",
			Trusted:     []string{"go/ssa lowering", "go/types", "os.LookupEnv / strings.Split contracts"},
		},
		Run:      runC05,
		Controls: []string{"path-req", "path-mpt"},
	})
}

func runC05(c *Ctx, r *Report, tier string) {
	r.Rule("ORDER", "defaults pass REQ(parseState.err == nil), outside the argument loop, MPT(checkRequired; via it)", 3)
	r.Rule("CLEAR", "clearDefault: gated by ¬preventDefault; defaults originate from Option.Default or the looked-up env value; key is EnvKeyWithNamespace(); empty() before the setDefault loop", 6)
	r.Rule("FLAGS", "who stores preventDefault / clearReferenceBeforeSet, with which constants; Set stores preventDefault on every path; setDefault gated; Set empties iff armed ∧ slice/map", 10)
	r.Rule("INI", "as-defaults skip decided from a snapshot taken before the entry loops; mode selects the setter; preventDefault = true after every applied entry; arming once before the loops", 5)
	r.Rule("ENVKEY", "namespace walks climb through *Group and *Command parents and prepend namespace + parser delimiter", 4)

	pa := c.mustFn(r, "(*Parser).ParseArgs")
	cd := c.mustFn(r, "(*Option).clearDefault")
	set := c.mustFn(r, "(*Option).Set")
	sd := c.mustFn(r, "(*Option).setDefault")
	ip := c.mustFn(r, "(*IniParser).parse")
	if pa == nil || cd == nil || set == nil || sd == nil || ip == nil {
		return
	}
	facts := c.newFacts(pa)

	// ---- ORDER
	defPass := c.isCallPassingClosureThat("(*Command).eachOption", c.isCallTo("(*Option).clearDefault"))
	dps := c.instrs(pa, defPass)
	r.Check(len(dps) == 1, "ORDER", c.fname(pa), "one defaults pass", c.pos(pa.Pos()), "one eachOption(closure calling clearDefault)", fmt.Sprintf("%d defaults passes", len(dps)))
	loop := c.loopContaining(pa, c.isCallTo("(*parseState).pop"))
	for _, dp := range dps {
		c.reqRule(r, "ORDER", pa, dp, "defaults pass", litHas(false, litErrNonNil), "parseState.err == nil", facts)
		r.Check(loop != nil && !loop.Blocks[dp.Block()], "ORDER", c.fname(pa), "defaults pass outside the argument loop", c.ipos(dp), "not part of the loop that pops arguments", "defaults are applied inside the argument loop")
	}
	for _, in := range c.instrs(pa, c.isCallTo("(*parseState).checkRequired")) {
		c.mptRule(r, "ORDER", pa, in, "checkRequired after defaults", defPass, "the defaults pass", facts)
	}
	callers, _ := c.callersOf(cd)
	for _, cs := range callers {
		r.Check(cs.Fn.Parent() != nil && c.actsForC(cs.Fn, pa), "ORDER", c.fname(cs.Fn), "caller of clearDefault", c.ipos(cs.Call), "only the defaults pass of ParseArgs", "clearDefault called from "+c.fname(cs.Fn))
	}

	// ---- CLEAR
	cn := c.fname(cd)
	pdLit := "Option.preventDefault(P0)"
	// the gate may sit in front of the call instead of inside: every caller reaches clearDefault only under
	// ¬preventDefault of the very option it calls it on
	gateAtCallers := false
	if sites, _ := c.callersOf(cd); len(sites) > 0 {
		gateAtCallers = true
		for _, cs := range sites {
			recv := c.term(cs.Call.Common().Args[0])
			if _, ok := c.Requires(cs.Fn, isInstr(cs.Call), litIs("Option.preventDefault("+recv+")", false), nil); !ok {
				gateAtCallers = false
			}
		}
	}
	for _, b := range c.blocks(cd) {
		for _, in := range b.Instrs {
			switch x := in.(type) {
			case ssa.CallInstruction:
				n := c.calleeName(x.Common())
				if n == "(*Option).setDefault" || n == "(*Option).empty" || n == "os.LookupEnv" {
					if gateAtCallers {
						r.OK("CLEAR", cn, "call "+n, c.ipos(in), "clearDefault is reached only under ¬preventDefault (tested by every caller on the same option)")
						continue
					}
					c.reqRule(r, "CLEAR", cd, in, "call "+n, litHas(false, pdLit), "¬preventDefault", nil)
				}
			}
		}
	}
	// the environment value is split on env-delim for every kind of option (a callback is called once per piece, a
	// scalar takes the last): the split hangs on the delimiter being declared and on nothing about the field
	for _, in := range c.instrs(cd, c.isCallTo("strings.Split", "strings.SplitN", "strings.FieldsFunc")) {
		var extra []string
		for _, l := range c.depsOf(cd, in) {
			t := l.Term
			if strings.Contains(t, "Kind(") || strings.Contains(t, "reflect.") || strings.Contains(t, "Option.value(") {
				extra = append(extra, trunc(l.String(), 70))
			}
		}
		r.Check(len(extra) == 0, "CLEAR", cn, "env value split on env-delim whatever the field's kind", c.ipos(in), "no guard on the option's value or kind", "the split also depends on "+strings.Join(extra, "; ")+": for the other kinds the whole variable is applied as one value")
	}
	// env key
	for _, in := range c.instrs(cd, c.isCallTo("os.LookupEnv")) {
		k := c.term(in.(*ssa.Call).Call.Args[0])
		r.Check(k == "call:(*Option).EnvKeyWithNamespace(P0)", "CLEAR", cn, "environment variable looked up", c.ipos(in), "EnvKeyWithNamespace()", "looks up "+k+" (the bare env key ignores env-namespaces)")
	}
	// provenance of the defaults applied
	for _, in := range c.instrs(cd, c.isCallTo("(*Option).setDefault")) {
		arg := in.(*ssa.Call).Call.Args[1]
		// &d where d = usedDefault[i]
		t := c.term(arg)
		_ = t
	}
	// the list whose elements are handed to setDefault
	var used ssa.Value
	var usedAt ssa.Instruction
	for _, b := range c.blocks(cd) {
		for _, in := range b.Instrs {
			if ia, ok := in.(*ssa.IndexAddr); ok && relType(c, ia.X.Type()) == "[]string" {
				if used == nil || c.resolve(ia.X) == c.resolve(used) {
					used, usedAt = ia.X, in
				} else {
					used = nil
					r.Fail("CLEAR", cn, "defaults applied", c.ipos(in), "more than one []string is iterated in clearDefault")
				}
			}
		}
	}
	if used == nil {
		r.Fail("CLEAR", cn, "defaults applied", "", "no []string merge of default sources found")
	} else {
		var origins []string
		okAll := true
		envOK := litHas(true, "call:os.LookupEnv(call:(*Option).EnvKeyWithNamespace(P0))#1")
		envVal := "call:os.LookupEnv(call:(*Option).EnvKeyWithNamespace(P0))#0"
		for _, o := range c.originsOf(used, usedAt) {
			// a pre-initialised local (`v, ok := "", false; if key != "" { v, ok = LookupEnv(key) }`): the
			// empty default is never used because every use is guarded by ok
			t := strings.ReplaceAll(o.Term, `phi{"" | `+envVal+`}`, envVal)
			for i, e := range o.Elems {
				o.Elems[i] = strings.ReplaceAll(e, `phi{"" | `+envVal+`}`, envVal)
			}
			switch {
			case t == "Option.Default(P0)":
				origins = append(origins, "Option.Default")
				// the default tags are the fallback exactly when the environment gives nothing: no key, or LookupEnv reports unset
				noEnv := anyLit(litHas(false, "call:os.LookupEnv(call:(*Option).EnvKeyWithNamespace(P0))#1"), litIs("nonempty(call:(*Option).EnvKeyWithNamespace(P0))", false))
				if !c.reqAt(cd, o, noEnv) {
					okAll = false
					origins = append(origins, "?Option.Default chosen although the variable is set (extra condition on the environment value)")
				}
			case strings.HasPrefix(t, "call:strings.Split(call:os.LookupEnv(call:(*Option).EnvKeyWithNamespace(P0))#0, Option.EnvDefaultDelim(P0))"):
				origins = append(origins, "Split(env, EnvDefaultDelim)")
				okAll = okAll && c.reqAt(cd, o, envOK)
			case strings.HasPrefix(t, "slice(new:[1]string"):
				if len(o.Elems) == 1 && o.Elems[0] == "call:os.LookupEnv(call:(*Option).EnvKeyWithNamespace(P0))#0" {
					origins = append(origins, "[env]")
					okAll = okAll && c.reqAt(cd, o, envOK)
				} else {
					okAll = false
					origins = append(origins, "?"+trunc(t, 60))
				}
			default:
				okAll = false
				origins = append(origins, "?"+trunc(t, 60))
			}
		}
		origins = dedupSorted(origins)
		r.Check(okAll && len(origins) == 3, "CLEAR", cn, "origins of the defaults applied", c.ipos(usedAt), "{"+strings.Join(origins, ", ")+"}; env origins only when LookupEnv reported the variable set", "defaults may originate from {"+strings.Join(origins, ", ")+"} (env REQ(ok)="+fmt.Sprint(okAll)+")")
		// the setDefault loop iterates exactly this list
		okLoop := false
		for _, in := range c.instrs(cd, c.isCallTo("(*Option).setDefault")) {
			if al, ok := in.(*ssa.Call).Call.Args[1].(*ssa.Alloc); ok {
				stores, _ := c.cellStores(al)
				for _, st := range stores {
					if u, ok := st.Val.(*ssa.UnOp); ok {
						if ia, ok := u.X.(*ssa.IndexAddr); ok && c.resolve(ia.X) == c.resolve(used) {
							okLoop = true
						}
					}
				}
			}
		}
		r.Check(okLoop, "CLEAR", cn, "setDefault ranges over the merged list", c.ipos(usedAt), "the applied values are the elements of the merged list", "setDefault does not iterate the merged default list")
	}
	for _, in := range c.instrs(cd, c.isCallTo("(*Option).setDefault")) {
		c.mptRule(r, "CLEAR", cd, in, "value emptied before defaults are applied", c.isCallTo("(*Option).empty"), "call empty()", nil)
	}

	// ---- FLAGS
	pd := c.mustField(r, "Option", "preventDefault")
	crbs := c.mustField(r, "Option", "clearReferenceBeforeSet")
	for _, s := range c.storesTo(pd) {
		fn := c.fname(s.Fn)
		v := c.term(s.Store.Val)
		by := func(name string) bool { a := c.Fn(name); return a != nil && c.actsFor(s.Fn, a) }
		ok := (by("(*Option).Set") && v == "true") || (by("(*Parser).parseOption") && v == "true") || (by("(*Option).setDefault") && v == "false") || (by("(*IniParser).parse") && (v == "true" || v == "false"))
		r.Check(ok, "FLAGS", fn, "store preventDefault = "+v, c.ipos(s.Store), "allowed writer and constant", "preventDefault stored as "+v+" in "+fn)
	}
	for _, ret := range returnsOf(set) {
		c.mptRule(r, "FLAGS", set, ret, "Set marks the option on every path", func(in ssa.Instruction) bool {
			st, ok := in.(*ssa.Store)
			return ok && c.isStoreTo(pd)(in) && c.term(st.Val) == "true"
		}, "store preventDefault = true", nil)
	}
	for _, in := range c.instrs(sd, c.isCallTo("(*Option).Set")) {
		c.reqRule(r, "FLAGS", sd, in, "setDefault applies only when not prevented", litHas(false, pdLit), "¬preventDefault", nil)
	}
	// an occurrence that parseOption accepts outranks every default, whichever branch handled it (an
	// optional-argument option given bare is emptied, not Set): every nil-error return passes Set or the store
	if po := c.mustFn(r, "(*Parser).parseOption"); po != nil {
		mark := orPred(c.isCallTo("(*Option).Set"), func(in ssa.Instruction) bool {
			st, ok := in.(*ssa.Store)
			return ok && c.isStoreTo(pd)(in) && c.term(st.Val) == "true"
		})
		for _, ret := range returnsOf(po) {
			if mi, ok := ret.Results[0].(*ssa.MakeInterface); ok {
				if call, ok := mi.X.(*ssa.Call); ok && c.neverNilError(call.Common().StaticCallee(), 0) {
					continue
				}
			}
			path, ok := c.mustPassOrErr(po, ret, orPred(mark, c.isCallTo("newErrorf", "newError")))
			r.Check(ok, "FLAGS", c.fname(po), "an accepted occurrence prevents the defaults", c.ipos(ret), "every nil-error path passes Option.Set or a store preventDefault = true", "an occurrence is accepted without preventing the defaults, so the default tag or the environment overwrites it afterwards: "+pathStr(path))
		}
	}
	for _, s := range c.storesTo(crbs) {
		fn := c.fname(s.Fn)
		v := c.term(s.Store.Val)
		inClosureOf := func(anchor *ssa.Function) bool {
			return anchor != nil && s.Fn.Parent() != nil && c.actsForC(s.Fn, anchor)
		}
		ok := (v == "true" && (inClosureOf(pa) || inClosureOf(c.Fn("(*IniParser).parse")))) || (v == "false" && c.actsFor(s.Fn, set))
		r.Check(ok, "FLAGS", fn, "store clearReferenceBeforeSet = "+trunc(v, 60), c.ipos(s.Store), "armed with the constant true by the two parse entry passes, cleared by Set", "clearReferenceBeforeSet stored as "+trunc(v, 80)+" in "+fn)
	}
	arm := c.isCallPassingClosureThat("(*Command).eachOption", func(in ssa.Instruction) bool {
		st, ok := in.(*ssa.Store)
		return ok && c.isStoreTo(crbs)(in) && c.term(st.Val) == "true"
	})
	if loop != nil {
		c.mptRule(r, "FLAGS", pa, loop.Header.Instrs[0], "ParseArgs arms clearReferenceBeforeSet before its loop", arm, "eachOption(closure storing clearReferenceBeforeSet = true)", nil)
	}
	for _, in := range c.instrs(set, c.isCallTo("(*Option).empty")) {
		_, a := c.Requires(set, isInstr(in), litHas(true, "Option.clearReferenceBeforeSet(P0)"), nil)
		_, b := c.Requires(set, isInstr(in), func(l Lit) bool {
			return l.Pos && strings.HasPrefix(l.Term, "eq(") && (strings.Contains(l.Term, "eq(21,") || strings.Contains(l.Term, "eq(23,")) && strings.Contains(l.Term, "Kind(call:(reflect.Value).Type(Option.value(P0))")
		}, nil)
		r.Check(a && b, "FLAGS", c.fname(set), "Set empties only an armed slice/map", c.ipos(in), "REQ(clearReferenceBeforeSet) ∧ REQ(kind ∈ {Map, Slice})", fmt.Sprintf("armed necessary=%v kind necessary=%v", a, b))
	}
	// the disarm precedes conversion
	for _, in := range c.instrs(set, c.isCallTo("convert", "(*Option).call")) {
		// (or the path has just found the flag already false)
		path, ok := c.MustPass(set, isInstr(in), func(x ssa.Instruction) bool {
			st, ok := x.(*ssa.Store)
			return ok && c.isStoreTo(crbs)(x) && c.term(st.Val) == "false"
		}, litIs("Option.clearReferenceBeforeSet(P0)", false), nil)
		r.Check(ok, "FLAGS", c.fname(set), "disarm before conversion", c.ipos(in), "every path from entry passes store clearReferenceBeforeSet = false (or the edge on which it is false already)", "reachable with the flag still set: "+pathStr(path))
	}

	// ---- INI
	in_ := c.fname(ip)
	iloops := c.loopsDeep(ip)
	setters := c.instrs(ip, c.isCallTo("(*Option).Set", "(*Option).setDefault"))
	var entryLoop *Loop
	for _, s := range setters {
		entryLoop = innermost(iloops, s.Block())
	}
	var outerLoop *Loop
	for _, l := range iloops {
		if entryLoop != nil && l != entryLoop && l.Blocks[entryLoop.Header] && (outerLoop == nil || l.size() > outerLoop.size()) {
			outerLoop = l
		}
	}
	for _, s := range setters {
		name := c.calleeName(s.(ssa.CallInstruction).Common())
		// skip guard: ¬(ParseAsDefaults ∧ snapshot[opt])
		_, ok := c.Requires(ip, isInstr(s), anyLit(litHas(false, "IniParser.ParseAsDefaults(P0)"), func(l Lit) bool {
			return !l.Pos && strings.HasPrefix(l.Term, "lookup(makemap[map[*Option]bool], ")
		}), nil)
		r.Check(ok, "INI", in_, name+" skipped for explicitly set options in as-defaults mode", c.ipos(s), "REQ(¬ParseAsDefaults ∨ ¬explicit[opt]) with `explicit` a map filled before the loops", "the as-defaults skip is not decided from a pre-loop snapshot")
		if name == "(*Option).setDefault" {
			c.reqRule(r, "INI", ip, s, "setDefault only in as-defaults mode", litHas(true, "IniParser.ParseAsDefaults(P0)"), "ParseAsDefaults", nil)
		} else {
			c.reqRule(r, "INI", ip, s, "Set only in normal mode", litHas(false, "IniParser.ParseAsDefaults(P0)"), "¬ParseAsDefaults", nil)
		}
	}
	// as-defaults mode: every entry of one option is applied, not only the first — the inhibition that an applied
	// entry leaves behind (preventDefault = true) is lifted again before setDefault is asked
	for _, s := range setters {
		if c.calleeName(s.(ssa.CallInstruction).Common()) != "(*Option).setDefault" || entryLoop == nil {
			continue
		}
		q := &PathQ{c: c, Fn: ip, CutIn: func(in ssa.Instruction) bool {
			st, ok := in.(*ssa.Store)
			return ok && c.isStoreTo(pd)(in) && c.term(st.Val) == "false"
		}}
		path, found := q.Reach(Site{entryLoop.Header, 0}, 0, isInstr(s))
		r.Check(!found, "INI", in_, "as-defaults entries re-arm the option before setDefault", c.ipos(s), "within an iteration setDefault MPT(store preventDefault = false)", "setDefault is reached with preventDefault still set by the previous entry of the same option (later entries are dropped): "+pathStr(path))
	}
	// arming is unconditional: every option, explicitly set or not, is emptied by the first INI entry it gets
	for _, st := range c.storesTo(crbs) {
		if c.term(st.Store.Val) != "true" {
			continue
		}
		var extra []string
		for _, d := range c.controlDeps(st.Fn, st.Store.Block()) {
			if l, ok := c.edgeLit(d.B, d.Succ); ok {
				extra = append(extra, l.String())
			}
		}
		r.Check(len(extra) == 0, "FLAGS", c.fname(st.Fn), "arming is unconditional", c.ipos(st.Store), "clearReferenceBeforeSet = true under no condition", "an option is armed only under "+strings.Join(extra, "; ")+": the others keep their previous contents when the first value arrives")
	}
	// the snapshot records exactly the options whose defaults are already prevented (set explicitly, or by an earlier INI file)
	nSnap := 0
	// the snapshot map is the one consulted by the as-defaults skip
	var snapMap ssa.Value
	for _, b := range c.blocks(ip) {
		if iff, ok := b.Instrs[len(b.Instrs)-1].(*ssa.If); ok {
			cv := c.resolve(iff.Cond)
			if ex, isEx := cv.(*ssa.Extract); isEx {
				// `_, present := explicit[opt]`: the writer below stores only true, so presence is the value
				cv = c.resolve(ex.Tuple)
			}
			if lk, ok := cv.(*ssa.Lookup); ok && c.term(lk.X) == "makemap[map[*Option]bool]" {
				if _, req := c.Requires(ip, isInstr(iff), litHas(true, "IniParser.ParseAsDefaults(P0)"), nil); req {
					snapMap = c.resolve(lk.X)
				}
			}
		}
	}
	c.eachInstr(func(fn *ssa.Function, in ssa.Instruction) {
		mu, ok := in.(*ssa.MapUpdate)
		if !ok || snapMap == nil || c.resolve(mu.Map) != snapMap {
			return
		}
		root := fn
		for root.Parent() != nil {
			root = root.Parent()
		}
		if root != ip && !c.actsFor(root, ip) {
			return
		}
		nSnap++
		key := c.term(mu.Key)
		_, req := c.Requires(fn, isInstr(in), litIs("Option.preventDefault("+key+")", true), nil)
		var extra []string
		for _, d := range c.controlDeps(fn, in.Block()) {
			if l, ok := c.edgeLit(d.B, d.Succ); ok && !(l.Pos && l.Term == "Option.preventDefault("+key+")") {
				extra = append(extra, l.String())
			}
		}
		r.Check(req && len(extra) == 0 && c.term(mu.Value) == "true", "INI", c.fname(fn), "snapshot of explicitly set options", c.ipos(in), "explicit[option] = true exactly under option.preventDefault", fmt.Sprintf("preventDefault necessary=%v, other guards: %s", req, strings.Join(extra, "; ")))
	})
	r.Check(nSnap == 1, "INI", in_, "one snapshot writer", c.pos(ip.Pos()), "one", fmt.Sprintf("%d", nSnap))
	// no loop-carried inhibition: no branch inside the entry loops tests a load of Option.preventDefault
	nLC := 0
	if outerLoop != nil {
		for b := range outerLoop.Blocks {
			if iff, ok := b.Instrs[len(b.Instrs)-1].(*ssa.If); ok {
				if strings.Contains(c.cond(iff.Cond).Term, "Option.preventDefault(") {
					nLC++
					r.Fail("INI", in_, "loop-carried inhibition", c.ipos(iff), "a branch inside the entry loops reads Option.preventDefault, which the same loop body stores: the first of several entries for one option disables the following ones")
				}
			}
		}
	}
	if nLC == 0 {
		r.OK("INI", in_, "no loop-carried inhibition", c.pos(ip.Pos()), "no branch inside the entry loops reads Option.preventDefault")
	}
	// preventDefault = true after every applied entry: from each setter's success edge every path to the loop header passes the store
	if entryLoop != nil {
		okAll := true
		for _, s := range setters {
			st := siteOf(s)
			q := &PathQ{c: c, Fn: ip, CutIn: func(x ssa.Instruction) bool {
				stI, ok := x.(*ssa.Store)
				if ok && c.isStoreTo(pd)(x) && c.term(stI.Val) == "true" {
					return true
				}
				_, isRet := x.(*ssa.Return)
				return isRet
			}}
			if _, found := q.Reach(Site{st.B, st.I + 1}, 0, func(x ssa.Instruction) bool { return x == entryLoop.Header.Instrs[0] }); found {
				okAll = false
			}
		}
		r.Check(okAll, "INI", in_, "INI values rank above env/default tags", c.pos(ip.Pos()), "after every applied entry preventDefault = true is stored before the next entry", "an applied INI entry can reach the next iteration without marking the option")
	}
	// arming once, before the loops
	for _, a := range c.instrs(ip, arm) {
		r.Check(innermost(iloops, a.Block()) == nil, "INI", in_, "clearReferenceBeforeSet armed once before the entry loops", c.ipos(a), "outside every loop", "arming inside a loop: repeated entries would overwrite instead of accumulate")
	}

	// ---- ENVKEY
	for _, name := range []string{"(*Option).EnvKeyWithNamespace", "(*Option).LongNameWithNamespace"} {
		fn := c.mustFn(r, name)
		if fn == nil {
			continue
		}
		// the key is computed from the tree as it is now, on every call: nothing is remembered in the option, the
		// groups or a package variable (the namespaces and the delimiter may be changed between two parses)
		var memo []string
		for _, b := range c.blocks(fn) {
			for _, in := range b.Instrs {
				st, ok := in.(*ssa.Store)
				if !ok {
					continue
				}
				root := st.Addr
				for {
					switch x := root.(type) {
					case *ssa.FieldAddr:
						root = x.X
						continue
					case *ssa.IndexAddr:
						root = x.X
						continue
					}
					break
				}
				local := false
				switch x := root.(type) {
				case *ssa.Alloc:
					local = x.Parent() == b.Parent()
				case *ssa.MakeSlice, *ssa.MakeMap, *ssa.Phi, *ssa.Slice:
					local = true // a collection built by the walk itself
				case *ssa.Call:
					_, local = x.Call.Value.(*ssa.Builtin) // append
				}
				if local {
					continue
				}
				memo = append(memo, c.ipos(st)+": "+trunc(c.term(st.Addr), 60))
			}
		}
		r.Check(len(memo) == 0, "ENVKEY", name, "the walk stores nothing outside its locals", c.pos(fn.Pos()), "no store to a field, element or package variable", "the result is remembered ("+strings.Join(memo, "; ")+"): a namespace or delimiter changed after the first call is ignored")
		nWalk := 0
		walkHeads := map[ssa.Instruction]bool{}
		for _, b := range c.blocks(fn) {
			for _, in := range b.Instrs {
				p, ok := in.(*ssa.Phi)
				if !ok || typeName(p.Type()) != "Group" {
					continue
				}
				t := c.term(p)
				if !strings.Contains(t, "Option.group(P0)") {
					continue
				}
				nWalk++
				walkHeads[p.Block().Instrs[0]] = true
				ok2 := strings.Contains(t, "Command.Group(assert[*Command](Group.parent(") && strings.Contains(t, "assert[*Group](Group.parent(")
				r.Check(ok2, "ENVKEY", name, "namespace walk climbs through *Command and *Group parents", c.ipos(p), "walk variable ∈ {option.group, parent.(*Group), parent.(*Command).Group}", "walk variable has provenance "+trunc(t, 200)+": a parent kind is not followed")
			}
		}
		r.Check(nWalk >= 2, "ENVKEY", name, "walks found", c.pos(fn.Pos()), "delimiter walk and namespace walk", fmt.Sprintf("%d walks", nWalk))
		// no name is returned without the walk having run: the only return reachable before it is the empty one
		// (an own group without a namespace says nothing about the groups above it)
		for _, ret := range returnsOf(fn) {
			if len(ret.Results) != 1 || c.term(ret.Results[0]) == `""` {
				continue
			}
			path, ok := c.MustPass(fn, isInstr(ret), func(x ssa.Instruction) bool { return walkHeads[x] }, nil, nil)
			r.Check(ok, "ENVKEY", name, "a non-empty name is returned only after the namespace walk", c.ipos(ret), "every path to the return passes a walk over the enclosing groups", "reachable without the walk: "+pathStr(path)+": the namespaces of enclosing groups are dropped")
		}
		// concatenation shape
		okCat := false
		for _, b := range c.blocks(fn) {
			for _, in := range b.Instrs {
				if bo, ok := in.(*ssa.BinOp); ok && bo.Op.String() == "+" {
					t := c.term(bo)
					hit := false
					if name == "(*Option).EnvKeyWithNamespace" && strings.HasPrefix(t, "((Group.EnvNamespace(") && strings.Contains(t, "Parser.EnvNamespaceDelimiter(") {
						okCat, hit = true, true
					}
					if name == "(*Option).LongNameWithNamespace" && strings.HasPrefix(t, "((Group.Namespace(") && strings.Contains(t, "Parser.NamespaceDelimiter(") {
						okCat, hit = true, true
					}
					if inner, ok := bo.X.(*ssa.BinOp); hit && ok {
						// the prefix is added exactly for groups whose own namespace (the one prepended) is non-empty
						nsT := c.term(inner.X)
						_, req := c.Requires(fn, isInstr(bo), litIs("nonempty("+nsT+")", true), nil)
						var other []string
						for _, d := range c.controlDeps(fn, bo.Block()) {
							if l, ok := c.edgeLit(d.B, d.Succ); ok && strings.HasPrefix(l.Term, "nonempty(Group.") && l.Term != "nonempty("+nsT+")" {
								other = append(other, l.String())
							}
						}
						r.Check(req && len(other) == 0, "ENVKEY", name, "a group's prefix is added exactly when that same namespace field is non-empty", c.ipos(bo), "REQ(nonempty(the field prepended)) and no test of another namespace field", fmt.Sprintf("necessary=%v, other tests: %s", req, strings.Join(other, "; ")))
					}
				}
			}
		}
		// equivalent form: the namespaces are collected outermost-first (each one PREpended) and joined with the delimiter
		for _, in := range c.instrs(fn, c.isCallTo("strings.Join")) {
			call := in.(*ssa.Call)
			sep := c.term(call.Call.Args[1])
			okSep := name == "(*Option).EnvKeyWithNamespace" && strings.Contains(sep, "Parser.EnvNamespaceDelimiter(") || name == "(*Option).LongNameWithNamespace" && strings.Contains(sep, "Parser.NamespaceDelimiter(")
			okPre := false
			if ph, ok := c.resolve(call.Call.Args[0]).(*ssa.Phi); ok {
				for _, o := range c.originsOf(ph, in) {
					ap, ok := o.Val.(*ssa.Call)
					if !ok || c.calleeName(ap.Common()) != "append" || len(ap.Call.Args) != 2 {
						continue
					}
					es := sliceLitElems(ap.Call.Args[0])
					if len(es) == 1 && (strings.HasPrefix(c.term(es[0]), "Group.EnvNamespace(") || strings.HasPrefix(c.term(es[0]), "Group.Namespace(")) && c.resolve(ap.Call.Args[1]) == ssa.Value(ph) {
						okPre = true
					}
				}
			}
			if okSep && okPre {
				okCat = true
			}
		}
		r.Check(okCat, "ENVKEY", name, "key = namespace + parser delimiter + key", c.pos(fn.Pos()), "prepends the group's namespace and the parser's delimiter", "the namespace concatenation does not use the group's namespace field and the parser's delimiter")
		// the concatenating walk goes all the way up: it is left only when the walk variable is nil
		// (a level without a namespace is skipped, not a reason to stop)
		for _, l := range c.loopsDeep(fn) {
			hasCat := false
			for b := range l.Blocks {
				for _, in := range b.Instrs {
					if bo, ok := in.(*ssa.BinOp); ok && bo.Op.String() == "+" && (strings.HasPrefix(c.term(bo), "((Group.EnvNamespace(") || strings.HasPrefix(c.term(bo), "((Group.Namespace(")) {
						hasCat = true
					}
					if ap, ok := in.(*ssa.Call); ok && c.calleeName(ap.Common()) == "append" && len(ap.Call.Args) == 2 {
						if es := sliceLitElems(ap.Call.Args[0]); len(es) == 1 && (strings.HasPrefix(c.term(es[0]), "Group.EnvNamespace(") || strings.HasPrefix(c.term(es[0]), "Group.Namespace(")) {
							hasCat = true
						}
					}
				}
			}
			if !hasCat {
				continue
			}
			okExit, why := true, ""
			for _, e := range l.exits() {
				lit, ok := c.edgeLit(e.B, e.I)
				if e.B != l.Header || !ok || lit.Pos || !strings.HasPrefix(lit.Term, "nonnil(phi{") {
					okExit = false
					why = fmt.Sprintf("the walk can be left from b%d on %v", e.B.Index, lit)
				}
			}
			r.Check(okExit, "ENVKEY", name, "namespace walk reaches the top", c.ipos(l.Header.Instrs[0]), "the only exit is `walk variable == nil`", why+": namespaces above a level without one are dropped")
		}
	}
}

func dedupSorted(ss []string) []string {
	m := map[string]bool{}
	for _, s := range ss {
		m[s] = true
	}
	out := sortedKeys(m)
	sort.Strings(out)
	return out
}
