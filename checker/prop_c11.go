package main

import (
	"fmt"
	"go/token"
	"reflect"
	"sort"
	"strings"

	"golang.org/x/tools/go/ssa"
)

func init() {
	register(&Property{
		Meta: PropMeta{
			ID:          "C11",
			Level:       "other",
			Explanation: "Structural necessary conditions of 'values are converted exactly or rejected', decided on the SSA of /repo for all paths: (KIND) in convert each strconv parser is reachable for exactly its own kinds — ParseInt for the signed integer kinds, ParseUint for the unsigned, ParseFloat for the floats, ParseBool for Bool — as established by the kind tests dominating the call; (SIZE) the bit-size operand of every integer/float parse is retval.Type().Bits() and the base operand is the first result of getBase(options, 10); (EXACT-STORE) the value stored by SetInt/SetUint/SetFloat/SetBool/SetString is the parse result itself (no numeric conversion in between; time.Duration → int64 excepted); (ERR) after every strconv.Parse*, time.ParseDuration, getBase and recursive convert the non-nil error edge returns that very error and the store is reachable only on the nil edge; (MAP) the map syntax is strings.SplitN(val, \":\", 2) with key parts[0] and value parts[1] only under len(parts) == 2; (SLICE) a slice appends exactly the freshly converted element to the current value; (UNMARSHAL) convertUnmarshal is consulted before any kind dispatch and its ok result returns its error; (CHOICE) in Option.Set membership is string equality between an element of a loop over all of Option.Choices and the value, nothing else sets `found`, the failure is newErrorf(ErrInvalidChoice) listing Choices[0:len-1] and the last one, and conversion is reachable only with no choices, a nil value, or found.",
			NotDecided:  "strconv's acceptance language (trusted base); leading-zero, whitespace and special-float policy; that the stored value equals the denoted one for every input (a value relation).",
			Trusted:     []string{"go/ssa lowering", "go/types", "strconv.ParseInt/ParseUint/ParseFloat reject out-of-range values for the given bit size", "reflect Set* semantics"},
		},
		Run:      runC11,
		Controls: []string{"path-req", "np-kind"},
	})
}

func runC11(c *Ctx, r *Report, tier string) {
	r.Rule("TAG", "every entry call of convert / convertToString passes the declaring option's / argument's tag; nested calls pass it on", 12)
	r.Rule("KIND", "each strconv parser is reachable for exactly its own kinds", 4)
	r.Rule("SIZE", "bit size = retval.Type().Bits(); base = getBase(options, 10)#0", 5)
	r.Rule("EXACT-STORE", "the stored value is the parse result itself", 6)
	r.Rule("ERR", "conversion errors are returned, stores only on the nil edge", 8)
	r.Rule("MAP", "SplitN(val, \":\", 2); value part only under len(parts) == 2", 3)
	r.Rule("SLICE", "slice appends the freshly converted element", 1)
	r.Rule("UNMARSHAL", "convertUnmarshal first; its ok result returns its error", 2)
	r.Rule("CHOICE", "exact membership over all choices; typed failure listing all; conversion only when allowed", 6)

	cv := c.mustFn(r, "convert")
	set := c.mustFn(r, "(*Option).Set")
	// TAG: the tag (base, …) that governs a conversion is the declaring option's / argument's own
	for _, cv := range []*ssa.Function{cv, c.mustFn(r, "convertToString")} {
		if cv == nil {
			continue
		}
		ti := len(cv.Params) - 1
		sites, _ := c.callersOf(cv)
		n := 0
		for _, s := range sites {
			if c.actsFor(s.Fn, cv) {
				t := c.term(s.Call.Common().Args[ti])
				r.Check(t == fmt.Sprintf("P%d", ti), "TAG", c.fname(s.Fn), "nested conversion keeps the tag", c.ipos(s.Call), "options parameter passed on", "nested convert is given "+trunc(t, 80))
				continue
			}
			n++
			t := c.term(s.Call.Common().Args[ti])
			ok := strings.HasPrefix(t, "Option.tag(") || strings.HasPrefix(t, "Arg.tag(")
			r.Check(ok, "TAG", c.fname(s.Fn), "conversion governed by the declaration's own tag", c.ipos(s.Call), "convert(_, _, option.tag | arg.tag)", "convert is given the tag "+trunc(t, 80)+": base and other conversion tags of the declaration are ignored")
		}
		r.Check(n >= 4, "TAG", c.fname(cv), "entry conversions found", c.pos(cv.Pos()), "≥ 4 call sites outside the converter", fmt.Sprintf("%d", n))
	}
	if cv == nil || set == nil {
		return
	}
	cn := c.fname(cv)
	fx := c.newFacts(cv)
	_ = fx

	kindsAt := func(in ssa.Instruction) []int64 { return c.kindsAt(in, "V:P1") }
	ks := func(k ...reflect.Kind) string {
		var v []int64
		for _, x := range k {
			v = append(v, int64(x))
		}
		sort.Slice(v, func(i, j int) bool { return v[i] < v[j] })
		return kindNames(v)
	}
	wantKinds := map[string]string{
		"strconv.ParseInt":   ks(reflect.Int, reflect.Int8, reflect.Int16, reflect.Int32, reflect.Int64),
		"strconv.ParseUint":  ks(reflect.Uint, reflect.Uint8, reflect.Uint16, reflect.Uint32, reflect.Uint64),
		"strconv.ParseFloat": ks(reflect.Float32, reflect.Float64),
		"strconv.ParseBool":  ks(reflect.Bool),
	}
	seen := map[string]int{}
	bits := "invoke:Type.Bits(call:(reflect.Value).Type(P1); )"
	base := "call:getBase(P2, 10)#0"
	oneArgBase := false
	if gb := c.Fn("getBase"); gb != nil && len(gb.Params) == 1 {
		// the always-decimal default folded into getBase itself
		base, oneArgBase = "call:getBase(P2)#0", true
	}
	for _, in := range c.instrs(cv, c.isCallTo("strconv.ParseInt", "strconv.ParseUint", "strconv.ParseFloat", "strconv.ParseBool")) {
		call := in.(*ssa.Call)
		name := c.calleeName(call.Common())
		seen[name]++
		got := kindNames(kindsAt(in))
		r.Check(got == wantKinds[name], "KIND", cn, name+" reachable for exactly its kinds", c.ipos(in), "dominating kind tests give {"+got+"}", name+" is reached for kinds {"+got+"}, expected {"+wantKinds[name]+"}")
		a := call.Call.Args
		if c.term(a[0]) != "P0" {
			r.Fail("SIZE", cn, name+" input", c.ipos(in), "parses "+c.term(a[0])+" instead of the value string")
		}
		switch name {
		case "strconv.ParseInt", "strconv.ParseUint":
			r.Check(c.term(a[1]) == base, "SIZE", cn, name+" base", c.ipos(in), "getBase(options, 10)#0", "base is "+c.term(a[1]))
			r.Check(c.term(a[2]) == bits, "SIZE", cn, name+" bit size", c.ipos(in), "retval.Type().Bits()", "bit size is "+c.term(a[2]))
		case "strconv.ParseFloat":
			r.Check(c.term(a[1]) == bits, "SIZE", cn, name+" bit size", c.ipos(in), "retval.Type().Bits()", "bit size is "+c.term(a[1]))
		}
	}
	for n := range wantKinds {
		if seen[n] != 1 {
			r.Fail("KIND", cn, n+" call sites", c.pos(cv.Pos()), fmt.Sprintf("%d call sites, expected 1", seen[n]))
		}
	}

	// the base handed to the integer parsers: getBase returns the tag's number whenever the tag is present
	// (whatever its value, 0 included — base 0 means "by prefix"), else the caller's default
	if gb := c.mustFn(r, "getBase"); gb != nil {
		for _, ret := range returnsOf(gb) {
			okB := true
			var seen []string
			for _, o := range c.originsOf(ret.Results[0], ret) {
				seen = append(seen, trunc(o.Term, 70))
				switch {
				case o.Term == "P1", oneArgBase && o.Term == "10":
				case strings.HasPrefix(o.Term, `conv[int](call:strconv.ParseInt(call:(*multiTag).Get(`) && strings.HasSuffix(o.Term, `, "base"), 10, 32)#0)`):
					// selected by nothing but `the tag is present`
					for _, d := range c.controlDeps(gb, o.At.Block()) {
						if l, ok := c.edgeLit(d.B, d.Succ); ok && !(strings.HasPrefix(l.Term, `nonempty(call:(*multiTag).Get(`) && strings.HasSuffix(l.Term, `, "base"))`)) {
							okB = false
							seen = append(seen, "guard "+l.String())
						}
					}
					if o.Pred != nil {
						if l, ok := c.edgeLitTo(o.Pred, o.Succ); ok && !(strings.HasPrefix(l.Term, `nonempty(call:(*multiTag).Get(`) && strings.HasSuffix(l.Term, `, "base"))`)) {
							okB = false
							seen = append(seen, "guard "+l.String())
						}
					}
				default:
					okB = false
				}
			}
			r.Check(okB, "SIZE", c.fname(gb), "getBase yields the tag's number whenever the base tag is present", c.ipos(ret), "result ∈ {default, int(ParseInt(tag))}, the latter under no guard but `tag ≠ \"\"`", "getBase result: "+strings.Join(seen, " | "))
		}
	}
	// a custom Unmarshaler decides for itself whether it takes an argument: canArgument answers false only
	// for a bool-kinded option that is NOT an Unmarshaler
	if ca := c.mustFn(r, "(*Option).canArgument"); ca != nil {
		okU := false
		if os, ok := c.verdictOrigins(ca, false); ok && len(os) > 0 {
			okU = true
			for _, fs := range os {
				hasU := false
				for _, f := range fs {
					if l := c.cond(f.cond); l.Term == "nonnil(call:(*Option).isUnmarshaler(P0))" && l.Pos != f.pos {
						hasU = true
					}
				}
				okU = okU && hasU
			}
		}
		// … and "is an Unmarshaler" looks at the value and at every address of it (UnmarshalFlag usually has a pointer
		// receiver): the probe loops through Addr() until it cannot go on
		if iu := c.mustFn(r, "(*Option).isUnmarshaler"); iu != nil {
			okL := false
			for _, l := range c.loopsDeep(iu) {
				for _, in := range l.Header.Instrs {
					if p, ok := in.(*ssa.Phi); ok {
						t := c.term(p)
						if strings.Contains(t, "Option.value(P0)") && strings.Contains(t, "call:(reflect.Value).Addr(phi↺)") {
							okL = true
						}
					}
				}
			}
			r.Check(okL, "UNMARSHAL", c.fname(iu), "the Unmarshaler probe follows the value's addresses", c.pos(iu.Pos()), "v loops through v.Addr() from option.value", "only the value itself is probed: a type whose UnmarshalFlag has a pointer receiver is not recognised, so a bool-kinded one is refused its argument")
		}
		r.Check(okU, "UNMARSHAL", c.fname(ca), "an Unmarshaler always takes an argument", c.pos(ca.Pos()), "canArgument() == false REQ(isUnmarshaler() == nil)", "a bool-kinded type with UnmarshalFlag is treated as an argument-less flag: its unmarshaler never sees the value")
	}

	// EXACT-STORE
	// every typed store of text goes through convert: no other function of the package writes a value by kind
	// (a direct SetString elsewhere bypasses the Unmarshaler test and the type's own rules)
	isKindSet := c.isCallTo("(reflect.Value).SetInt", "(reflect.Value).SetUint", "(reflect.Value).SetFloat", "(reflect.Value).SetString", "(reflect.Value).SetBool", "(reflect.Value).SetMapIndex", "(reflect.Value).SetComplex", "(reflect.Value).SetBytes")
	c.eachInstr(func(fn *ssa.Function, in ssa.Instruction) {
		if !isKindSet(in) || c.actsFor(fn, cv) {
			return
		}
		r.Fail("EXACT-STORE", c.fname(fn), "kind-specific store outside convert", c.ipos(in), c.calleeName(in.(ssa.CallInstruction).Common())+" in "+c.fname(fn)+": a value is written without going through convert (Unmarshaler precedence, base, range and the type's own parsing are skipped)")
	})
	wantStore := map[string]string{
		"(reflect.Value).SetInt":    "call:strconv.ParseInt(P0, " + base + ", " + bits + ")#0",
		"(reflect.Value).SetUint":   "call:strconv.ParseUint(P0, " + base + ", " + bits + ")#0",
		"(reflect.Value).SetFloat":  "call:strconv.ParseFloat(P0, " + bits + ")#0",
		"(reflect.Value).SetString": "P0",
	}
	for _, in := range c.instrs(cv, c.isCallTo("(reflect.Value).SetInt", "(reflect.Value).SetUint", "(reflect.Value).SetFloat", "(reflect.Value).SetString", "(reflect.Value).SetBool")) {
		call := in.(*ssa.Call)
		name := c.calleeName(call.Common())
		v := c.term(call.Call.Args[1])
		recv := c.term(call.Call.Args[0])
		switch {
		case name == "(reflect.Value).SetBool":
			okB := c.boolStoreOK(cv, in, call.Call.Args[1])
			r.Check(okB && recv == "P1", "EXACT-STORE", cn, "SetBool operand", c.ipos(in), "ParseBool's result, or true exactly for the empty value", "SetBool stores "+v)
		case name == "(reflect.Value).SetInt" && (v == "conv[int64](call:time.ParseDuration(P0)#0)" || v == "call:time.ParseDuration(P0)#0"):
			r.OK("EXACT-STORE", cn, "SetInt(duration)", c.ipos(in), "time.Duration → int64, same width (table entry)")
		default:
			r.Check(v == wantStore[name] && recv == "P1", "EXACT-STORE", cn, strings.TrimPrefix(name, "(reflect.Value).")+" operand", c.ipos(in), "the parse result itself, stored into retval", "stores "+trunc(v, 120)+" into "+recv)
		}
	}

	// ERR
	for _, in := range c.instrs(cv, c.isCallTo("strconv.ParseInt", "strconv.ParseUint", "strconv.ParseFloat", "strconv.ParseBool", "time.ParseDuration", "getBase", "convert")) {
		call := in.(*ssa.Call)
		name := c.calleeName(call.Common())
		evs := errValuesOfCall(call)
		if len(evs) == 0 {
			r.Fail("ERR", cn, "error of "+name, c.ipos(in), "error result is dropped")
			continue
		}
		ev := evs[0]
		// the If testing it
		var iff *ssa.If
		for _, ref := range *ev.Referrers() {
			if bo, ok := ref.(*ssa.BinOp); ok && (isConstNil(bo.X) || isConstNil(bo.Y)) && bo.Referrers() != nil {
				for _, r2 := range *bo.Referrers() {
					if i, ok := r2.(*ssa.If); ok {
						iff = i
					}
				}
			}
		}
		// tail call form: `return convert(...)`
		isTail := false
		for _, ref := range *ev.Referrers() {
			if _, ok := ref.(*ssa.Return); ok {
				isTail = true
			}
		}
		if isTail && iff == nil {
			r.OK("ERR", cn, "error of "+name, c.ipos(in), "returned directly")
			continue
		}
		if iff == nil {
			r.Fail("ERR", cn, "error of "+name, c.ipos(in), "error result is never tested")
			continue
		}
		l := c.cond(iff.Cond)
		errSucc := 0
		if !l.Pos {
			errSucc = 1
		}
		eb := iff.Block().Succs[errSucc]
		ret, isRet := eb.Instrs[len(eb.Instrs)-1].(*ssa.Return)
		r.Check(isRet && c.resolve(ret.Results[len(ret.Results)-1]) == ssa.Value(ev), "ERR", cn, "error of "+name+" is returned on its non-nil edge", c.ipos(iff), "return err", "the non-nil edge does not return this error")
	}
	// stores require nil errors
	for _, in := range c.instrs(cv, c.isCallTo("(reflect.Value).SetInt", "(reflect.Value).SetUint", "(reflect.Value).SetFloat")) {
		call := in.(*ssa.Call)
		v := c.resolve(call.Call.Args[1])
		var tuple ssa.Value
		if e, ok := v.(*ssa.Extract); ok {
			tuple = e.Tuple
		} else if cvv, ok := v.(*ssa.Convert); ok {
			if e, ok := c.resolve(cvv.X).(*ssa.Extract); ok {
				tuple = e.Tuple
			}
		}
		if tuple == nil {
			continue
		}
		errT := c.term(tuple) + "#1"
		if refs := tuple.Referrers(); refs != nil {
			for _, ref := range *refs {
				if e, ok := ref.(*ssa.Extract); ok && e.Index == 1 {
					errT = c.term(e) // (rendered through a helper's returns when the parse sits in one)
				}
			}
		}
		_, ok := c.Requires(cv, isInstr(in), func(l Lit) bool {
			return !l.Pos && strings.HasPrefix(l.Term, "nonnil("+errT+")")
		}, nil)
		r.Check(ok, "ERR", cn, "store only after a successful parse", c.ipos(in), "REQ(err == nil) of the parse that produced the value", "a value can be stored although its parse failed")
	}

	// MAP
	c.ruleMapSplit(r, "MAP", cv)
	for _, in := range c.instrs(cv, c.isCallTo("(reflect.Value).SetMapIndex")) {
		a := in.(*ssa.Call).Call.Args
		ok := c.term(a[0]) == "P1" && strings.HasPrefix(c.term(a[1]), "fresh(invoke:Type.Key(") && strings.HasPrefix(c.term(a[2]), "fresh(invoke:Type.Elem(")
		r.Check(ok, "MAP", cn, "SetMapIndex(key, value)", c.ipos(in), "retval[converted key] = converted value", "SetMapIndex operands: "+trunc(c.term(a[1]), 60)+", "+trunc(c.term(a[2]), 60))
	}

	// SLICE
	for _, in := range c.instrs(cv, c.isCallTo("reflect.Append")) {
		a := in.(*ssa.Call).Call.Args
		es := sliceLitElems(a[len(a)-1])
		ok := c.term(a[0]) == "P1" && len(es) == 1 && strings.HasPrefix(c.term(es[0]), "fresh(invoke:Type.Elem(")
		// and the result is stored back into retval
		stored := false
		if refs := in.(*ssa.Call).Referrers(); refs != nil {
			for _, ref := range *refs {
				if c2, isCall := ref.(*ssa.Call); isCall && c.calleeName(c2.Common()) == "(reflect.Value).Set" && c.term(c2.Call.Args[0]) == "P1" {
					stored = true
				}
			}
		}
		r.Check(ok && stored, "SLICE", cn, "retval = append(retval, converted element)", c.ipos(in), "reflect.Append(retval, elem) stored back", fmt.Sprintf("append operands ok=%v stored back=%v", ok, stored))
	}

	// UNMARSHAL
	ucalls := c.instrs(cv, c.isCallTo("convertUnmarshal"))
	if len(ucalls) != 1 {
		r.Fail("UNMARSHAL", cn, "convertUnmarshal call", "", fmt.Sprintf("%d calls", len(ucalls)))
	} else {
		u := ucalls[0]
		okDom := true
		for _, in := range c.instrs(cv, c.isCallTo("invoke:Type.Kind", "(reflect.Value).Kind")) {
			if !instrDominates(u, in) {
				okDom = false
			}
		}
		r.Check(okDom && u.Block() == cv.Blocks[0], "UNMARSHAL", cn, "custom unmarshaler consulted first", c.ipos(u), "the call dominates every kind test", "a kind test is reachable before convertUnmarshal")
		okRet := false
		for _, ret := range returnsOf(cv) {
			if c.term(ret.Results[0]) == "call:convertUnmarshal(P0, P1)#1" {
				_, okRet = c.Requires(cv, isInstr(ret), litHas(true, "call:convertUnmarshal(P0, P1)#0"), nil)
			}
		}
		r.Check(okRet, "UNMARSHAL", cn, "handled ⇒ its error is the result", c.ipos(u), "on ok the unmarshaler's error is returned", "the unmarshaler's verdict is not returned on ok")
	}

	// CHOICE
	sn := c.fname(set)
	var found *ssa.Phi
	for _, b := range c.blocks(set) {
		for _, in := range b.Instrs {
			if p, ok := in.(*ssa.Phi); ok && p.Comment == "found" {
				found = p
			}
		}
	}
	// generic: boolean phi with a `true` edge whose block is guarded by the equality
	var trueEdges []*ssa.BasicBlock
	nEqFlag := 0
	// the membership flags: boolean phis that decide whether the ErrInvalidChoice error is raised
	flags := map[*ssa.Phi]bool{}
	var addFlag func(v ssa.Value)
	addFlag = func(v ssa.Value) {
		for {
			u, ok := v.(*ssa.UnOp)
			if !ok || u.Op != token.NOT {
				break
			}
			v = u.X
		}
		if ph, ok := v.(*ssa.Phi); ok && !flags[ph] && relType(c, ph.Type()) == "bool" {
			flags[ph] = true
			for _, e := range ph.Edges {
				addFlag(e)
			}
		}
	}
	for _, b := range c.blocks(set) {
		for _, in := range b.Instrs {
			call, ok := in.(*ssa.Call)
			if !ok || c.calleeName(call.Common()) != "newErrorf" || c.term(call.Call.Args[0]) != "ErrInvalidChoice" {
				continue
			}
			for _, d := range c.controlDeps(in.Parent(), in.Block()) {
				if iff, ok := d.B.Instrs[len(d.B.Instrs)-1].(*ssa.If); ok {
					addFlag(iff.Cond)
				}
			}
		}
	}
	for _, b := range c.blocks(set) {
		for _, in := range b.Instrs {
			p, ok := in.(*ssa.Phi)
			if !ok || relType(c, p.Type()) != "bool" || !flags[p] {
				continue
			}
			for i, e := range p.Edges {
				if c.term(e) == "true" {
					trueEdges = append(trueEdges, p.Block().Preds[i])
				}
				// `found = choices[i] == *value`: the flag IS the exact comparison
				if l := c.cond(e); l.Pos && (strings.HasPrefix(l.Term, "eq(*(P1), idx(Option.Choices(P0), ") || strings.HasPrefix(l.Term, "eq(idx(Option.Choices(P0), ") && strings.HasSuffix(l.Term, ", *(P1))")) {
					if _, isBin := e.(*ssa.BinOp); isBin {
						nEqFlag++
					}
				}
			}
		}
	}
	_ = found
	var trueRets []ssa.Instruction
	for _, h := range c.newCallees(set) {
		if h.Signature.Results().Len() != 1 {
			continue
		}
		switch relType(c, h.Signature.Results().At(0).Type()) {
		case "bool":
			for _, ret := range returnsOf(h) {
				if c.term(ret.Results[0]) == "true" {
					trueRets = append(trueRets, ret)
				}
			}
		case "error":
			// a checking helper: `return nil` is its verdict "allowed"
			if len(c.instrs(h, func(in ssa.Instruction) bool {
				call, ok := in.(*ssa.Call)
				return ok && c.calleeName(call.Common()) == "newErrorf" && c.term(call.Call.Args[0]) == "ErrInvalidChoice"
			})) == 0 {
				continue
			}
			for _, ret := range returnsOf(h) {
				if isConstNil(ret.Results[0]) {
					trueRets = append(trueRets, ret)
				}
			}
		}
	}
	eqLit := func(l Lit) bool {
		return l.Pos && strings.HasPrefix(l.Term, "eq(*(P1), idx(Option.Choices(P0), ") || l.Pos && strings.HasPrefix(l.Term, "eq(idx(Option.Choices(P0), ") && strings.HasSuffix(l.Term, ", *(P1))")
	}
	if len(trueEdges)+len(trueRets)+nEqFlag == 0 {
		r.Fail("CHOICE", sn, "membership flag", "", "no boolean set to true found in Set")
	}
	for _, ret := range trueRets {
		// (a verdict helper also answers "allowed" when no choices are declared at all)
		_, ok := c.Requires(set, isInstr(ret), anyLit(eqLit, litIs("nonempty(Option.Choices(P0))", false)), nil)
		r.Check(ok, "CHOICE", sn, "found only on string equality with a declared choice", c.ipos(ret), "return true REQ(choice == *value)", "membership can be established without exact equality")
	}
	for _, pb := range trueEdges {
		last := pb.Instrs[len(pb.Instrs)-1]
		_, ok := c.Requires(set, isInstr(last), eqLit, nil)
		// the edge itself may carry the equality
		if !ok {
			if iff, isIf := last.(*ssa.If); isIf {
				ok = eqLit(c.cond(iff.Cond))
			}
		}
		r.Check(ok, "CHOICE", sn, "found only on string equality with a declared choice", c.ipos(last), "found = true REQ(choice == *value)", "membership can be established without exact equality")
	}
	// loop over all choices
	okLoop := false
	for _, f := range append([]*ssa.Function{set}, c.newCallees(set)...) {
		for _, l := range c.loopsDeep(f) {
			iff, ok := l.Header.Instrs[len(l.Header.Instrs)-1].(*ssa.If)
			if ok && strings.HasPrefix(c.cond(iff.Cond).Term, "lt(phi{(phi↺ + 1) | 0}, len(Option.Choices(P0)))") {
				okLoop = true
			}
			// counted form: for i := 0; i < len(choices) [&& !found]; i++
			if ok && c.cond(iff.Cond).Term == "lt(phi{(phi↺ + 1) | 0}, len(Option.Choices(P0)))" {
				okLoop = true
			}
		}
	}
	r.Check(okLoop, "CHOICE", sn, "membership scans all choices", c.pos(set.Pos()), "range over Option.Choices", "no loop over all of Option.Choices")
	var forb []string
	for _, in := range c.instrs(set, func(in ssa.Instruction) bool {
		ci, ok := in.(ssa.CallInstruction)
		if !ok {
			return false
		}
		n := c.calleeName(ci.Common())
		for _, f := range append(inexactFns, "sort.SearchStrings", "sort.Search", "strings.Compare") {
			if n == f {
				return true
			}
		}
		return false
	}) {
		forb = append(forb, c.calleeName(in.(ssa.CallInstruction).Common()))
	}
	r.Check(len(forb) == 0, "CHOICE", sn, "no inexact matching function", c.pos(set.Pos()), "none of prefix/case/search helpers is called", "Set calls "+strings.Join(forb, ", "))
	for _, in := range c.instrs(set, c.isCallTo("newErrorf")) {
		call := in.(*ssa.Call)
		if c.term(call.Call.Args[0]) != "ErrInvalidChoice" {
			continue
		}
		es := sliceLitElems(call.Call.Args[2])
		okList := false
		for _, e := range es {
			t := c.term(e)
			if strings.Contains(t, `call:strings.Join(slice(Option.Choices(P0), _, (len(Option.Choices(P0)) - 1)), ", ")`) && strings.Contains(t, "idx(Option.Choices(P0), (len(Option.Choices(P0)) - 1))") {
				okList = true
			}
		}
		r.Check(okList, "CHOICE", sn, "failure lists every allowed value", c.ipos(in), "Choices[0:len-1] joined plus the last", "the error message does not list all of Option.Choices")
	}
	for _, in := range c.instrs(set, c.isCallTo("convert", "(*Option).call")) {
		cpath, ok := c.Requires(set, isInstr(in), anyLit(
			litHas(false, "nonempty(Option.Choices(P0))"),
			litHas(false, "nonnil(P1)"),
			func(l Lit) bool {
				return l.Pos && strings.HasPrefix(l.Term, "phi{") && strings.Contains(l.Term, "true")
			},
			eqLit,
		), nil)
		r.Check(ok, "CHOICE", sn, "conversion only when the choice test allows it", c.ipos(in), "REQ(no choices ∨ nil value ∨ found)", "conversion is reachable for a value outside the declared choices: "+pathStr(cpath))
	}
}

// ruleMapSplit: in convert's map case the key is the text before the first ':'
// (the whole text when there is none) and the value the text after it (empty
// when there is none) — whatever idiom computes them (SplitN(…, 2), Index + slicing, …).
func (c *Ctx) ruleMapSplit(r *Report, rule string, cv *ssa.Function) {
	cn := c.fname(cv)
	var keyCall, valCall *ssa.Call
	for _, in := range c.instrs(cv, c.isCallTo("convert")) {
		call := in.(*ssa.Call)
		t1 := c.term(call.Call.Args[1])
		switch {
		case strings.HasPrefix(t1, "call:reflect.New(invoke:Type.Key("), strings.HasPrefix(t1, "fresh(invoke:Type.Key("):
			keyCall = call
		case strings.HasPrefix(t1, "call:reflect.New(invoke:Type.Elem(") && strings.Contains(c.term(call.Call.Args[0]), `":"`):
			valCall = call
		}
	}
	members := func(t string) []string {
		if strings.HasPrefix(t, "phi{") && strings.HasSuffix(t, "}") {
			return strings.Split(t[4:len(t)-1], " | ")
		}
		return []string{t}
	}
	if keyCall == nil || valCall == nil {
		r.Fail(rule, cn, "map key/value conversions", c.pos(cv.Pos()), "the recursive conversions of map key and value were not found")
		return
	}
	okK, hasB := true, false
	for _, m := range members(c.term(keyCall.Call.Args[0])) {
		switch m {
		case `before(P0, ":")`:
			hasB = true
		case "P0":
		default:
			okK = false
		}
	}
	r.Check(okK && hasB, rule, cn, "map key is the text before the first ':'", c.ipos(keyCall), "key ∈ {before(val, \":\"), val}", "map key is "+trunc(c.term(keyCall.Call.Args[0]), 120)+": the entry is not cut at the first colon")
	okV, hasA := true, false
	for _, m := range members(c.term(valCall.Call.Args[0])) {
		switch m {
		case `after(P0, ":")`:
			hasA = true
		case `""`:
		default:
			okV = false
		}
	}
	r.Check(okV && hasA, rule, cn, "map value is the text after the first ':'", c.ipos(valCall), "value ∈ {after(val, \":\"), \"\"}", "map value is "+trunc(c.term(valCall.Call.Args[0]), 120)+": a value containing ':' is truncated or dropped")
	// the value is converted for every entry, with or without a colon (a bare key gives the value type's reading of
	// "", an error for numbers): the conversion depends on nothing but the key's conversion having succeeded
	{
		inK := map[string]bool{}
		for _, l := range c.depsOf(cv, keyCall) {
			inK[l.String()] = true
		}
		var extra []string
		for _, l := range c.depsOf(cv, valCall) {
			if inK[l.String()] || (!l.Pos && strings.HasPrefix(l.Term, "nonnil(call:convert(")) {
				continue
			}
			extra = append(extra, trunc(l.String(), 70))
		}
		r.Check(len(extra) == 0, rule, cn, "the map value is converted for every entry", c.ipos(valCall), "no guard beyond the key conversion's success", "the value conversion also depends on "+strings.Join(extra, "; ")+": an entry without it keeps the zero value instead of being converted (or rejected)")
	}
	// the after-part is taken only when a colon is present
	if p, ok := c.resolve(valCall.Call.Args[0]).(*ssa.Phi); ok {
		for i, e := range p.Edges {
			if c.term(e) != `after(P0, ":")` {
				continue
			}
			pred := p.Block().Preds[i]
			last := pred.Instrs[len(pred.Instrs)-1]
			_, req := c.Requires(cv, isInstr(last), litIs(`has(P0, ":")`, true), nil)
			if l, ok := c.edgeLitTo(pred, p.Block()); ok && l.Term == `has(P0, ":")` && l.Pos {
				req = true
			}
			r.Check(req, rule, cn, "value part only when a colon is present", c.ipos(last), "REQ(val contains ':')", "the text after the colon is used without testing that there is one")
		}
	}
}

// boolStoreOK: the operand of SetBool is ParseBool's result, or the constant
// true on exactly the paths where the value string is empty (direct, or as a phi member).
func (c *Ctx) boolStoreOK(cv *ssa.Function, in ssa.Instruction, v ssa.Value) bool {
	v = c.resolve(v)
	switch t := c.term(v); t {
	case "call:strconv.ParseBool(P0)#0":
		return true
	case "true":
		_, ok := c.Requires(cv, isInstr(in), litIs("nonempty(P0)", false), nil)
		return ok
	}
	p, ok := v.(*ssa.Phi)
	if !ok {
		return false
	}
	for i, e := range p.Edges {
		switch c.term(e) {
		case "call:strconv.ParseBool(P0)#0":
		case "true":
			pred := p.Block().Preds[i]
			last := pred.Instrs[len(pred.Instrs)-1]
			_, req := c.Requires(cv, isInstr(last), litIs("nonempty(P0)", false), nil)
			if l, ok := c.edgeLitTo(pred, p.Block()); ok && l.Term == "nonempty(P0)" && !l.Pos {
				req = true
			}
			if !req {
				return false
			}
		default:
			return false
		}
	}
	return true
}
