package main

import (
	"fmt"
	"reflect"
	"sort"
	"strings"

	"golang.org/x/tools/go/ssa"
)

func init() {
	register(&Property{
		Meta: PropMeta{
			ID:          "C12",
			Level:       "other",
			Explanation: "Agreement between the INI writer and the INI reader, decided on the SSA of /repo — table agreement only, not the round trip itself: (KINDS) convertToString renders every kind convert accepts, each strconv formatter is reachable for exactly its own kinds (FormatInt of val.Int() for signed, FormatUint of val.Uint() for unsigned, FormatFloat with the type's bit size for floats) and the rendering base is read from the same tag with the same default as the parsing base; (QUOTE) the writer's only quoting primitive is strconv.Quote in writeOption and the reader's only unquoting primitive is strconv.Unquote; a value is written raw only when quoting is not forced and it is not a string or isPrint holds, where isPrint is ∀ rune strconv.IsPrint; forced quoting is Option.iniQuote, stored only by the reader; (FUNNEL) option values reach the output only through writeOption, called only from writeGroupIni; (OMIT) skipping and commenting use the same valueIsDefault() of the same option; (NAMES) the written name is the name the entry was read under, else the ini-name tag, else the field name — each of which the reader's optionByName resolves; (MAPKEYS) map keys are sorted before being written; (LINES) the reader reassembles long lines by copying every chunk; (NP) the reader cannot panic on any text (C14's prover over the same scope).",
			NotDecided:  "the round trip itself: whether read(write(v)) == v for every string is a relation over values — in particular the writer's raw-path predicate (isPrint) versus the reader's normalisations (TrimSpace, leading '\"' means quoted) is a question about string predicates that no shape rule answers. By reading, a printable string with surrounding blanks or a leading quote does not round-trip on the pinned tree; no rule here reports that and it is not claimed.",
			Trusted:     []string{"go/ssa lowering", "go/types", "strconv.Quote / Unquote are inverses", "strconv.Format* / Parse* are inverses for the same base and bit size"},
		},
		Run:      runC12,
		Controls: []string{"path-req", "np-kind"},
	})
}

func runC12(c *Ctx, r *Report, tier string) {
	r.Rule("KINDS", "renderer covers the parser's kinds; each formatter for exactly its kinds with the matching accessor; same base source", 8)
	r.Rule("QUOTE", "Quote/Unquote are the only quoting primitives; raw path guard; isPrint = ∀ strconv.IsPrint; iniQuote written only by the reader", 7)
	r.Rule("FUNNEL", "values are emitted only through writeOption, called only from writeGroupIni", 2)
	r.Rule("OMIT", "one omission predicate; it is reflect.DeepEqual on the stored values", 3)
	r.Rule("NAMES", "written name ∈ {name read, ini-name tag, field name}", 1)
	r.Rule("MAPKEYS", "map keys sorted before being written", 1)
	r.Rule("LINES", "long lines are reassembled by copying", 1)

	cts := c.mustFn(r, "convertToString")
	cv := c.mustFn(r, "convert")
	wo := c.mustFn(r, "writeOption")
	wg := c.mustFn(r, "writeGroupIni")
	ip := c.mustFn(r, "isPrint")
	rfl := c.mustFn(r, "readFullLine")
	if cts == nil || cv == nil || wo == nil || wg == nil || ip == nil || rfl == nil {
		return
	}

	// ---- KINDS
	kindSet := func(fn *ssa.Function, subj string) map[int64]bool {
		out := map[int64]bool{}
		for _, b := range c.blocks(fn) {
			if iff, ok := b.Instrs[len(b.Instrs)-1].(*ssa.If); ok {
				if s, ks, isK := c.kindFact(iff.Cond, true); isK && s == subj {
					for _, k := range ks {
						out[k] = true
					}
				}
			}
		}
		return out
	}
	pk := kindSet(cv, "V:P1")
	rk := kindSet(cts, "V:P0")
	var missing []string
	for k := range pk {
		if !rk[k] {
			missing = append(missing, reflect.Kind(k).String())
		}
	}
	sort.Strings(missing)
	r.Check(len(missing) == 0 && len(pk) >= 15, "KINDS", c.fname(cts), "renderer handles every kind the parser handles", c.pos(cts.Pos()), fmt.Sprintf("parser kinds: %d, renderer kinds: %d", len(pk), len(rk)), "kinds accepted by convert but not rendered by convertToString: "+strings.Join(missing, ", "))
	kindsAt := func(fn *ssa.Function, in ssa.Instruction, subj string) string {
		var best []int64
		for _, f := range c.domFacts(in.Block()) {
			alts := f.Alts
			if alts == nil {
				alts = []DomFact{f}
			}
			var all []int64
			ok := true
			for _, a := range alts {
				s, ks, isK := c.kindFact(a.Cond, a.Pos)
				if !isK || s != subj {
					ok = false
					break
				}
				all = append(all, ks...)
			}
			if ok && (best == nil || len(all) < len(best)) {
				best = all
			}
		}
		sort.Slice(best, func(i, j int) bool { return best[i] < best[j] })
		return kindNames(best)
	}
	ks := func(k ...reflect.Kind) string {
		var v []int64
		for _, x := range k {
			v = append(v, int64(x))
		}
		sort.Slice(v, func(i, j int) bool { return v[i] < v[j] })
		return kindNames(v)
	}
	want := map[string][2]string{
		"strconv.FormatInt":   {ks(reflect.Int, reflect.Int8, reflect.Int16, reflect.Int32, reflect.Int64), "call:(reflect.Value).Int(P0)"},
		"strconv.FormatUint":  {ks(reflect.Uint, reflect.Uint8, reflect.Uint16, reflect.Uint32, reflect.Uint64), "call:(reflect.Value).Uint(P0)"},
		"strconv.FormatFloat": {ks(reflect.Float32, reflect.Float64), "call:(reflect.Value).Float(P0)"},
	}
	seen := map[string]int{}
	ctn := c.fname(cts)
	for _, in := range c.instrs(cts, c.isCallTo("strconv.FormatInt", "strconv.FormatUint", "strconv.FormatFloat", "strconv.Itoa", "fmt.Sprintf", "fmt.Sprint")) {
		call := in.(*ssa.Call)
		name := c.calleeName(call.Common())
		w, known := want[name]
		if !known {
			if name == "fmt.Sprint" || name == "fmt.Sprintf" {
				// the sort-key rendering of map keys uses fmt.Sprint in a closure, not here
				continue
			}
			r.Fail("KINDS", ctn, "formatter "+name, c.ipos(in), "an unexpected formatter renders option values")
			continue
		}
		seen[name]++
		got := kindsAt(cts, in, "V:P0")
		okA := c.term(call.Call.Args[0]) == w[1]
		r.Check(got == w[0] && okA, "KINDS", ctn, name+" for exactly its kinds, on the matching accessor", c.ipos(in), "kinds {"+got+"}, operand "+w[1], name+" is reached for kinds {"+got+"} with operand "+trunc(c.term(call.Call.Args[0]), 80)+"; expected kinds {"+w[0]+"} and operand "+w[1])
		switch name {
		case "strconv.FormatInt", "strconv.FormatUint":
			r.Check(c.term(call.Call.Args[1]) == "call:getFormatBase(P1)#0", "KINDS", ctn, name+" base", c.ipos(in), "getFormatBase(options)#0", "base is "+c.term(call.Call.Args[1]))
		case "strconv.FormatFloat":
			a := call.Call.Args
			r.Check(c.term(a[3]) == "invoke:Type.Bits(call:(reflect.Value).Type(P0); )" && c.term(a[2]) == "-1", "KINDS", ctn, "FormatFloat precision and bit size", c.ipos(in), "shortest representation (-1) for the type's bit size", "FormatFloat(…, "+c.term(a[2])+", "+c.term(a[3])+")")
		}
	}
	for n := range want {
		if seen[n] != 1 {
			r.Fail("KINDS", ctn, n+" call sites", c.pos(cts.Pos()), fmt.Sprintf("%d, expected 1", seen[n]))
		}
	}
	if gfb := c.mustFn(r, "getFormatBase"); gfb != nil {
		ok := false
		for _, in := range c.instrs(gfb, c.isCallTo("getBase")) {
			a := in.(*ssa.Call).Call.Args
			if c.term(a[0]) == "P0" && (len(a) == 1 || c.term(a[1]) == "10") {
				ok = true
			}
		}
		okP := false
		for _, in := range c.instrs(cv, c.isCallTo("getBase")) {
			a := in.(*ssa.Call).Call.Args
			if c.term(a[0]) == "P2" && (len(a) == 1 || c.term(a[1]) == "10") {
				okP = true
			}
		}
		r.Check(ok && okP, "KINDS", c.fname(gfb), "rendering and parsing read the same base", c.pos(gfb.Pos()), "both getBase(options, 10)", "the rendering base and the parsing base come from different sources/defaults")
	}

	// ---- QUOTE
	isIni := func(fn *ssa.Function) bool {
		pos := c.Fset.Position(fn.Pos())
		return strings.HasSuffix(pos.Filename, "ini.go")
	}
	var q, uq []string
	seenQ := map[string]bool{}
	for _, fn := range c.Funcs {
		if !isIni(fn) {
			continue
		}
		for _, b := range fn.Blocks {
			for _, in := range b.Instrs {
				ci, ok := in.(ssa.CallInstruction)
				if !ok {
					continue
				}
				n := c.calleeName(ci.Common())
				if !(strings.HasPrefix(n, "strconv.Quote") || strings.HasPrefix(n, "strconv.Unquote") || strings.HasPrefix(n, "strconv.AppendQuote") || n == "quoteIfNeeded" || n == "quoteV" || n == "unquoteIfPossible") {
					continue
				}
				// a helper extracted from the reader/writer counts for the functions it serves
				for _, o := range c.ownerNames(fn) {
					k := o + ":" + n
					if seenQ[k] {
						continue
					}
					seenQ[k] = true
					if strings.Contains(n, "nquote") {
						uq = append(uq, k)
					} else {
						q = append(q, k)
					}
				}
			}
		}
	}
	sort.Strings(q)
	sort.Strings(uq)
	r.Check(strings.Join(q, ",") == "writeOption:strconv.Quote", "QUOTE", "ini.go", "writer's quoting primitive", "ini.go", "strconv.Quote in writeOption only", "quoting calls in ini.go: "+strings.Join(q, ", "))
	r.Check(strings.Join(uq, ",") == "(*IniParser).parse:strconv.Unquote,readIni:strconv.Unquote", "QUOTE", "ini.go", "reader's unquoting primitive", "ini.go", "strconv.Unquote in readIni and (for map values) IniParser.parse", "unquoting calls in ini.go: "+strings.Join(uq, ", "))
	won := c.fname(wo)
	// the value written is phi{raw | Quote(raw)}; the raw edge requires ¬forceQuote ∧ (type != String ∨ isPrint)
	nRaw := 0
	seenAt := map[ssa.Instruction]bool{}
	for _, b := range c.blocks(wo) {
		for _, in := range b.Instrs {
			v, ok := in.(ssa.Value)
			if !ok {
				continue
			}
			_, isPhi := in.(*ssa.Phi)
			_, isCall := in.(*ssa.Call)
			if !(isPhi || isCall) || in.Parent() != wo || (c.term(v) != "phi{P4 | call:strconv.Quote(P4)}" && c.term(v) != "phi{call:strconv.Quote(P4) | P4}") {
				continue
			}
			// (a phi in writeOption itself, or the result of a new helper that returns the value raw or quoted)
			for _, o := range c.originsOf(v, in) {
				if o.Term != "P4" || seenAt[o.At] {
					continue
				}
				seenAt[o.At] = true
				nRaw++
				force := litIs("P6", false)
				for k, p := range wo.Params {
					if typeName(p.Type()) == "Option" {
						// the flag read from the option handed in, instead of being handed in
						force = anyLit(force, litIs("Option.iniQuote("+c.pname(wo, k)+")", false))
					}
				}
				reach1 := !c.reqAt(wo, o, force)
				reach2 := !c.reqAt(wo, o, anyLit(litIs("eq(24, P2)", false), litIs("call:isPrint(P4)", true)))
				r.Check(!reach1 && !reach2, "QUOTE", won, "raw output only when not forced and (not a string or printable)", c.ipos(o.At), "REQ(¬forceQuote) ∧ REQ(kind ≠ String ∨ isPrint(value))", fmt.Sprintf("¬forceQuote necessary=%v (¬String ∨ printable) necessary=%v", !reach1, !reach2))
			}
		}
	}
	r.Check(nRaw >= 1, "QUOTE", won, "raw/quoted merge", c.pos(wo.Pos()), "value written is phi{raw | strconv.Quote(raw)}", "the written value is not the merge of the raw and the quoted form")
	// isPrint
	ipn := c.fname(ip)
	okIP := false
	for _, b := range c.blocks(ip) {
		if iff, ok := b.Instrs[len(b.Instrs)-1].(*ssa.If); ok {
			if c.cond(iff.Cond).Term == "call:strconv.IsPrint(runeat(P0))" {
				okIP = true
			}
		}
	}
	var other []string
	for _, in := range c.instrs(ip, func(in ssa.Instruction) bool { _, ok := in.(*ssa.Call); return ok }) {
		if n := c.calleeName(in.(*ssa.Call).Common()); n != "strconv.IsPrint" {
			other = append(other, n)
		}
	}
	falseRet := false
	for _, ret := range returnsOf(ip) {
		if c.term(ret.Results[0]) == "false" {
			_, falseRet = c.Requires(ip, isInstr(ret), litIs("call:strconv.IsPrint(runeat(P0))", false), nil)
		}
	}
	r.Check(okIP && len(other) == 0 && falseRet, "QUOTE", ipn, "isPrint ⇔ every rune is strconv.IsPrint", c.pos(ip.Pos()), "the predicate Unquote-free reading relies on: what is printable per strconv is written raw", "isPrint tests "+strings.Join(other, ",")+" / is not the all-runes strconv.IsPrint test")
	// forceQuote operand
	for _, in := range c.instrs(wg, c.isCallTo("writeOption")) {
		fq := c.argNamed(in.(*ssa.Call), "forceQuote")
		if fq == nil {
			// writeOption reads option.iniQuote itself (the raw-edge rule above is stated over that read)
			hasOpt := false
			for _, p := range wo.Params {
				if typeName(p.Type()) == "Option" {
					hasOpt = true
				}
			}
			r.Check(hasOpt, "QUOTE", c.fname(wg), "forceQuote operand", c.ipos(in), "the option itself is handed to writeOption", "writeOption receives neither the quoting flag nor the option")
			continue
		}
		r.Check(strings.HasPrefix(c.term(fq), "Option.iniQuote("), "QUOTE", c.fname(wg), "forceQuote operand", c.ipos(in), "option.iniQuote", "forceQuote is "+trunc(c.term(fq), 60))
	}
	c.whoStores(r, "QUOTE", "Option", "iniQuote", map[string]string{"(*IniParser).parse": ""})

	// ---- FUNNEL
	sites, _ := c.callersOf(wo)
	okF := len(sites) > 0
	for _, s := range sites {
		if !c.actsFor(s.Fn, wg) {
			okF = false
		}
	}
	r.Check(okF, "FUNNEL", won, "callers of writeOption", c.pos(wo.Pos()), fmt.Sprintf("%d call sites, all in writeGroupIni", len(sites)), "writeOption is called outside writeGroupIni")
	// values rendered in writeGroupIni reach only writeOption
	okV := true
	for _, in := range c.instrs(wg, c.isCallTo("convertToString")) {
		call := in.(*ssa.Call)
		for _, ref := range *call.Referrers() {
			e, ok := ref.(*ssa.Extract)
			if !ok || e.Index != 0 {
				continue
			}
			for _, r2 := range *e.Referrers() {
				switch x := r2.(type) {
				case *ssa.Call:
					if c.calleeName(x.Common()) != "writeOption" {
						okV = false
					}
				case *ssa.Store, *ssa.MapUpdate, *ssa.DebugRef, *ssa.Phi:
				default:
					_ = x
				}
			}
		}
	}
	r.Check(okV, "FUNNEL", c.fname(wg), "rendered values flow only into writeOption", c.pos(wg.Pos()), "single emission funnel", "a rendered value is written by something else than writeOption")

	// the writer never uses a value as a format string
	if n := c.constFormats(r, "QUOTE", "ini.go"); n < 5 {
		r.Fail("QUOTE", "ini.go", "printf-style calls found", "", fmt.Sprintf("%d, expected ≥ 5", n))
	}

	// ---- OMIT
	vd := c.instrs(wg, c.isCallTo("(*Option).valueIsDefault"))
	okO := len(vd) == 2
	for _, in := range vd {
		if !strings.HasPrefix(c.term(in.(*ssa.Call).Call.Args[0]), "idx(Group.options(P1), ") {
			okO = false
		}
	}
	r.Check(okO, "OMIT", c.fname(wg), "skip and comment decisions use valueIsDefault() of the option being written", c.pos(wg.Pos()), "two calls, both on the current option", fmt.Sprintf("%d valueIsDefault calls / other receiver", len(vd)))
	for _, in := range vd {
		// the skip: `continue` when ¬IncludeDefaults ∧ valueIsDefault
		_ = in
	}
	// "is the default" compares the stored value itself, not a rendering of it (two different values can render alike)
	if vid := c.mustFn(r, "(*Option).valueIsDefault"); vid != nil {
		for _, ret := range returnsOf(vid) {
			t := c.term(ret.Results[0])
			ok := t == "false" || t == "true" || strings.HasPrefix(t, "call:reflect.DeepEqual(call:(reflect.Value).Interface(Option.value(P0)), call:(reflect.Value).Interface(") ||
				strings.HasPrefix(t, "call:reflect.DeepEqual(call:(reflect.Value).Interface(fresh(") && strings.Contains(t, "call:(reflect.Value).Interface(Option.value(P0))")
			r.Check(ok, "OMIT", c.fname(vid), "default test is value equality", c.ipos(ret), "reflect.DeepEqual(option.value.Interface(), default-applied copy.Interface())", "valueIsDefault returns "+trunc(t, 160)+": not an equality of the stored values")
		}
	}
	// what "no value yet" is: the zero value of the option's type (an empty map for maps) — a pointer option's
	// empty value is nil, so a pointer to a zero value is a value and is written
	if ev := c.Fn("(*Option).emptyValue"); ev != nil {
		tpT := "call:(reflect.Value).Type(Option.value(P0))"
		for _, ret := range returnsOf(ev) {
			for _, o := range c.originsOf(ret.Results[0], ret) {
				switch o.Term {
				case "call:reflect.Zero(" + tpT + ")":
					r.OK("OMIT", c.fname(ev), "empty value is the zero value", c.ipos(ret), "reflect.Zero(option.value.Type())")
				case "call:reflect.MakeMap(" + tpT + ")":
					r.Check(c.reqAt(ev, o, litIs("eq(21, invoke:Type.Kind("+tpT+"; ))", true)), "OMIT", c.fname(ev), "an allocated empty value only for maps", c.ipos(ret), "MakeMap REQ(kind == Map)", "MakeMap reachable for a non-map kind")
				default:
					r.Fail("OMIT", c.fname(ev), "empty value is the zero value", c.ipos(ret), "emptyValue returns "+trunc(o.Term, 100)+": a value that is not the type's zero value compares equal to `no value`, so an option explicitly set to it is omitted from the INI and reads back as nil/zero")
				}
			}
		}
	}
	// the rendering base is accepted exactly in 2..36
	gbT := "call:getBase(P0, 10)#0"
	if gb := c.Fn("getBase"); gb != nil && len(gb.Params) == 1 {
		gbT = "call:getBase(P0)#0"
	}
	if gfb := c.mustFn(r, "getFormatBase"); gfb != nil {
		for _, ret := range returnsOf(gfb) {
			if len(ret.Results) != 2 {
				continue
			}
			e := c.term(ret.Results[1])
			if e == "nil" {
				_, a := c.Requires(gfb, isInstr(ret), litIs("lt("+gbT+", 2)", false), nil)
				_, b := c.Requires(gfb, isInstr(ret), litIs("lt(36, "+gbT+")", false), nil)
				r.Check(a && b, "KINDS", c.fname(gfb), "a base is accepted only in 2..36", c.ipos(ret), "REQ(¬ base < 2) ∧ REQ(¬ 36 < base)", fmt.Sprintf("lower bound necessary=%v upper bound necessary=%v", a, b))
			} else if strings.HasPrefix(e, "call:fmt.Errorf(") {
				path, ok := c.Requires(gfb, isInstr(ret), anyLit(litIs("lt("+gbT+", 2)", true), litIs("lt(36, "+gbT+")", true)), nil)
				r.Check(ok, "KINDS", c.fname(gfb), "a base is refused only outside 2..36", c.ipos(ret), "REQ(base < 2 ∨ 36 < base)", "a base inside 2..36 is refused, so the value is written as an empty string: "+pathStr(path))
			}
		}
	}
	skipOK := false
	for _, b := range c.blocks(wg) {
		if iff, ok := b.Instrs[len(b.Instrs)-1].(*ssa.If); ok {
			l := c.cond(iff.Cond)
			if strings.HasPrefix(l.Term, "call:(*Option).valueIsDefault(idx(Group.options(P1), ") {
				if _, req := c.Requires(wg, isInstr(iff), func(l2 Lit) bool {
					return !l2.Pos && strings.HasPrefix(l2.Term, "nonzero((P4 & IniIncludeDefaults))")
				}, nil); req {
					skipOK = true
				}
			}
		}
	}
	r.Check(skipOK, "OMIT", c.fname(wg), "defaults are omitted only when IniIncludeDefaults is unset", c.pos(wg.Pos()), "the omission test is REQ(options & IniIncludeDefaults == 0)", "the omission of default-valued options is not tied to IniIncludeDefaults")

	// the kind that decides quoting is the kind of what is written: the value's own kind, or the ELEMENT kind of
	// a slice or map (never the key kind)
	for _, in := range c.instrs(wg, c.isCallTo("writeOption")) {
		t := c.term(in.(*ssa.Call).Call.Args[2])
		ok := strings.HasPrefix(t, "invoke:Type.Kind(call:(reflect.Value).Type(Option.value(") || strings.HasPrefix(t, "invoke:Type.Kind(invoke:Type.Elem(call:(reflect.Value).Type(Option.value(")
		r.Check(ok && !strings.Contains(t, "Type.Key("), "QUOTE", c.fname(wg), "quoting rule fed with the kind of the written value", c.ipos(in), "Kind of the value, or of the slice/map element", "the quoting rule is fed with "+trunc(t, 120))
	}
	// a subcommand's section is named by the full dotted path from the top
	if wc := c.Fn("writeCommandIni"); wc != nil {
		for _, in := range c.instrs(wc, c.isCallTo("writeCommandIni")) {
			okP := true
			for _, o := range c.originsOf(in.(*ssa.Call).Call.Args[1], in) {
				if !(strings.HasPrefix(o.Term, "Command.Name(idx(Command.commands(P0), ") || strings.HasPrefix(o.Term, `((P1 + ".") + Command.Name(idx(Command.commands(P0), `)) {
					okP = false
				}
			}
			r.Check(okP, "NAMES", c.fname(wc), "section name is the dotted path of command names", c.ipos(in), "namespace + \".\" + c.Name (or c.Name at the top)", "the section of a nested command is named "+trunc(c.term(in.(*ssa.Call).Call.Args[1]), 140)+": the reader cannot resolve it below the second level")
		}
	}
	// ---- NAMES
	r.Rule("RESOLVE", "the reader resolves a written name to the option it was written for: optionByName priorities (shared with C13)", 4)
	if obn := c.mustFn(r, "(*Group).optionByName"); obn != nil {
		c.priorityRules(r, "RESOLVE", obn)
	}
	// the name written in front of every value: looked at where it is handed to writeOption (optionIniName is
	// looked through, so it does not matter whether the cascade lives in that helper or in writeGroupIni)
	optT := "idx(Group.options(P1), phi{(phi↺ + 1) | 0})"
	nameSet := map[string]bool{}
	nW := 0
	for _, in := range c.instrs(wg, c.isCallTo("writeOption")) {
		call := in.(*ssa.Call)
		nW++
		nameOp := c.argNamed(call, "optionName")
		nameAt := ssa.Instruction(in)
		optIn := optT // how the option appears in the terms of the name
		if nameOp == nil {
			// writeOption is handed the option and derives the name itself: the name is what optionIniName yields there
			for k, p := range wo.Params {
				if typeName(p.Type()) != "Option" || k >= len(call.Call.Args) || c.term(call.Call.Args[k]) != optT {
					continue
				}
				for _, nc := range c.instrs(wo, c.isCallTo("optionIniName")) {
					if ncall := nc.(*ssa.Call); c.term(ncall.Call.Args[0]) == c.pname(wo, k) {
						nameOp, nameAt, optIn = ncall, nc, c.pname(wo, k)
					}
				}
			}
		}
		if nameOp == nil {
			r.Fail("NAMES", c.fname(wg), "written option name", c.ipos(in), "the name handed to (or derived by) writeOption was not found")
			continue
		}
		for _, o := range c.originsOf(nameOp, nameAt) {
			t := strings.ReplaceAll(o.Term, optIn, "OPT")
			t = strings.ReplaceAll(t, "&Option.tag(P0)", "&Option.tag(OPT)")
			t = strings.ReplaceAll(t, "&Option.field(P0)", "&Option.field(OPT)")
			// a loop over a constant key table {"_read-ini-name", "ini-name"} is the same cascade
			if gc, ok := c.resolve(o.Val).(*ssa.Call); ok && c.calleeName(gc.Common()) == "(*multiTag).Get" {
				if elems, ok := constArrayElems(c, gc.Call.Args[1]); ok && len(elems) == 2 && elems[0] == `"_read-ini-name"` && elems[1] == `"ini-name"` {
					for _, e := range elems {
						nameSet["call:(*multiTag).Get(&Option.tag(OPT), "+e+")"] = true
					}
					continue
				}
			}
			nameSet[t] = true
		}
	}
	rets := sortedKeys(nameSet)
	wantN := []string{`StructField.Name(&Option.field(OPT))`, `call:(*multiTag).Get(&Option.tag(OPT), "_read-ini-name")`, `call:(*multiTag).Get(&Option.tag(OPT), "ini-name")`}
	r.Check(nW >= 1 && strings.Join(rets, " | ") == strings.Join(wantN, " | "), "NAMES", c.fname(wg), "written option name", c.pos(wg.Pos()), "∈ {name read, ini-name tag, field name}: each resolvable by optionByName (C13 PRIORITY)", "the name written is one of {"+strings.Join(rets, " | ")+"}")

	// ---- MAPKEYS
	okS := false
	for _, in := range c.instrs(wg, c.isCallTo("sort.Strings")) {
		t := c.term(in.(*ssa.Call).Call.Args[0])
		if strings.HasPrefix(t, "makeslice[[]string](len(call:(reflect.Value).MapKeys(") {
			// every writeOption call with a key is after the sort
			okS = true
			for _, w := range c.instrs(wg, c.isCallTo("writeOption")) {
				k := c.term(w.(*ssa.Call).Call.Args[3])
				if k != `""` {
					if _, mp := c.MustPass(wg, isInstr(w), isInstr(in), nil, nil); !mp {
						okS = false
					}
				}
			}
		}
	}
	r.Check(okS, "MAPKEYS", c.fname(wg), "map entries are written in sorted key order", c.pos(wg.Pos()), "sort.Strings(keys) precedes every keyed writeOption", "map entries can be written without sorting the keys")

	// ---- LINES
	okL := false
	for _, l := range c.loopsDeep(rfl) {
		for _, in := range l.Header.Instrs {
			if p, ok := in.(*ssa.Phi); ok && isSliceT(p.Type()) {
				okL = c.term(p) == "phi{append(phi↺, call:(*bufio.Reader).ReadLine(P0)#0) | nil}"
			}
		}
	}
	r.Check(okL, "LINES", c.fname(rfl), "chunks are copied into the accumulated line", c.pos(rfl.Pos()), "line = append(line, chunk...) on every back edge (a chunk is valid only until the next ReadLine)", "a chunk of a long line is kept by reference")
}

// constArrayElems: v is an element (at a loop index) of a local array literal all of whose elements are
// constants: the constants in index order.
func constArrayElems(c *Ctx, v ssa.Value) ([]string, bool) {
	u, ok := v.(*ssa.UnOp)
	if !ok {
		return nil, false
	}
	ia, ok := u.X.(*ssa.IndexAddr)
	if !ok {
		return nil, false
	}
	base := ia.X
	if sl, ok := base.(*ssa.Slice); ok {
		base = sl.X
	}
	al, ok := base.(*ssa.Alloc)
	if !ok || al.Referrers() == nil {
		return nil, false
	}
	elems := map[int64]string{}
	for _, ref := range *al.Referrers() {
		switch x := ref.(type) {
		case *ssa.IndexAddr:
			k, isC := constInt(x.Index)
			if !isC || x.Referrers() == nil {
				return nil, false
			}
			for _, r2 := range *x.Referrers() {
				st, ok := r2.(*ssa.Store)
				if !ok {
					return nil, false
				}
				if _, isConst := st.Val.(*ssa.Const); !isConst {
					return nil, false
				}
				elems[k] = c.term(st.Val)
			}
		case *ssa.Slice, *ssa.DebugRef:
		default:
			return nil, false
		}
	}
	var out []string
	for i := int64(0); i < int64(len(elems)); i++ {
		e, ok := elems[i]
		if !ok {
			return nil, false
		}
		out = append(out, e)
	}
	return out, len(out) > 0
}
