package main

func init() {
	register(&Property{
		Meta: PropMeta{
			ID:          "C15",
			Level:       "proof",
			Explanation: "ORD order-taint analysis over the whole package (every function of github.com/jessevdk/go-flags in the default linux build): every source of incidental order — range over a map, reflect MapKeys/MapRange, go, select, math/rand, time.Now — is enumerated from the SSA of /repo's current tree, and each must be (O1) sorted on every path before it escapes its function (return across the API, argument of a call, store to non-local memory; unexported returns are followed into every caller) or (O2) consumed by a loop body whose only effects are keyed by the iteration key / commutative, with no early exit and no impure call. Anything else is VIOLATED. This is a sound sufficient condition for 'no output is a function of iteration order'; it proves that abstraction, not byte-identity of outputs in general.",
			NotDecided:  "nondeterminism inside user callbacks (Marshaler, Unmarshaler, Completer, Execute); the wall clock used for the man page date (allow-listed input); totality of comparators passed to sort (keys of one map are distinct); behaviour of the trusted sorters and of fmt/filepath.Glob.",
			Trusted:     []string{"go/ssa lowering (x/tools v0.29.0)", "go/types", "sanitiser table: sort.Sort/Stable/Strings/Ints/Slice/SliceStable order their argument deterministically", "purity table for strings/strconv/utf8/reflect getters/fmt.Sprintf", "distinctness of the keys of one map", "filepath.Glob returns sorted names; fmt prints maps sorted"},
			Assumptions: []string{"user code reachable through package interfaces is deterministic", "the date printed in the man page is an input (clock or SOURCE_DATE_EPOCH)"},
		},
		Run:      runC15,
		Controls: []string{"ord-maprange-escape", "ord-mapkeys-concat", "ord-firstwins", "ord-clean", "ord-builder-loop", "ord-builder-callee"},
	})
}

func runC15(c *Ctx, r *Report, tier string) {
	r.Rule("ORD-source", "every unordered iteration (range over map; range over an unsorted MapKeys-derived slice) has an order-insensitive body: no early exit, no impure call, stores only keyed by the iteration key or into order-carrying accumulators, no order-dependent fold", 4)
	r.Rule("ORD-O1", "every order-carrying slice (MapKeys result, append/indexed accumulator of an unordered loop, result of a function returning one) passes a sort on every path before it escapes", 2)
	r.Rule("ORD-escape", "an order-carrying value must not escape unsorted", 0)
	r.Rule("ORD-flow", "unexported functions returning an order-carrying slice are followed into their callers", 0)
	r.Rule("ORD-prim", "no go statement, select, reflect MapRange or math/rand in the package", 0)
	r.Rule("ORD-total", "a sorter applied to an order-carrying slice compares by a strict order on one key projection with no non-injective transformation (ties would keep map order)", 2)
	a := runORD(c, r)
	r.Sites = a.sources
	r.Extra["order_sources"] = a.sources
	var rt []string
	for fn := range a.retTainted {
		rt = append(rt, c.fname(fn))
	}
	r.Extra["functions_returning_unsorted"] = rt
	for _, f := range c.Funcs {
		r.Funcs[c.fname(f)] = true
	}
	if a.sources < 6 {
		r.Fatalf("only %d ordering sources found in the package; the pinned tree has 8 (4 map ranges, 3 MapKeys, time.Now) — enumeration is broken", a.sources)
	}
}
