package main

import (
	"fmt"
	"go/token"
	"go/types"
	"strings"

	"golang.org/x/tools/go/ssa"
)

func init() {
	register(&Property{
		Meta: PropMeta{
			ID:          "C06",
			Level:       "other",
			Explanation: "Structural necessary conditions of required-item enforcement, decided on the SSA of /repo for all paths: checkRequired is called only when parseState.err == nil and after the defaults pass, and every command dispatch must pass through it (path rules with path-sensitive pruning); the walk variable of checkRequired starts at Parser.Command, advances by .Active only, and the walk loop can only be left when the variable itself is nil (innermost command included), and checkRequired does not reach eachCommand/eachOption; an option is collected exactly under ¬isSet ∧ Required (control-dependence closure of the append: no other guard), over every option of every nested group; positional constraints are evaluated only when no option is missing, against Arg.Required/RequiredMaximum, Value.Len of Arg.value and ArgsRequired of the *active* command; both failing exits store a newError(ErrRequired, …) into parseState.err before returning it; every element of the missing list is named (no filter); Option.isSet is stored only by Option.Set, with constant true, on every path to every return of Set.",
			NotDecided:  "message wording; N-M arithmetic on all counts; that each spelling of an occurrence reaches Option.Set (C02).",
			Trusted:     []string{"go/ssa lowering", "go/types", "CFG over-approximation with contradictory-condition pruning", "post-dominator based control dependence"},
		},
		Run:      runC06,
		Controls: []string{"path-req", "path-mpt", "path-cd"},
	})
}

func runC06(c *Ctx, r *Report, tier string) {
	r.Rule("GATE", "checkRequired is called REQ(parseState.err == nil) and under no other condition, after the defaults pass; every dispatch MPT(via checkRequired)", 4)
	r.Rule("WALK", "active-chain walk: starts at Parser.Command, steps by Command.Active, leaves only when the variable is nil; checkRequired reaches neither eachCommand nor eachOption", 4)
	r.Rule("SELECT", "an option is appended to the missing list under exactly ¬isSet ∧ Required (AG), ranging over Group.options of every nested group (eachGroup)", 3)
	r.Rule("POSITIONAL", "positional constraints only when no option is missing; compared quantities are Arg.Required / Arg.RequiredMaximum / Value.Len(Arg.value) / ArgsRequired of parseState.command", 5)
	r.Rule("RESULT", "failing exits store newError(ErrRequired, …) into parseState.err and return it; every element of the missing list is named", 4)
	r.Rule("ISSET", "WHO(store Option.isSet) ⊆ {(*Option).Set, (*Parser).parseOption: true}; in Set every return is MPT(via store isSet = true)", 2)
	r.Rule("SUPPLIED", "every nil-error return of parseOption is MPT(via Option.Set or store isSet = true)", 1)

	pa := c.mustFn(r, "(*Parser).ParseArgs")
	cr := c.mustFn(r, "(*parseState).checkRequired")
	if pa == nil || cr == nil {
		return
	}
	facts := c.newFacts(pa)
	crCall := c.isCallTo("(*parseState).checkRequired")

	// 1. gate
	calls, _ := c.callersOf(cr)
	for _, cs := range calls {
		r.Check(c.actsFor(cs.Fn, pa), "GATE", c.fname(cs.Fn), "call checkRequired", c.ipos(cs.Call), "called from ParseArgs", "checkRequired called from "+c.fname(cs.Fn))
		if !c.actsFor(cs.Fn, pa) {
			continue
		}
		c.reqRule(r, "GATE", pa, cs.Call, "call checkRequired", litHas(false, litErrNonNil), "parseState.err == nil", facts)
		c.mptRule(r, "GATE", pa, cs.Call, "call checkRequired after defaults", c.isCallPassingClosureThat("(*Command).eachOption", c.isCallTo("(*Option).clearDefault")), "eachOption(closure calling clearDefault)", facts)
	}
	if len(calls) == 0 {
		r.Fail("GATE", c.fname(pa), "call checkRequired", "", "checkRequired is never called")
	}
	for _, t := range c.instrs(pa, c.dispatchPred()) {
		c.mptRule(r, "GATE", pa, t, "dispatch "+dispatchDesc(c, t), crCall, "call (*parseState).checkRequired", facts)
	}

	// 2. walk
	fname := c.fname(cr)
	var walkLoop *Loop
	var walkPhi *ssa.Phi
	for _, l := range c.loopsDeep(cr) {
		for _, in := range l.Header.Instrs {
			p, ok := in.(*ssa.Phi)
			if !ok {
				break
			}
			if typeName(p.Type()) == "Command" {
				walkLoop, walkPhi = l, p
			}
		}
	}
	if walkLoop == nil {
		r.Fail("WALK", fname, "walk loop over *Command", "", "no loop carrying a *Command variable found in checkRequired")
	} else {
		t := c.term(walkPhi)
		tWalk := t
		if t != "phi{Command.Active(phi↺) | Parser.Command(P1)}" && c.actsFor(walkPhi.Parent(), cr) {
			// the root command handed in by the caller instead of the parser: the walk starts at a *Command parameter
			// that every caller sets to its parser's own command
			for k, e := range walkPhi.Edges {
				p, isP := c.resolve(e).(*ssa.Parameter)
				if !isP || p.Parent() != cr || typeName(p.Type()) != "Command" || len(walkPhi.Edges) != 2 || !strings.HasPrefix(c.term(walkPhi.Edges[1-k]), "Command.Active(") {
					continue
				}
				sites, _ := c.callersOf(cr)
				all := len(sites) > 0
				for _, cs := range sites {
					arg := c.argNamed(cs.Call, p.Name())
					if arg == nil || !strings.HasPrefix(c.term(arg), "Parser.Command(") {
						all = false
					}
				}
				if all {
					t = "phi{Command.Active(phi↺) | Parser.Command(P1)}"
				}
			}
		}
		r.Check(t == "phi{Command.Active(phi↺) | Parser.Command(P1)}", "WALK", fname, "walk variable", c.ipos(walkPhi), "PROV = {Parser.Command(parser), Command.Active(itself)}", "walk variable has provenance "+t)
		okExit := true
		var why string
		for _, e := range walkLoop.exits() {
			l, ok := c.edgeLit(e.B, e.I)
			if e.B != walkLoop.Header || !ok || l.Term != "nonnil("+tWalk+")" || l.Pos {
				okExit = false
				why = fmt.Sprintf("loop can be left from b%d on %v", e.B.Index, l)
			}
		}
		r.Check(okExit, "WALK", fname, "walk loop exits", c.ipos(walkPhi), "the only exit is the header test `walk variable == nil`", why)
		// body visits every nested group of the walk variable
		n := 0
		for _, in := range c.instrs(cr, c.isCallTo("(*Group).eachGroup")) {
			if walkLoop.Blocks[in.Block()] {
				ci := in.(ssa.CallInstruction)
				if strings.HasPrefix(c.term(ci.Common().Args[0]), "Command.Group(phi{Command.Active(") {
					n++
				}
			}
		}
		r.Check(n == 1, "WALK", fname, "eachGroup on the walk variable", c.ipos(walkPhi), "exactly one eachGroup call on the walk variable's group inside the loop", fmt.Sprintf("%d eachGroup calls on the walk variable inside the loop", n))
	}
	set, _ := c.reach([]*ssa.Function{cr}, nil)
	var bad []string
	for fn := range set {
		switch c.fname(fn) {
		case "(*Command).eachCommand", "(*Command).eachOption":
			bad = append(bad, c.fname(fn))
		}
	}
	r.Check(len(bad) == 0, "WALK", fname, "R(checkRequired)", c.pos(cr.Pos()), fmt.Sprintf("%d functions reachable; no whole-tree iterator among them", len(set)), "reaches "+strings.Join(bad, ", "))

	// 3. selection: the closure passed to eachGroup that appends to the missing list
	var sel *ssa.Function
	for _, in := range c.instrs(cr, c.isCallTo("(*Group).eachGroup")) {
		for _, f := range closureArgs(in.(ssa.CallInstruction)) {
			sel = f
		}
	}
	var reqCell ssa.Value
	if sel == nil {
		r.Fail("SELECT", fname, "selection closure", "", "no closure passed to eachGroup")
	} else {
		sname := c.fname(sel)
		var appends []ssa.Instruction
		for _, b := range c.blocks(sel) {
			for _, in := range b.Instrs {
				if st, ok := in.(*ssa.Store); ok {
					if _, isFV := st.Addr.(*ssa.FreeVar); isFV && isSliceT(st.Val.Type()) {
						appends = append(appends, in)
						reqCell, _ = c.cellRoot(st.Addr)
					}
				}
			}
		}
		if len(appends) != 1 {
			r.Fail("SELECT", sname, "append to missing list", "", fmt.Sprintf("%d stores to the captured list", len(appends)))
		} else {
			ap := appends[0].(*ssa.Store)
			ok1, ok2 := true, true
			var extra []string
			deps := c.controlDeps(sel, ap.Block())
			for _, d := range deps {
				l, ok := c.edgeLit(d.B, d.Succ)
				if !ok {
					continue
				}
				switch {
				case strings.HasPrefix(l.Term, "Option.isSet(idx(Group.options(P0)") && !l.Pos:
				case strings.HasPrefix(l.Term, "Option.Required(idx(Group.options(P0)") && l.Pos:
				case strings.HasPrefix(l.Term, "lt(") && isLoopHeader(d.B):
				default:
					extra = append(extra, l.String())
				}
			}
			_, ok1 = c.Requires(sel, isInstr(ap), litHas(false, "Option.isSet(idx(Group.options(P0)"), nil)
			_, ok2 = c.Requires(sel, isInstr(ap), litHas(true, "Option.Required(idx(Group.options(P0)"), nil)
			r.Check(ok1 && ok2, "SELECT", sname, "append requires ¬isSet ∧ Required", c.ipos(ap), "both edges are necessary", fmt.Sprintf("¬isSet necessary=%v, Required necessary=%v", ok1, ok2))
			r.Check(len(extra) == 0, "SELECT", sname, "append has no other guard", c.ipos(ap), fmt.Sprintf("control-dependence closure: %d conditions, all allowed", len(deps)), "additional guard(s): "+strings.Join(extra, "; "))
			// appended element is the option itself
			tv := c.term(ap.Val)
			r.Check(strings.Contains(tv, "append(cell:[]*Option, slice(new:[1]*Option") || strings.Contains(tv, "append("), "SELECT", sname, "append form", c.ipos(ap), "list = append(list, option)", "stored value is "+tv)
		}
	}

	// 4. positional
	errField := c.mustField(r, "parseState", "err")
	var stores []ssa.Instruction // failure sites: the store itself, or the call in checkRequired that leads to it through new helpers
	seenSite := map[ssa.Instruction]bool{}
	for _, ci := range c.instrsCtx(cr, c.isStoreTo(errField)) {
		site := ci.In
		if len(ci.Frames) > 0 {
			site = ci.Frames[0]
		}
		if !seenSite[site] {
			seenSite[site] = true
			stores = append(stores, site)
		}
	}
	rets := returnsOf(cr)
	// the error handed back instead of stored (its sole caller then stores it): the failing returns are the
	// failure sites
	returnsErr := false
	if len(stores) == 0 {
		allStored := true
		sites, _ := c.callersOf(cr)
		for _, cs := range sites {
			v := cs.Call.Value()
			stored := false
			if v != nil && v.Referrers() != nil {
				for _, s := range c.storesTo(errField) {
					if s.Fn == cs.Fn && strings.HasPrefix(c.term(s.Store.Val), "call:(*parseState).checkRequired(") {
						stored = true
					}
				}
			}
			if !stored {
				allStored = false
			}
		}
		if allStored && len(sites) > 0 {
			for _, ret := range rets {
				if !isConstNil(c.resolve(ret.Results[0])) {
					stores = append(stores, ret)
				}
			}
			returnsErr = len(stores) > 0
		}
	}
	var posStore, optStore ssa.Instruction
	for _, st := range stores {
		// the positional failure is the one reachable only when the missing list is empty
		if _, ok := c.Requires(cr, isInstr(st), litHas(false, "nonempty(cell:[]*Option)"), nil); ok {
			posStore = st
		} else {
			optStore = st
		}
	}
	if posStore == nil || optStore == nil || len(stores) != 2 {
		r.Fail("POSITIONAL", fname, "failure exits", "", fmt.Sprintf("expected one positional and one option failure store to parseState.err, found %d stores (positional=%v option=%v)", len(stores), posStore != nil, optStore != nil))
	} else {
		r.OK("POSITIONAL", fname, "positional failure REQ(len(missing options) == 0)", c.ipos(posStore), "unreachable once the `missing list empty` edge is deleted")
		_, okOpt := c.Requires(cr, isInstr(optStore), litHas(true, "nonempty(cell:[]*Option)"), nil)
		r.Check(okOpt, "POSITIONAL", fname, "option failure REQ(len(missing options) != 0)", c.ipos(optStore), "unreachable once the `missing list non-empty` edge is deleted", "option failure reachable with an empty missing list")
	}
	// the values counted are all the positional tokens: none reaches the rest without passing the fill (addArgs)
	c.whoStores(r, "POSITIONAL", "parseState", "retargs", map[string]string{
		"(*Parser).ParseArgs":   "makeslice[[]string](0)",
		"(*parseState).addArgs": "append(parseState.retargs(P0), ",
	})
	// the bounds compared are the ones declared: every number parsed successfully from the `required` tag is
	// taken over as it is (0 included: `required:"0-2"` means at least none)
	if h := c.Fn("(*Command).scanSubcommandHandler$1"); h != nil {
		for _, fld := range []string{"Required", "RequiredMaximum"} {
			f := c.Field("Arg", fld)
			for _, s := range c.storesTo(f) {
				if !c.actsFor(s.Fn, h) {
					continue
				}
				for _, o := range c.originsOf(s.Store.Val, s.Store) {
					if !strings.HasPrefix(o.Term, "conv[int](call:strconv.ParseInt(") {
						continue
					}
					// the parse this number comes from
					var parse *ssa.Call
					if cv, ok := o.Val.(*ssa.Convert); ok {
						if ex, ok := c.resolve(cv.X).(*ssa.Extract); ok {
							parse, _ = ex.Tuple.(*ssa.Call)
						}
					}
					if parse == nil {
						r.Fail("POSITIONAL", c.fname(h), "Arg."+fld+" taken from the tag", c.ipos(o.At), "origin "+trunc(o.Term, 80)+" is not a direct ParseInt result")
						continue
					}
					base := map[CtlDep]bool{}
					for _, d := range c.controlDeps(h, parse.Block()) {
						base[d] = true
					}
					var extra []string
					deps := c.controlDeps(h, o.At.Block())
					if o.Pred != nil {
						// the selecting edge itself
						for si, sb := range o.Pred.Succs {
							if sb == o.Succ && len(o.Pred.Succs) == 2 {
								deps = append(deps, CtlDep{o.Pred, si})
							}
						}
					}
					for _, d := range deps {
						if base[d] {
							continue
						}
						l, ok := c.edgeLit(d.B, d.Succ)
						if !ok {
							continue
						}
						if !l.Pos && l.Term == "nonnil("+c.term(parse)+"#1)" {
							continue // err == nil of this very parse
						}
						extra = append(extra, l.String())
					}
					r.Check(len(extra) == 0, "POSITIONAL", c.fname(h), "Arg."+fld+" is the number in the tag whenever it parses", c.ipos(o.At), "taken over under `err == nil` only", "the parsed bound is taken over only under "+strings.Join(extra, "; "))
				}
			}
		}
	}
	// compared quantities
	want := map[string]string{
		"Command.ArgsRequired(": "Command.ArgsRequired(parseState.command(P0))",
	}
	seenAR := 0
	for _, b := range c.blocks(cr) {
		for _, in := range b.Instrs {
			if u, ok := in.(*ssa.UnOp); ok {
				t := c.term(u)
				for pre, exact := range want {
					if strings.HasPrefix(t, pre) {
						seenAR++
						r.Check(t == exact, "POSITIONAL", fname, "read of ArgsRequired", c.ipos(in), "read from the active command parseState.command", "ArgsRequired read from "+t)
					}
				}
			}
		}
	}
	if seenAR == 0 {
		r.Fail("POSITIONAL", fname, "read of ArgsRequired", "", "checkRequired never reads Command.ArgsRequired")
	}
	elem := "idx(parseState.positional(P0), "
	lits := map[string]bool{}
	for _, b := range c.blocks(cr) {
		for si := range b.Succs {
			if l, ok := c.edgeLit(b, si); ok {
				lits[l.Term] = true
			}
		}
		// comparisons folded into a named boolean or a switch case (`a && (b || c)` evaluated as a value)
		for _, in := range b.Instrs {
			if bo, ok := in.(*ssa.BinOp); ok {
				if bt, ok := bo.Type().Underlying().(*types.Basic); ok && bt.Info()&types.IsBoolean != 0 {
					lits[c.cond(bo).Term] = true
				}
			}
			if call, ok := in.(*ssa.Call); ok {
				if bt, ok := call.Type().Underlying().(*types.Basic); ok && bt.Info()&types.IsBoolean != 0 {
					lits[c.cond(call).Term] = true
				}
			}
		}
	}
	// the required check runs on every error-free parse: its call depends on no condition but `parseState.err == nil`
	if pa := c.mustFn(r, "(*Parser).ParseArgs"); pa != nil {
		sites := c.instrs(pa, c.isCallTo("(*parseState).checkRequired"))
		argLoop := c.loopContaining(pa, c.isCallTo("(*parseState).pop"))
		for _, in := range sites {
			var extra []string
			base := map[CtlDep]bool{} // what the whole argument loop depends on gates the parse, not the check
			if argLoop != nil {
				for _, d := range c.controlDeps(pa, argLoop.Header) {
					base[d] = true
				}
			}
			for _, d := range c.controlDeps(pa, in.Block()) {
				if base[d] {
					continue
				}
				l, ok := c.edgeLit(d.B, d.Succ)
				if !ok {
					extra = append(extra, "an unnamed condition at "+c.ipos(d.B.Instrs[len(d.B.Instrs)-1]))
					continue
				}
				if !l.Pos && strings.HasPrefix(l.Term, "nonnil(parseState.err(") {
					continue
				}
				if argLoop != nil && c.inLoop(argLoop, d.B) { // leaving the argument loop: not a condition on the check itself
					continue
				}
				extra = append(extra, l.String())
			}
			r.Check(len(extra) == 0, "GATE", c.fname(pa), "the required check runs on every error-free parse", c.ipos(in), "CD(checkRequired) \\ CD(argument loop) ⊆ {parseState.err == nil}", "checkRequired is called only under "+strings.Join(extra, "; ")+": missing required options are not reported otherwise")
		}
		r.Check(len(sites) >= 1, "GATE", c.fname(pa), "checkRequired call found", c.pos(pa.Pos()), "≥ 1", "none")
	}
	// every positional argument is examined: the loop over them is left only when the list is exhausted
	if pl := c.loopContaining(cr, func(x ssa.Instruction) bool {
		u, ok := x.(*ssa.UnOp)
		return ok && strings.HasPrefix(c.term(u), "Arg.Required(")
	}); pl != nil {
		var early []string
		for _, e := range pl.exits() {
			if e.B != pl.Header {
				early = append(early, c.ipos(e.B.Instrs[len(e.B.Instrs)-1]))
			}
		}
		r.Check(len(early) == 0, "POSITIONAL", fname, "every positional argument's constraint is examined", c.ipos(pl.Header.Instrs[0]), "the loop over the positional arguments exits only at its header", "the loop is left early at "+strings.Join(early, ", ")+": constraints of the arguments after that one are never checked")
	} else {
		r.Fail("POSITIONAL", fname, "loop over the positional arguments", "", "not found")
	}
	needLits := []struct{ desc, a, b string }{
		{"at-least test Len(value) < Required", "lt(call:(reflect.Value).Len(Arg.value(" + elem, "Arg.Required(" + elem},
		{"at-most test RequiredMaximum < Len(value)", "lt(Arg.RequiredMaximum(" + elem, "call:(reflect.Value).Len(Arg.value(" + elem},
		{"remaining-argument test", "call:(*Arg).isRemaining(" + elem, ""},
		{"RequiredMaximum unset test", "eq(-1, Arg.RequiredMaximum(" + elem, ""},
		{"Required unset test", "eq(-1, Arg.Required(" + elem, ""},
	}
	for _, nl := range needLits {
		found := false
		for t := range lits {
			if strings.HasPrefix(t, nl.a) && (nl.b == "" || strings.Contains(t[len(nl.a):], ", "+nl.b) || strings.Contains(t, nl.b)) {
				found = true
			}
			if nl.desc == "remaining-argument test" && (strings.HasPrefix(t, "eq(23, invoke:Type.Kind(call:(reflect.Value).Type(Arg.value("+elem) || strings.HasPrefix(t, "eq(23, call:(reflect.Value).Kind(Arg.value("+elem)) {
				found = true // isRemaining looked through: the slice-kind test of the element's value
			}
		}
		r.Check(found, "POSITIONAL", fname, nl.desc, c.pos(cr.Pos()), "branch condition present on the positional elements", "no branch with shape "+nl.a+"… "+nl.b)
	}

	// 5. result
	for _, st := range c.instrs(cr, c.isStoreTo(errField)) {
		v := c.term(st.(*ssa.Store).Val)
		r.Check(strings.HasPrefix(v, "call:newError(ErrRequired, "), "RESULT", fname, "value stored to parseState.err", c.ipos(st), "newError(ErrRequired, msg)", "stores "+trunc(v, 120))
	}
	nFail := 0
	for _, ret := range rets {
		e := c.resolve(ret.Results[0])
		if isConstNil(e) {
			continue
		}
		nFail++
		te := c.term(e)
		okT := te == "parseState.err(P0)"
		_, okM := c.MustPass(cr, isInstr(ret), c.isStoreTo(errField), nil, nil)
		if returnsErr {
			// handed back to the caller, which stores it (established above)
			okT, okM = strings.HasPrefix(te, "call:newError(ErrRequired, "), true
		}
		r.Check(okT && okM, "RESULT", fname, "failing return", c.ipos(ret), "returns parseState.err after storing it", fmt.Sprintf("returns %s (store precedes: %v)", trunc(te, 80), okM))
	}
	if nFail != 2 {
		r.Fail("RESULT", fname, "failing returns", "", fmt.Sprintf("expected 2 failing returns, found %d", nFail))
	}
	// every element of the missing list is named: the loop that reads the list appends on every iteration
	if reqCell != nil {
		named := false
		for _, l := range c.loopsDeep(cr) {
			for b := range l.Blocks {
				for _, in := range b.Instrs {
					call, ok := in.(*ssa.Call)
					if !ok || c.calleeName(call.Common()) != "(*Option).String" {
						continue
					}
					if !strings.HasPrefix(c.term(call.Common().Args[0]), "idx(cell:[]*Option, ") {
						continue
					}
					// control deps of this block inside the loop: only the loop header
					okDeps := true
					for _, d := range c.controlDeps(cr, b) {
						if l.Blocks[d.B] && d.B != l.Header {
							okDeps = false
						}
					}
					// and its result flows into an append in the same block
					hasAppend := false
					for _, in2 := range b.Instrs {
						if c2, ok := in2.(*ssa.Call); ok && c.calleeName(c2.Common()) == "append" {
							for _, e := range sliceLitElems(c2.Common().Args[len(c2.Common().Args)-1]) {
								if strings.Contains(c.term(e), "call:(*Option).String(idx(cell:[]*Option") {
									hasAppend = true
								}
							}
						}
					}
					// or it is stored at the loop's own index into a list made with the length of the missing list
					for _, in2 := range b.Instrs {
						if st, ok := in2.(*ssa.Store); ok && strings.Contains(c.term(st.Val), "call:(*Option).String(idx(cell:[]*Option") {
							if ia, ok := st.Addr.(*ssa.IndexAddr); ok {
								base, idx := c.term(ia.X), c.term(ia.Index)
								if strings.HasPrefix(base, "makeslice[[]string](len(cell:[]*Option))") && strings.Contains(c.term(call.Common().Args[0]), "idx(cell:[]*Option, "+idx+")") {
									hasAppend = true
								}
							}
						}
					}
					named = true
					r.Check(okDeps && hasAppend, "RESULT", fname, "every missing option is named", c.ipos(in), "names = append(names, option.String()) on every iteration, no filter", fmt.Sprintf("unconditional=%v appended=%v", okDeps, hasAppend))
				}
			}
		}
		if !named {
			r.Fail("RESULT", fname, "every missing option is named", "", "no loop naming the elements of the missing list via Option.String found")
		}
	}

	// the message names an option the way the user has to spell it: Option.String never prints the bare LongName
	if os := c.Fn("(*Option).String"); os != nil {
		bad := 0
		for _, b := range c.blocks(os) {
			for _, in := range b.Instrs {
				u, ok := in.(*ssa.UnOp)
				if !ok || c.term(u) != "Option.LongName(P0)" || u.Referrers() == nil {
					continue
				}
				for _, ref := range *u.Referrers() {
					switch x := ref.(type) {
					case *ssa.BinOp:
						if x.Op == token.EQL || x.Op == token.NEQ {
							continue
						}
					case *ssa.Call:
						if c.calleeName(x.Common()) == "len" {
							continue
						}
					case *ssa.DebugRef:
						continue
					}
					bad++
				}
			}
		}
		r.Check(bad == 0, "RESULT", c.fname(os), "options are named by their namespaced long name", c.pos(os.Pos()), "Option.LongName is only tested, the printed name is LongNameWithNamespace()", fmt.Sprintf("%d uses of the bare LongName as a printed value: an option of a namespaced group is named without its namespace in the message", bad))
	}
	// 6. isSet
	isSet := c.mustField(r, "Option", "isSet")
	set2 := c.mustFn(r, "(*Option).Set")
	if isSet != nil && set2 != nil {
		for _, s := range c.storesTo(isSet) {
			po := c.Fn("(*Parser).parseOption")
			ok := (c.actsFor(s.Fn, set2) || (po != nil && c.actsFor(s.Fn, po))) && c.term(s.Store.Val) == "true"
			r.Check(ok, "ISSET", c.fname(s.Fn), "store Option.isSet", c.ipos(s.Store), "in Set or in parseOption (the occurrence handler), constant true", "Option.isSet stored in "+c.fname(s.Fn)+" with value "+c.term(s.Store.Val))
		}
		// SUPPLIED: an occurrence that parseOption accepts marks the option as supplied, whichever branch handled it
		if po := c.mustFn(r, "(*Parser).parseOption"); po != nil {
			mark := orPred(c.isCallTo("(*Option).Set"), func(in ssa.Instruction) bool {
				st, ok := in.(*ssa.Store)
				return ok && c.isStoreTo(isSet)(in) && c.term(st.Val) == "true"
			})
			for _, ret := range returnsOf(po) {
				if mi, ok := ret.Results[0].(*ssa.MakeInterface); ok {
					if call, ok := mi.X.(*ssa.Call); ok && c.neverNilError(call.Common().StaticCallee(), 0) {
						continue
					}
				}
				path, ok := c.mustPassOrErr(po, ret, orPred(mark, c.isCallTo("newErrorf", "newError")))
				r.Check(ok, "SUPPLIED", c.fname(po), "an accepted occurrence marks the option as supplied", c.ipos(ret), "every nil-error path passes Option.Set or a store isSet = true", "an occurrence is accepted without marking the option set, so a required option given this way is reported missing: "+pathStr(path))
			}
		}
		for _, ret := range returnsOf(set2) {
			c.mptRule(r, "ISSET", set2, ret, "return of Set", func(in ssa.Instruction) bool {
				st, ok := in.(*ssa.Store)
				return ok && c.isStoreTo(isSet)(in) && c.term(st.Val) == "true"
			}, "store Option.isSet = true", nil)
		}
	}
}

func trunc(s string, n int) string {
	if len(s) > n {
		return s[:n] + "…"
	}
	return s
}
