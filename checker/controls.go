package main

import (
	"fmt"

	"golang.org/x/tools/go/ssa"
)

// controls.go — positive controls: engine rules must fire on seeded violations.

type controlFn func(c *Ctx) (fired bool, detail string)

var controlTable = map[string]controlFn{}

func runControls(ctl *Ctx, r *Report, names []string) {
	for _, n := range names {
		f, ok := controlTable[n]
		if !ok {
			r.CtlFailed = append(r.CtlFailed, n+" (no such control)")
			continue
		}
		fired, detail := f(ctl)
		if fired {
			r.Controls = append(r.Controls, n)
		} else {
			r.CtlFailed = append(r.CtlFailed, n+": "+detail)
		}
	}
}

func init() {
	ordCtl := func(fnName string, wantFail bool) controlFn {
		return func(c *Ctx) (bool, string) {
			r := NewReport("CTL")
			for _, n := range []string{"ORD-source", "ORD-O1", "ORD-escape", "ORD-flow", "ORD-prim", "ORD-total"} {
				r.Rule(n, "", 0)
			}
			runORD(c, r)
			fails := 0
			for _, o := range r.Obs {
				if o.Func == fnName && (o.Status == Violated || o.Status == Undecided) {
					fails++
				}
			}
			if wantFail {
				return fails > 0, "ORD did not report " + fnName
			}
			return fails == 0, "ORD reported clean function " + fnName
		}
	}
	controlTable["ord-maprange-escape"] = ordCtl("OrdMapRangeEscape", true)
	controlTable["ord-mapkeys-concat"] = ordCtl("OrdMapKeysConcat", true)
	controlTable["ord-firstwins"] = ordCtl("OrdFirstWins", true)
	controlTable["ord-builder-loop"] = ordCtl("OrdBuilderLoop", true)
	controlTable["ord-builder-callee"] = ordCtl("OrdBuilderCallee", false)
	controlTable["ord-clean"] = ordCtl("OrdClean", false)
}

func init() {
	sinkP := func(c *Ctx) InstrPred { return c.isCallTo("sink") }
	controlTable["path-req"] = func(c *Ctx) (bool, string) {
		bad, good := c.Fn("PathReqBad"), c.Fn("PathReqGood")
		if bad == nil || good == nil {
			return false, "control functions missing"
		}
		m := litHas(false, "nonnil(ctlState.err(")
		_, okBad := c.Requires(bad, sinkP(c), m, c.newFacts(bad))
		_, okGood := c.Requires(good, sinkP(c), m, c.newFacts(good))
		return !okBad && okGood, "REQ engine verdicts wrong on controls"
	}
	controlTable["path-mpt"] = func(c *Ctx) (bool, string) {
		bad, good := c.Fn("PathMptBad"), c.Fn("PathMptGood")
		if bad == nil || good == nil {
			return false, "control functions missing"
		}
		_, okBad := c.MustPass(bad, sinkP(c), c.isCallTo("gate"), nil, c.newFacts(bad))
		_, okGood := c.MustPass(good, sinkP(c), c.isCallTo("gate"), nil, c.newFacts(good))
		_, okGoodNoFacts := c.MustPass(good, sinkP(c), c.isCallTo("gate"), nil, nil)
		return !okBad && okGood && !okGoodNoFacts, "MPT engine verdicts wrong on controls (incl. path-sensitivity)"
	}
	controlTable["path-nt"] = func(c *Ctx) (bool, string) {
		bad, good := c.Fn("PathNtBad"), c.Fn("PathNtGood")
		if bad == nil || good == nil {
			return false, "control functions missing"
		}
		_, okBad := c.NeverTwice(bad, sinkP(c), false, nil)
		_, okGood := c.NeverTwice(good, sinkP(c), false, nil)
		return !okBad && okGood, "NT engine verdicts wrong on controls"
	}
}

func init() {
	controlTable["path-cd"] = func(c *Ctx) (bool, string) {
		fn := c.Fn("CdExtraGuard")
		if fn == nil {
			return false, "control function missing"
		}
		sinks := c.instrs(fn, c.isCallTo("sink"))
		if len(sinks) != 1 {
			return false, "sink not found"
		}
		deps := c.controlDeps(fn, sinks[0].Block())
		var terms []string
		for _, d := range deps {
			if l, ok := c.edgeLit(d.B, d.Succ); ok {
				terms = append(terms, l.String())
			}
		}
		hasErr, hasX, hasLoop := false, false, false
		for _, t := range terms {
			if t == "¬nonnil(ctlState.err(P0))" {
				hasErr = true
			}
			if len(t) > 3 && t[:3] == "lt(" {
				hasLoop = true
				if len(t) > 5 && t[:5] == "lt(0," {
					hasX = true
				}
			}
		}
		_ = hasLoop
		return hasErr && hasX, "control dependence closure misses a guard: " + fmt.Sprint(terms)
	}
}

func init() {
	npCtl := func(bad, good string) controlFn {
		return func(c *Ctx) (bool, string) {
			fb, fg := c.Fn(bad), c.Fn(good)
			if fb == nil || fg == nil {
				return false, "control functions missing"
			}
			count := func(fn *ssa.Function) (fails, total int) {
				r := NewReport("CTL")
				r.Rule("NP", "", 0)
				c.runNP(r, "NP", map[*ssa.Function]bool{fn: true}, nil)
				for _, o := range r.Obs {
					total++
					if o.Status == Violated {
						fails++
					}
				}
				return
			}
			fbad, _ := count(fb)
			fgood, tgood := count(fg)
			return fbad > 0 && fgood == 0 && tgood > 0, fmt.Sprintf("NP verdicts wrong on controls: %s fails=%d, %s fails=%d of %d", bad, fbad, good, fgood, tgood)
		}
	}
	controlTable["np-index"] = npCtl("NpIndexBad", "NpIndexGood")
	controlTable["np-slice"] = npCtl("NpSliceBad", "NpSliceGood")
	controlTable["np-nil"] = npCtl("NpNilBad", "NpNilGood")
	controlTable["np-kind"] = npCtl("NpKindBad", "NpKindGood")
}

func init() {
	controlTable["unit-mix"] = func(c *Ctx) (bool, string) {
		fb, fg := c.Fn("UnitMixBad"), c.Fn("UnitMixGood")
		if fb == nil || fg == nil {
			return false, "control functions missing"
		}
		count := func(fn *ssa.Function) int {
			r := NewReport("CTL")
			r.Rule("UNIT", "", 0)
			c.runUNIT(r, "UNIT", map[*ssa.Function]bool{fn: true}, nil)
			n := 0
			for _, o := range r.Obs {
				if o.Status == Violated {
					n++
				}
			}
			return n
		}
		return count(fb) > 0 && count(fg) == 0, "UNIT verdicts wrong on controls"
	}
}
