package main

// controls.go — positive controls: engine rules must fire on seeded violations.

type controlFn func(c *Ctx) (fired bool, detail string)

var controlTable = map[string]controlFn{}

func runControls(ctl *Ctx, r *Report, names []string) {
	for _, n := range names {
		f, ok := controlTable[n]
		if !ok {
			r.CtlFailed = append(r.CtlFailed, n+" (no such control)")
			continue
		}
		fired, detail := f(ctl)
		if fired {
			r.Controls = append(r.Controls, n)
		} else {
			r.CtlFailed = append(r.CtlFailed, n+": "+detail)
		}
	}
}
