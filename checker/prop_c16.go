package main

import (
	"fmt"
	"go/token"
	"go/types"
	"regexp"
	"sort"
	"strings"

	"golang.org/x/tools/go/ssa"
)

func init() {
	register(&Property{
		Meta: PropMeta{
			ID:          "C16",
			Level:       "other",
			Explanation: "Structural necessary conditions of 'help and man page show exactly the visible interface', decided on the SSA of /repo for all paths: (PRED) the visibility predicates have their documented shape — Option.showInHelp can be true only when ¬Hidden and needs a short or a long name, Group.showInHelp only when ¬Hidden and some option shows, visibleCommands keeps exactly the commands with ¬Hidden; (ROW) a help option row is written exactly under ¬group.Hidden ∧ (¬builtin-help ∨ top-level) ∧ option.showInHelp() — required and no further guard (control-dependence closure) — and inside writeHelpOption the row requires ¬Hidden, the short part ShortName ≠ 0, the long part a long name, `=`/value name/choices canArgument(), the description block a description; help argument rows require a description; a man option entry requires group.showInHelp() ∧ option.showInHelp() and nothing else; (COMMANDS) every command list that is printed (help usage line and `Available commands`, man subcommands) ranges over sortedVisibleCommands, the usage line's count comes from visibleCommands, and Command.commands is read in help.go/man.go only to take its length; (ATTR) each attribute the statement lists reaches the writer in the row/entry functions; (MASK) wherever Option.Default, the default literal or a rendered value can reach a writer in help or man generation, the path requires an empty DefaultMask, and a mask of \"-\" prints nothing; (DEEPEST) WriteHelp walks to the deepest active command (a loop over .Active that ends only at nil) for the long description and the command list.",
			NotDecided:  "the text layout (C17); that every combination of marks prints correctly; nested-group semantics of `hidden`; parity of man and help attributes beyond the listed ones (the formats legitimately differ).",
			Trusted:     []string{"go/ssa lowering", "go/types", "post-dominator based control dependence"},
		},
		Run:      runC16,
		Controls: []string{"path-req", "path-cd"},
	})
}

// mayBeTrueOnlyWhen: boolean function fn can return true only on paths that
// witness every literal in req. Returns the offending description.
func (c *Ctx) boolTrueRequires(fn *ssa.Function, req []LitMatch) (string, bool) {
	// collect (value, block-terminator) pairs where the result may be true
	type src struct {
		v    ssa.Value
		at   ssa.Instruction
		edge *[2]*ssa.BasicBlock
	}
	var srcs []src
	var walk func(v ssa.Value, at ssa.Instruction, seen map[ssa.Value]bool)
	walk = func(v ssa.Value, at ssa.Instruction, seen map[ssa.Value]bool) {
		if seen[v] {
			return
		}
		seen[v] = true
		if p, ok := v.(*ssa.Phi); ok {
			for i, e := range p.Edges {
				pred := p.Block().Preds[i]
				walk(e, pred.Instrs[len(pred.Instrs)-1], seen)
			}
			return
		}
		if k, ok := v.(*ssa.Const); ok && c.term(k) == "false" {
			return
		}
		srcs = append(srcs, src{v: v, at: at})
	}
	for _, ret := range returnsOf(fn) {
		walk(ret.Results[0], ret, map[ssa.Value]bool{})
	}
	for _, s := range srcs {
		for _, m := range req {
			// the defining point of the value, or the terminator of the block it flows from
			target := s.at
			if _, ok := c.Requires(fn, isInstr(target), m, nil); !ok {
				return fmt.Sprintf("value %s flowing out at %s is not guarded", trunc(c.term(s.v), 60), c.ipos(target)), false
			}
		}
	}
	return "", len(srcs) > 0
}

func (c *Ctx) depsOf(fn *ssa.Function, in ssa.Instruction) []Lit {
	var out []Lit
	for _, d := range c.controlDeps(fn, in.Block()) {
		if l, ok := c.edgeLit(d.B, d.Succ); ok {
			if iff, isIf := d.B.Instrs[len(d.B.Instrs)-1].(*ssa.If); isIf {
				if ls, ok := c.conjuncts(iff.Cond, d.Succ == 0, 0); ok {
					out = append(out, ls...)
					continue
				}
			}
			out = append(out, l)
		}
	}
	return out
}

// conjuncts: when the boolean v having polarity pos can only come about as a conjunction — v is a named
// boolean (a phi of constants and one computed operand, as && / || are lowered) or the single result of a new
// predicate helper written that way — the literals of the conjunction, rendered in the caller's frame.
func (c *Ctx) conjuncts(v ssa.Value, pos bool, depth int) ([]Lit, bool) {
	if depth > 4 {
		return nil, false
	}
	for {
		u, ok := v.(*ssa.UnOp)
		if !ok || u.Op != token.NOT {
			break
		}
		v, pos = u.X, !pos
	}
	if call, ok := v.(*ssa.Call); ok {
		h := call.Call.StaticCallee()
		if h == nil || !c.isNew(h) || h.Signature.Results().Len() != 1 {
			return nil, false
		}
		rets := returnsOf(h)
		if len(rets) != 1 {
			return nil, false
		}
		for _, f := range c.frames {
			if f.Common().StaticCallee() == h {
				return nil, false
			}
		}
		c.frames = append(c.frames, call)
		defer func() { c.frames = c.frames[:len(c.frames)-1] }()
		if ls, ok := c.conjuncts(rets[0].Results[0], pos, depth+1); ok {
			return ls, true
		}
		l := c.cond(rets[0].Results[0])
		if !pos {
			l = l.Neg()
		}
		return []Lit{l}, true
	}
	ph, ok := v.(*ssa.Phi)
	if !ok {
		return nil, false
	}
	if bt, ok := ph.Type().Underlying().(*types.Basic); !ok || bt.Info()&types.IsBoolean == 0 {
		return nil, false
	}
	cand, n := -1, 0
	for i, e := range ph.Edges {
		if k, isC := e.(*ssa.Const); isC && k.Value != nil && constantBool(k) != pos {
			continue
		}
		cand = i
		n++
	}
	if n != 1 {
		return nil, false
	}
	var out []Lit
	e := ph.Edges[cand]
	if _, isC := e.(*ssa.Const); !isC {
		if ls, ok := c.conjuncts(e, pos, depth+1); ok {
			out = append(out, ls...)
		} else {
			l := c.cond(e)
			if !pos {
				l = l.Neg()
			}
			out = append(out, l)
		}
	}
	// the conditions under which that edge is taken (within the boolean's own function)
	pred := ph.Block().Preds[cand]
	for _, d := range c.controlDeps(ph.Parent(), pred) {
		if l, ok := c.edgeLit(d.B, d.Succ); ok {
			out = append(out, l)
		}
	}
	if l, ok := c.edgeLitTo(pred, ph.Block()); ok {
		out = append(out, l)
	}
	return out, len(out) > 0
}

func runC16(c *Ctx, r *Report, tier string) {
	r.Rule("PRED", "shape of the visibility predicates", 4)
	r.Rule("ROW", "emit sites are guarded by visibility (required) and by nothing else (allowed guards)", 8)
	r.Rule("COMMANDS", "printed command lists derive from sortedVisibleCommands; raw Command.commands only measured", 5)
	r.Rule("ATTR", "listed attributes reach the writer", 10)
	r.Rule("MASK", "defaults reach a writer only under an empty DefaultMask", 4)
	r.Rule("DEEPEST", "WriteHelp walks to the deepest active command", 2)
	r.Rule("FORMAT", "no description, name or default is used as a printf format in help.go / man.go", 5)
	if n := c.constFormats(r, "FORMAT", "help.go", "man.go"); n < 5 {
		r.Fail("FORMAT", "help.go, man.go", "printf-style calls found", "", fmt.Sprintf("%d, expected ≥ 5", n))
	}

	wh := c.mustFn(r, "(*Parser).WriteHelp")
	who := c.mustFn(r, "(*Parser).writeHelpOption")
	mo := c.mustFn(r, "writeManPageOptions")
	osh := c.mustFn(r, "(*Option).showInHelp")
	gsh := c.mustFn(r, "(*Group).showInHelp")
	vc := c.mustFn(r, "(*Command).visibleCommands")
	svc := c.mustFn(r, "(*Command).sortedVisibleCommands")
	if wh == nil || who == nil || mo == nil || osh == nil || gsh == nil || vc == nil || svc == nil {
		return
	}

	// ---- PRED
	why, ok := c.boolTrueRequires(osh, []LitMatch{litIs("Option.Hidden(P0)", false)})
	r.Check(ok, "PRED", c.fname(osh), "showInHelp ⇒ ¬Hidden", c.pos(osh.Pos()), "every way the result can be true requires the ¬Hidden edge", "a hidden option can show: "+why)
	// needs a name: the result may be true only via ShortName != 0 or via the len(LongName) != 0 value
	okName := true
	for _, ret := range returnsOf(osh) {
		t := c.term(ret.Results[0])
		if !(strings.Contains(t, "true") && strings.Contains(t, "(len(Option.LongName(P0)) != 0)") && strings.Contains(t, "false")) {
			okName = false
		}
	}
	_, viaShort := c.Requires(osh, func(in ssa.Instruction) bool {
		// the block that contributes constant true
		p, ok := in.(*ssa.Phi)
		if !ok {
			return false
		}
		for _, e := range p.Edges {
			if c.term(e) == "true" {
				return true
			}
		}
		return false
	}, litIs("Option.Hidden(P0)", false), nil)
	r.Check(okName && viaShort, "PRED", c.fname(osh), "showInHelp needs a short or a long name", c.pos(osh.Pos()), "result ∈ {false | true (ShortName ≠ 0) | len(LongName) ≠ 0}", "showInHelp's result is "+trunc(c.term(returnsOf(osh)[0].Results[0]), 120))
	why, ok = c.boolTrueRequires(gsh, []LitMatch{litIs("Group.Hidden(P0)", false)})
	okG := ok
	for _, ret := range returnsOf(gsh) {
		if c.term(ret.Results[0]) == "true" {
			_, req := c.Requires(gsh, isInstr(ret), litHas(true, "call:(*Option).showInHelp(idx(Group.options(P0)"), nil)
			okG = okG && req
		}
	}
	r.Check(okG, "PRED", c.fname(gsh), "group shows ⇔ ¬Hidden ∧ some option shows", c.pos(gsh.Pos()), "true only under ¬Hidden and a showing option", "group visibility predicate weakened: "+why)
	// visibleCommands
	okV := false
	for _, in := range c.instrs(vc, c.isCallTo("append")) {
		deps := c.depsOf(vc, in)
		bad := 0
		req := false
		for _, l := range deps {
			switch {
			case strings.HasPrefix(l.Term, "Group.Hidden(Command.Group(idx(Command.commands(P0)") && !l.Pos:
				req = true
			case strings.HasPrefix(l.Term, "lt("):
			default:
				bad++
			}
		}
		okV = req && bad == 0
	}
	r.Check(okV, "PRED", c.fname(vc), "visibleCommands keeps exactly the non-hidden commands", c.pos(vc.Pos()), "append REQ(¬cmd.Hidden), no other guard, over Command.commands", "visibleCommands filters by something else than ¬Hidden")
	for _, ret := range returnsOf(svc) {
		t := c.term(ret.Results[0])
		r.Check(strings.HasPrefix(t, "call:(*Command).visibleCommands(P0)"), "PRED", c.fname(svc), "sortedVisibleCommands sorts the visible commands", c.ipos(ret), "the sorted slice is visibleCommands()", "sortedVisibleCommands returns "+trunc(t, 80))
	}

	// ---- ROW
	var rowCl *ssa.Function
	for _, s := range c.callersOfName("(*Parser).writeHelpOption") {
		rowCl = s.Fn
		deps := c.depsOf(s.Fn, s.Call)
		// the command whose rows are being printed: the variable tested by the header of the walk loop this call sits in
		topLit := "eq(Parser.Command(P0), cell:*Command)"
		for _, l := range c.loopsDeep(wh) {
			iff, isIf := l.Header.Instrs[len(l.Header.Instrs)-1].(*ssa.If)
			inL := c.inLoop(l, s.Call.Block())
			if mc := c.closureSite[s.Fn]; mc != nil && c.inLoop(l, mc.Block()) {
				inL = true // the row is written by a closure made inside the walk loop
			}
			if !isIf || !inL {
				continue
			}
			if m := walkCellRe.FindStringSubmatch(c.cond(iff.Cond).Term); m != nil {
				topLit = "eq(Parser.Command(P0), " + m[1] + ")"
			}
		}
		need := map[string]bool{"¬hidden": false, "builtin|top": false, "shows": false}
		var extra []string
		for _, l := range deps {
			switch {
			case l.Term == "Group.Hidden(P0)" && !l.Pos:
				need["¬hidden"] = true
			case l.Term == "Group.isBuiltinHelp(P0)", l.Term == topLit && l.Pos:
				// (the top-level test is itself reached through the isBuiltinHelp edge)
				need["builtin|top"] = true
			case strings.HasPrefix(l.Term, "call:(*Option).showInHelp(idx(Group.options(P0)") && l.Pos:
				need["shows"] = true
			case strings.HasPrefix(l.Term, "lt("):
			default:
				extra = append(extra, l.String())
			}
		}
		_, r1 := c.Requires(s.Fn, isInstr(s.Call), litIs("Group.Hidden(P0)", false), nil)
		_, r2 := c.Requires(s.Fn, isInstr(s.Call), anyLit(litIs("Group.isBuiltinHelp(P0)", false), litIs(topLit, true)), nil)
		_, r3 := c.Requires(s.Fn, isInstr(s.Call), litHas(true, "call:(*Option).showInHelp(idx(Group.options(P0)"), nil)
		r.Check(r1 && r2 && r3, "ROW", c.fname(s.Fn), "help option row requires visibility", c.ipos(s.Call), "REQ(¬grp.Hidden) ∧ REQ(¬builtin-help ∨ top-level) ∧ REQ(option.showInHelp())", fmt.Sprintf("¬Hidden=%v builtin|top=%v showInHelp=%v", r1, r2, r3))
		r.Check(len(extra) == 0, "ROW", c.fname(s.Fn), "help option row has no other guard", c.ipos(s.Call), "control-dependence closure contains only the visibility conditions and loop tests", "a visible option can be skipped by: "+strings.Join(extra, "; "))
	}
	if rowCl == nil {
		r.Fail("ROW", c.fname(wh), "help option row", "", "writeHelpOption is never called")
	}
	// inside writeHelpOption
	wn := c.fname(who)
	part := func(what string, pred InstrPred, lits ...LitMatch) {
		n := 0
		for _, in := range c.instrs(who, pred) {
			n++
			okAll := true
			for _, m := range lits {
				if _, ok := c.Requires(who, isInstr(in), m, nil); !ok {
					okAll = false
				}
			}
			r.Check(okAll, "ROW", wn, what, c.ipos(in), "guards necessary", "the part is written without its guard")
		}
		if n == 0 {
			r.Fail("ROW", wn, what, "", "the part is not written at all")
		}
	}
	notHidden := litIs("Option.Hidden(P2)", false)
	part("short name REQ(¬Hidden ∧ ShortName ≠ 0)", func(in ssa.Instruction) bool {
		call, ok := in.(*ssa.Call)
		return ok && c.calleeName(call.Common()) == "(*bytes.Buffer).WriteRune" && c.term(call.Call.Args[1]) == "Option.ShortName(P2)"
	}, notHidden, litIs("nonzero(Option.ShortName(P2))", true))
	part("long name REQ(¬Hidden ∧ long name present)", func(in ssa.Instruction) bool {
		call, ok := in.(*ssa.Call)
		return ok && c.calleeName(call.Common()) == "(*bytes.Buffer).WriteString" && c.term(call.Call.Args[1]) == "call:(*Option).LongNameWithNamespace(P2)"
	}, notHidden, litIs("nonempty(Option.LongName(P2))", true))
	part("value name REQ(canArgument ∧ present)", func(in ssa.Instruction) bool {
		call, ok := in.(*ssa.Call)
		return ok && c.calleeName(call.Common()) == "(*bytes.Buffer).WriteString" && c.term(call.Call.Args[1]) == "Option.ValueName(P2)"
	}, notHidden, litIs("call:(*Option).canArgument(P2)", true), litIs("nonempty(Option.ValueName(P2))", true))
	part("choices REQ(canArgument ∧ present)", func(in ssa.Instruction) bool {
		call, ok := in.(*ssa.Call)
		return ok && c.calleeName(call.Common()) == "strings.Join" && c.term(call.Call.Args[0]) == "Option.Choices(P2)"
	}, notHidden, litIs("call:(*Option).canArgument(P2)", true), litIs("nonempty(Option.Choices(P2))", true))
	part("description block REQ(description present)", c.isCallTo("wrapText"), notHidden, litIs("nonempty(Option.Description(P2))", true))
	// argument rows
	for _, b := range c.blocks(wh) {
		for _, in := range b.Instrs {
			call, ok := in.(*ssa.Call)
			if !ok || c.calleeName(call.Common()) != "append" || relType(c, call.Type()) != "[]*Arg" {
				continue
			}
			_, req := c.Requires(wh, isInstr(in), func(l Lit) bool {
				return l.Pos && strings.HasPrefix(l.Term, "nonempty(Arg.Description(idx(Command.args(")
			}, nil)
			r.Check(req, "ROW", c.fname(wh), "argument rows are the described arguments", c.ipos(in), "append REQ(arg.Description != \"\")", "an argument is listed without a description test")
		}
	}
	// man option entry
	var manCl *ssa.Function
	for _, s := range c.instrs(mo, c.isCallTo("(*Group).eachGroup")) {
		for _, f := range closureArgs(s.(ssa.CallInstruction)) {
			manCl = f
		}
	}
	if manCl == nil {
		r.Fail("ROW", c.fname(mo), "man option entries", "", "no closure over eachGroup")
	} else {
		// the ".TP" line opens an entry
		nE := 0
		for _, in := range c.instrs(manCl, c.isCallTo("fmt.Fprintln")) {
			call := in.(*ssa.Call)
			es := sliceLitElems(call.Call.Args[1])
			if len(es) != 1 || c.term(es[0]) != `".TP"` {
				continue
			}
			nE++
			var extra []string
			for _, l := range c.depsOf(manCl, in) {
				switch {
				case strings.HasPrefix(l.Term, "call:(*Group).showInHelp(P0)") && l.Pos:
				case strings.HasPrefix(l.Term, "call:(*Option).showInHelp(idx(Group.options(P0)") && l.Pos:
				case strings.HasPrefix(l.Term, "lt("):
				default:
					extra = append(extra, l.String())
				}
			}
			_, a := c.Requires(manCl, isInstr(in), litIs("call:(*Group).showInHelp(P0)", true), nil)
			_, b := c.Requires(manCl, isInstr(in), litHas(true, "call:(*Option).showInHelp(idx(Group.options(P0)"), nil)
			r.Check(a && b && len(extra) == 0, "ROW", c.fname(manCl), "man option entry guarded by visibility only", c.ipos(in), "REQ(group.showInHelp()) ∧ REQ(opt.showInHelp()), nothing else", fmt.Sprintf("group=%v option=%v extra=%s", a, b, strings.Join(extra, "; ")))
		}
		r.Check(nE == 1, "ROW", c.fname(manCl), "man entry site", c.pos(manCl.Pos()), "one", fmt.Sprintf("%d", nE))
	}

	// ---- COMMANDS
	scopeFiles := map[string]bool{}
	for _, n := range []string{"(*Parser).WriteHelp", "(*Parser).WriteHelp$1", "writeManPageSubcommands", "writeManPageCommand", "(*Parser).WriteManPage", "writeManPageOptions", "maxCommandLength"} {
		scopeFiles[n] = true
	}
	for _, fn := range c.Funcs {
		if !scopeFiles[c.fname(fn)] && !strings.HasPrefix(c.fname(fn), "writeManPageOptions$") {
			continue
		}
		for _, b := range c.blocks(fn) {
			for _, in := range b.Instrs {
				u, ok := in.(*ssa.UnOp)
				if !ok || !strings.HasPrefix(c.term(u), "Command.commands(") {
					continue
				}
				onlyLen := true
				for _, ref := range *u.Referrers() {
					if call, isCall := ref.(*ssa.Call); !isCall || c.calleeName(call.Common()) != "len" {
						if _, isDbg := ref.(*ssa.DebugRef); !isDbg {
							onlyLen = false
						}
					}
				}
				r.Check(onlyLen, "COMMANDS", c.fname(fn), "raw Command.commands only measured", c.ipos(in), "used only by len()", "the unfiltered command list is used directly in help/man generation")
			}
		}
	}
	// ranged lists: every Command.Name / ShortDescription printed in a loop comes from sortedVisibleCommands
	for _, fn := range []*ssa.Function{wh, c.Fn("writeManPageSubcommands")} {
		if fn == nil {
			continue
		}
		nSrc := 0
		for _, in := range c.instrs(fn, c.isCallTo("(*Command).sortedVisibleCommands")) {
			nSrc++
			_ = in
		}
		r.Check(nSrc >= 1, "COMMANDS", c.fname(fn), "command lists come from sortedVisibleCommands", c.pos(fn.Pos()), fmt.Sprintf("%d calls", nSrc), "no call to sortedVisibleCommands")
		for _, b := range c.blocks(fn) {
			for _, in := range b.Instrs {
				ia, ok := in.(*ssa.IndexAddr)
				if !ok || typeName(ia.X.Type()) == "" {
					continue
				}
				if relType(c, ia.X.Type()) != "[]*Command" {
					continue
				}
				t := c.term(ia.X)
				// (a sub-slice of the visible list is still the visible list: `for _, c := range cmds[1:]` when measuring)
				r.Check(strings.HasPrefix(t, "call:(*Command).sortedVisibleCommands(") || strings.HasPrefix(t, "slice(call:(*Command).sortedVisibleCommands("), "COMMANDS", c.fname(fn), "iterated command list", c.ipos(in), "sortedVisibleCommands()", "iterates "+trunc(t, 100))
			}
		}
	}
	for _, b := range c.blocks(wh) {
		if iff, ok := b.Instrs[len(b.Instrs)-1].(*ssa.If); ok {
			l := c.cond(iff.Cond)
			if strings.HasPrefix(l.Term, "lt(3, len(") {
				r.Check(strings.HasPrefix(l.Term, "lt(3, len(call:(*Command).visibleCommands(") || strings.HasPrefix(l.Term, "lt(3, len(call:(*Command).sortedVisibleCommands("), "COMMANDS", c.fname(wh), "usage line counts visible commands", c.ipos(iff), "len(visibleCommands()) > 3", "the usage line counts "+trunc(l.Term, 100))
			}
		}
	}

	// ---- ATTR
	reaches := func(fn *ssa.Function, sub string) bool {
		found := false
		for _, b := range c.blocks(fn) {
			for _, in := range b.Instrs {
				call, ok := in.(*ssa.Call)
				if !ok {
					continue
				}
				n := c.calleeName(call.Common())
				if !(strings.HasPrefix(n, "fmt.Fprint") || strings.HasPrefix(n, "(*bytes.Buffer).Write") || strings.HasPrefix(n, "(*bufio.Writer).Write") || n == "fmt.Sprintf" || n == "wrapText" || n == "formatForMan" || n == "manQuote" || n == "strings.Join" || n == "quoteV") {
					continue
				}
				for _, a := range call.Call.Args {
					if strings.Contains(c.term(a), sub) {
						found = true
					}
					for _, e := range sliceLitElems(a) {
						if strings.Contains(c.term(e), sub) {
							found = true
						}
					}
				}
			}
		}
		return found
	}
	type attr struct {
		fn   *ssa.Function
		what string
		sub  string
	}
	var attrs []attr
	for _, a := range [][2]string{{"short name", "Option.ShortName(P2)"}, {"namespaced long name", "call:(*Option).LongNameWithNamespace(P2)"}, {"value name", "Option.ValueName(P2)"}, {"choices", "Option.Choices(P2)"}, {"description", "Option.Description(P2)"}, {"default literal", "Option.defaultLiteral(P2)"}, {"default mask", "Option.DefaultMask(P2)"}, {"environment variable", "call:(*Option).EnvKeyWithNamespace(P2)"}} {
		attrs = append(attrs, attr{who, "help row: " + a[0], a[1]})
	}
	if manCl != nil {
		o := "idx(Group.options(P0), "
		for _, a := range [][2]string{{"short name", "Option.ShortName(" + o}, {"namespaced long name", "call:(*Option).LongNameWithNamespace(" + o}, {"value name", "Option.ValueName(" + o}, {"default", "Option.Default(" + o}, {"default mask", "Option.DefaultMask(" + o}, {"environment variable", "call:(*Option).EnvKeyWithNamespace(" + o}, {"description", "Option.Description(" + o}} {
			attrs = append(attrs, attr{manCl, "man entry: " + a[0], a[1]})
		}
	}
	for _, a := range [][2]string{{"command name", "Command.Name("}, {"command short description", "Group.ShortDescription(Command.Group("}, {"command aliases", "Command.Aliases("}, {"argument name", "Arg.Name("}, {"argument description", "Arg.Description("}} {
		attrs = append(attrs, attr{wh, "help: " + a[0], a[1]})
	}
	if mc := c.Fn("writeManPageCommand"); mc != nil {
		for _, a := range [][2]string{{"command name", "Command.Name(P3)"}, {"short description", "Group.ShortDescription(Command.Group(P3))"}, {"long description", "Group.LongDescription(Command.Group(P3))"}, {"aliases", "Command.Aliases(P3)"}} {
			attrs = append(attrs, attr{mc, "man command: " + a[0], a[1]})
		}
		okRec := len(c.instrs(mc, c.isCallTo("writeManPageOptions"))) == 1 && len(c.instrs(mc, c.isCallTo("writeManPageSubcommands"))) == 1
		r.Check(okRec, "ATTR", c.fname(mc), "man command recurses into its options and subcommands", c.pos(mc.Pos()), "writeManPageOptions and writeManPageSubcommands are called", "the man page does not descend into the command's options/subcommands")
	}
	sort.SliceStable(attrs, func(i, j int) bool { return attrs[i].what < attrs[j].what })
	for _, a := range attrs {
		r.Check(reaches(a.fn, a.sub), "ATTR", c.fname(a.fn), a.what, c.pos(a.fn.Pos()), "reaches a writer call", "attribute "+a.sub+"… never reaches a writer in "+c.fname(a.fn))
	}

	// descriptions pass through wrapText on their way to the writer: nothing is dropped at a line break
	if wt := c.Fn("wrapText"); wt != nil {
		c.wrapCutRule(r, "ATTR", wt, nil)
	}
	// the man page covers the whole command tree: no return of writeManPageCommand skips the options or the subcommands
	if mc := c.Fn("writeManPageCommand"); mc != nil {
		for _, ret := range returnsOf(mc) {
			c.mptRule(r, "ATTR", mc, ret, "man page: a command's options are written", c.isCallTo("writeManPageOptions"), "call writeManPageOptions", nil)
			c.mptRule(r, "ATTR", mc, ret, "man page: a command's subcommands are written", c.isCallTo("writeManPageSubcommands"), "call writeManPageSubcommands", nil)
		}
	}
	// the choice list is shown for every option that has choices, with or without a value name
	for _, in := range c.instrs(who, c.isCallTo("(*bytes.Buffer).WriteString", "(*bufio.Writer).WriteString")) {
		call := in.(*ssa.Call)
		if !strings.Contains(c.term(call.Call.Args[1]), "Option.Choices(P2)") {
			continue
		}
		var extra []string
		for _, d := range c.controlDeps(who, in.Block()) {
			if l, ok := c.edgeLit(d.B, d.Succ); ok && strings.Contains(l.Term, "Option.ValueName(") {
				extra = append(extra, l.String())
			}
		}
		r.Check(len(extra) == 0, "ATTR", wn, "choices do not depend on a value name", c.ipos(in), "the `[a|b]` part is written under its own test only", "the choice list is written only under "+strings.Join(extra, "; "))
	}
	// every described positional argument is listed: the loops over the command's arguments visit all of them
	if wh := c.mustFn(r, "(*Parser).WriteHelp"); wh != nil {
		nL := 0
		for _, fn := range c.Funcs {
			if !c.actsFor(fn, wh) {
				continue
			}
			for _, l := range c.loopsDeep(fn) {
				reads := false
				for b := range l.Blocks {
					for _, in := range b.Instrs {
						if u, ok := in.(*ssa.UnOp); ok && strings.HasPrefix(c.term(u), "Arg.Description(") {
							reads = true
						}
					}
				}
				if !reads || l.Header.Parent() != fn {
					continue
				}
				nL++
				var early []string
				for _, e := range l.exits() {
					if e.B != l.Header {
						early = append(early, c.ipos(e.B.Instrs[len(e.B.Instrs)-1]))
					}
				}
				r.Check(len(early) == 0, "ATTR", c.fname(fn), "every positional argument is considered for the help", c.ipos(l.Header.Instrs[0]), "the loop over the arguments exits only at its header", "the loop is left early at "+strings.Join(early, ", ")+": described arguments after that one are not listed")
			}
		}
		r.Check(nL >= 1, "ATTR", c.fname(wh), "argument loops found", c.pos(wh.Pos()), "≥ 1", fmt.Sprintf("%d", nL))
	}
	// the default shown is the current one: every parse re-renders the default literal (no path of
	// updateDefaultLiteral returns without storing it)
	if udl := c.mustFn(r, "(*Option).updateDefaultLiteral"); udl != nil {
		if dl := c.mustField(r, "Option", "defaultLiteral"); dl != nil {
			for _, ret := range returnsOf(udl) {
				c.mptRule(r, "ATTR", udl, ret, "the default literal is re-rendered on every call", c.isStoreTo(dl), "store Option.defaultLiteral", nil)
			}
		}
	}
	// aliases are listed whenever there is at least one
	if wh := c.Fn("(*Parser).WriteHelp"); wh != nil {
		nAl := 0
		for _, fn := range c.Funcs {
			if !c.actsFor(fn, wh) && c.fname(fn) != "writeManPageSubcommands" && c.fname(fn) != "writeManPageCommand" {
				continue
			}
			for _, in := range c.instrs(fn, c.isCallTo("strings.Join")) {
				call := in.(*ssa.Call)
				at := c.term(call.Call.Args[0])
				if !strings.HasPrefix(at, "Command.Aliases(") || in.Parent() != fn {
					continue
				}
				nAl++
				var about []string
				for _, d := range c.controlDeps(fn, in.Block()) {
					if l, ok := c.edgeLit(d.B, d.Succ); ok && strings.Contains(l.Term, "Command.Aliases(") {
						about = append(about, l.String())
					}
				}
				if c.fname(fn) == "writeManPageCommand" {
					// in the man page the aliases do not hang on any other attribute of the command: they are written
					// under the conditions under which the command's options are written, plus having an alias
					base := map[string]bool{}
					for _, oc := range c.instrs(fn, c.isCallTo("writeManPageOptions")) {
						for _, l := range c.depsOf(fn, oc) {
							base[l.String()] = true
						}
					}
					var extra []string
					for _, l := range c.depsOf(fn, in) {
						if !base[l.String()] && !strings.Contains(l.Term, "Command.Aliases(") {
							extra = append(extra, trunc(l.String(), 70))
						}
					}
					r.Check(len(extra) == 0, "ATTR", c.fname(fn), "man page lists a command's aliases under no further condition", c.ipos(in), "same guards as the command's option list, plus len(Aliases) > 0", "aliases are also conditional on "+strings.Join(extra, "; ")+": a command for which that fails is documented without its aliases")
				}
				okAl := len(about) == 1 && about[0] == "nonempty("+at+")"
				r.Check(okAl, "ATTR", c.fname(fn), "aliases are listed whenever the command has any", c.ipos(in), "REQ(len(Aliases) > 0), no stronger test", "aliases are printed under "+strings.Join(about, " ∧ ")+": a command with fewer aliases than that is listed without them")
			}
		}
		r.Check(nAl >= 1, "ATTR", c.fname(wh), "alias listing found", c.pos(wh.Pos()), "≥ 1", fmt.Sprintf("%d", nAl))
	}
	// the environment variable shown is the one that is read: the bare env key is only tested, never printed
	if ek := c.Field("Option", "EnvDefaultKey"); ek != nil {
		for _, fn := range c.Funcs {
			pos := c.pos(fn.Pos())
			if !strings.HasPrefix(pos, "help.go:") && !strings.HasPrefix(pos, "man.go:") {
				continue
			}
			for _, b := range fn.Blocks {
				for _, in := range b.Instrs {
					fa, ok := in.(*ssa.FieldAddr)
					if !ok || fieldObj(fa.X.Type(), fa.Field) != ek || fa.Referrers() == nil {
						continue
					}
					for _, ref := range *fa.Referrers() {
						ld, ok := ref.(*ssa.UnOp)
						if !ok || ld.Referrers() == nil {
							continue
						}
						for _, use := range *ld.Referrers() {
							okUse := false
							switch u := use.(type) {
							case *ssa.DebugRef:
								continue
							case *ssa.BinOp:
								okUse = u.Op == token.EQL || u.Op == token.NEQ
							case *ssa.Call:
								if bi, isB := u.Call.Value.(*ssa.Builtin); isB && bi.Name() == "len" {
									okUse = true
								}
							}
							r.Check(okUse, "ATTR", c.fname(fn), "the bare env key is only tested, not printed", c.ipos(use), "printed name is EnvKeyWithNamespace()", "Option.EnvDefaultKey flows into the output: inside a group with an env-namespace the variable shown is not the one that is read")
						}
					}
				}
			}
		}
	}
	// formatForMan writes all of its text: every return has passed a write of the quoted rest (not only of a prefix)
	if ffm := c.mustFn(r, "formatForMan"); ffm != nil {
		rest := func(in ssa.Instruction) bool {
			ci, ok := in.(ssa.CallInstruction)
			if !ok || ci.Common().StaticCallee() != nil || ci.Common().IsInvoke() || len(ci.Common().Args) != 1 {
				return false
			}
			return c.term(ci.Common().Value) == "P2" && !strings.HasPrefix(c.term(ci.Common().Args[0]), "before(")
		}
		for _, ret := range returnsOf(ffm) {
			c.mptRule(r, "ATTR", ffm, ret, "man text: the rest after the last quote pair is written", rest, "quoter(rest of the text)", nil)
		}
	}
	// ---- MASK
	maskEmpty := func(t string) LitMatch {
		return func(l Lit) bool { return !l.Pos && strings.HasPrefix(l.Term, "nonempty(Option.DefaultMask("+t) }
	}
	// help: the value rendered as "(default: …)" — each of its origins is the literal under an empty
	// mask, the mask itself unless it is "-", or nothing
	nM := 0
	// the value rendered after "(default: " — an operand of fmt.Sprintf or of a string concatenation
	type defUse struct {
		v  ssa.Value
		at ssa.Instruction
	}
	var defUses []defUse
	for _, in := range c.instrs(who, c.isCallTo("fmt.Sprintf")) {
		call := in.(*ssa.Call)
		if f, ok := constStr(call.Call.Args[0]); !ok || !strings.Contains(f, "default:") {
			continue
		}
		es := sliceLitElems(call.Call.Args[1])
		if len(es) < 2 {
			r.Fail("MASK", wn, "default rendering", c.ipos(in), "the `(default: …)` format has no default operand")
			continue
		}
		defUses = append(defUses, defUse{es[1], in})
	}
	for _, in := range c.instrs(who, func(in ssa.Instruction) bool { bo, ok := in.(*ssa.BinOp); return ok && bo.Op == token.ADD }) {
		bo := in.(*ssa.BinOp)
		if l, ok := bo.X.(*ssa.BinOp); ok && l.Op == token.ADD {
			if s, ok := constStr(l.Y); ok && strings.Contains(s, "default:") {
				defUses = append(defUses, defUse{bo.Y, in})
			}
		}
		if s, ok := constStr(bo.X); ok && strings.Contains(s, "default:") {
			defUses = append(defUses, defUse{bo.Y, in})
		}
	}
	for _, du := range defUses {
		in := du.at
		for _, o := range c.originsOf(du.v, in) {
			switch {
			case o.Term == "Option.defaultLiteral(P2)" || strings.Contains(o.Term, "Option.Default(P2)"):
				nM++
				r.Check(c.reqAt(who, o, maskEmpty("P2")), "MASK", wn, "default literal shown only without a mask", c.ipos(o.At), "REQ(len(DefaultMask) == 0)", "the real default can be printed although a default-mask is declared")
			case o.Term == "Option.DefaultMask(P2)":
				r.Check(c.reqAt(who, o, litIs(`eq("-", Option.DefaultMask(P2))`, false)), "MASK", wn, "mask \"-\" prints no default", c.ipos(o.At), "the mask is shown only when it is not \"-\"", "a mask of \"-\" is printed")
			case o.Term == `""`:
			default:
				r.Fail("MASK", wn, "default rendering", c.ipos(o.At), "the rendered default may also be "+trunc(o.Term, 100))
			}
		}
	}
	if nM == 0 {
		r.Fail("MASK", wn, "default literal flow", "", "the default literal never flows into the description")
	}
	if manCl != nil {
		o := "idx(Group.options(P0), "
		nMan := 0
		for _, in := range c.instrs(manCl, c.isCallTo("quoteV", "strings.Join")) {
			t := c.term(in.(*ssa.Call).Call.Args[0])
			if !strings.Contains(t, "Option.Default("+o) {
				continue
			}
			nMan++
			_, req := c.Requires(manCl, isInstr(in), maskEmpty(o), nil)
			r.Check(req, "MASK", c.fname(manCl), "man page prints a default only without a mask", c.ipos(in), "REQ(len(DefaultMask) == 0)", "the man page prints the real default although a default-mask is declared")
		}
		if nMan == 0 {
			r.Fail("MASK", c.fname(manCl), "default flow in the man page", "", "Option.Default never reaches the man entry")
		}
	}

	// ---- DEEPEST
	var walkLoop *Loop
	for _, l := range c.loopsDeep(wh) {
		iff, isIf := l.Header.Instrs[len(l.Header.Instrs)-1].(*ssa.If)
		if !isIf {
			continue
		}
		t := c.cond(iff.Cond).Term
		if t != "nonnil(Command.Active(cell:*Command))" && t != "nonnil(Command.Active(phi{Command.Active(phi↺) | Parser.Command(P0)}))" {
			continue
		}
		// the body advances the variable to its .Active, and the loop ends only at nil
		adv := false
		for b := range l.Blocks {
			for _, in := range b.Instrs {
				if st, ok := in.(*ssa.Store); ok {
					if _, isCell := st.Addr.(*ssa.Alloc); isCell && c.term(st.Val) == "Command.Active(cell:*Command)" {
						adv = true
					}
				}
			}
		}
		for _, in := range l.Header.Instrs {
			if ph, ok := in.(*ssa.Phi); ok && c.term(ph) == "phi{Command.Active(phi↺) | Parser.Command(P0)}" {
				adv = true
			}
		}
		onlyHeader := true
		for _, e := range l.exits() {
			if e.B != l.Header {
				onlyHeader = false
			}
		}
		// it must not be the usage-line loop (which tests the variable itself, not its .Active)
		if adv && onlyHeader {
			walkLoop = l
		}
	}
	r.Check(walkLoop != nil, "DEEPEST", c.fname(wh), "walk to the innermost active command", c.pos(wh.Pos()), "for cmd.Active != nil { cmd = cmd.Active }", "no loop descending .Active to its end: at depth ≥ 2 the parent's commands and description are shown")
	okUse := false
	for _, in := range c.instrs(wh, c.isCallTo("(*Command).sortedVisibleCommands")) {
		t := c.term(in.(*ssa.Call).Call.Args[0])
		if walkLoop != nil && t == "cell:*Command" && !walkLoop.Blocks[in.Block()] {
			// the cell read after the walk loop
			var after *ssa.BasicBlock
			for _, hs := range walkLoop.Header.Succs {
				if !walkLoop.Blocks[hs] {
					after = hs
				}
			}
			if after != nil && after.Dominates(in.Block()) {
				okUse = true
			}
		}
	}
	r.Check(okUse, "DEEPEST", c.fname(wh), "`Available commands` lists the innermost command's subcommands", c.pos(wh.Pos()), "sortedVisibleCommands() of the walk variable, after the walk", "the command list is not taken from the innermost active command")
}

// callersOfName: call sites of the named function.
func (c *Ctx) callersOfName(name string) []CallSite {
	fn := c.Fn(name)
	if fn == nil {
		return nil
	}
	s, _ := c.callersOf(fn)
	return s
}

var walkCellRe = regexp.MustCompile(`^nonnil\((cell:\*Command(?:#\d+)?)\)$`)
