package main

// term.go — normalised terms for SSA values ("shapes") and branch conditions.
// Terms never contain names of locals or line numbers: they are built from
// type names, field names, resolved callees, parameter indices and constants.

import (
	"fmt"
	"go/constant"
	"go/token"
	"go/types"
	"sort"
	"strconv"
	"strings"

	"golang.org/x/tools/go/ssa"
)

const maxTermDepth = 14

type termer struct {
	c       *Ctx
	phis    map[*ssa.Phi]bool
	binding map[*ssa.Parameter]int
	inl     int
}

func (c *Ctx) term(v ssa.Value) string {
	t := &termer{c: c, phis: map[*ssa.Phi]bool{}, binding: map[*ssa.Parameter]int{}}
	return t.term(v, 0)
}

// inlineResult: the term of result #idx of a call to a new function: the
// returned expression(s) with the callee's parameters bound to this call's arguments.
func (t *termer) inlineResult(call *ssa.Call, idx int, d int) (string, bool) {
	c := t.c
	cal := call.Common().StaticCallee()
	if cal == nil || !c.isNew(cal) || t.inl > 2 {
		return "", false
	}
	rets := returnsOf(cal)
	if len(rets) == 0 {
		return "", false
	}
	// (value, error) helpers: a return that hands back a zero value together with a certainly non-nil
	// error contributes nothing when the caller touches the value only after testing err == nil
	dropFail := false
	if res := cal.Signature.Results(); res.Len() >= 2 && idx < res.Len()-1 && isErrorType(res.At(res.Len()-1).Type()) {
		dropFail = c.valueUsedOnlyOnSuccess(call, idx)
	}
	c.frames = append(c.frames, call)
	t.inl++
	set := map[string]bool{}
	for _, r := range rets {
		if idx < len(r.Results) {
			if dropFail && isZeroConst(r.Results[idx]) && c.surelyNonNilError(r.Results[len(r.Results)-1], r) {
				continue
			}
			set[t.term(r.Results[idx], d+1)] = true
		}
	}
	t.inl--
	c.frames = c.frames[:len(c.frames)-1]
	var ss []string
	for s := range set {
		ss = append(ss, s)
	}
	sort.Strings(ss)
	if len(ss) == 0 {
		return "", false
	}
	if len(ss) == 1 {
		return ss[0], true
	}
	return "phi{" + strings.Join(ss, " | ") + "}", true
}

func typeName(t types.Type) string {
	switch t := t.(type) {
	case *types.Pointer:
		return typeName(t.Elem())
	case *types.Named:
		return t.Obj().Name()
	}
	return types.TypeString(t, func(p *types.Package) string { return p.Name() })
}

func relType(c *Ctx, t types.Type) string {
	return types.TypeString(t, func(p *types.Package) string {
		if p == c.Types {
			return ""
		}
		return p.Name()
	})
}

// structField returns "T.f" for field index i of the struct (pointer) type t.
func fieldName(t types.Type, i int) string {
	tn := typeName(t)
	var st *types.Struct
	switch u := t.Underlying().(type) {
	case *types.Pointer:
		st, _ = u.Elem().Underlying().(*types.Struct)
	case *types.Struct:
		st = u
	}
	if st == nil || i >= st.NumFields() {
		return tn + ".?"
	}
	return tn + "." + fieldVarName(st.Field(i))
}

// fieldAlias: renamed unexported struct fields → their names in the pinned tree (set by the loader).
var fieldAlias = map[*types.Var]string{}

func fieldVarName(v *types.Var) string {
	if v == nil {
		return "?"
	}
	if a, ok := fieldAlias[v]; ok {
		return a
	}
	return v.Name()
}

func fieldObj(t types.Type, i int) *types.Var {
	var st *types.Struct
	switch u := t.Underlying().(type) {
	case *types.Pointer:
		st, _ = u.Elem().Underlying().(*types.Struct)
	case *types.Struct:
		st = u
	}
	if st == nil || i >= st.NumFields() {
		return nil
	}
	return st.Field(i)
}

// cellStores returns every Store whose address is the given cell (an Alloc of
// a captured or plain local variable), looking through closure bindings.
func (c *Ctx) cellStores(a ssa.Value) (stores []*ssa.Store, escapes bool) {
	seen := map[ssa.Value]bool{}
	var walk func(v ssa.Value)
	walk = func(v ssa.Value) {
		if seen[v] {
			return
		}
		seen[v] = true
		refs := v.Referrers()
		if refs == nil {
			return
		}
		for _, r := range *refs {
			switch r := r.(type) {
			case *ssa.Store:
				if r.Addr == v {
					stores = append(stores, r)
				} else {
					escapes = true // the address itself is stored somewhere
				}
			case *ssa.MakeClosure:
				fn, _ := r.Fn.(*ssa.Function)
				for i, b := range r.Bindings {
					if b == v && fn != nil && i < len(fn.FreeVars) {
						walk(fn.FreeVars[i])
					}
				}
			case *ssa.UnOp, *ssa.FieldAddr, *ssa.IndexAddr, *ssa.DebugRef:
				// loads / projections
			case ssa.CallInstruction:
				escapes = true
			default:
				// Phi, MakeInterface etc: address flows on
				escapes = true
			}
		}
	}
	walk(a)
	return
}

// cellRoot resolves a pointer value that denotes a local variable cell to the
// defining Alloc (through FreeVar bindings). ok=false if v is not a cell.
func (c *Ctx) cellRoot(v ssa.Value) (ssa.Value, bool) {
	for i := 0; i < 8; i++ {
		switch x := v.(type) {
		case *ssa.Alloc:
			return x, true
		case *ssa.FreeVar:
			fn := x.Parent()
			mc := c.closureSite[fn]
			if mc == nil {
				return nil, false
			}
			idx := -1
			for i, fv := range fn.FreeVars {
				if fv == x {
					idx = i
				}
			}
			if idx < 0 || idx >= len(mc.Bindings) {
				return nil, false
			}
			v = mc.Bindings[idx]
		default:
			return nil, false
		}
	}
	return nil, false
}

// resolve strips value-preserving wrappers and single-store cell loads.
func (c *Ctx) resolve(v ssa.Value) ssa.Value {
	for i := 0; i < 16; i++ {
		switch x := v.(type) {
		case *ssa.Parameter:
			// a parameter of a virtually inlined (new) helper is the argument at its call site
			if a, ok := c.paramBinding(x); ok && a != v {
				v = a
				continue
			}
			return v
		case *ssa.Call:
			// the result of a new helper all of whose returns yield one and the same value
			cal := x.Common().StaticCallee()
			if cal == nil || !c.isNew(cal) || cal.Signature.Results().Len() != 1 || len(c.frames) > 3 {
				return v
			}
			for _, f := range c.frames {
				if f.Common().StaticCallee() == cal {
					return v
				}
			}
			rets := returnsOf(cal)
			if len(rets) == 0 {
				return v
			}
			c.frames = append(c.frames, x)
			var one ssa.Value
			same := true
			for _, ret := range rets {
				rv := c.resolve(ret.Results[0])
				if one == nil {
					one = rv
				} else if one != rv {
					same = false
				}
			}
			c.frames = c.frames[:len(c.frames)-1]
			if !same || one == nil {
				return v
			}
			switch one.(type) {
			case *ssa.MakeMap, *ssa.MakeSlice, *ssa.Alloc, *ssa.Const, *ssa.Parameter:
				return one // an object created (or passed through) by the helper
			}
			return v
		case *ssa.ChangeType:
			v = x.X
		case *ssa.MakeInterface:
			v = x.X
		case *ssa.ChangeInterface:
			v = x.X
		case *ssa.FreeVar:
			// a FreeVar that captures a value (not a cell): resolve to binding
			if _, isPtr := x.Type().(*types.Pointer); isPtr {
				if r, ok := c.cellRoot(x); ok {
					if _, isAlloc := r.(*ssa.Alloc); isAlloc {
						return r
					}
				}
			}
			fn := x.Parent()
			mc := c.closureSite[fn]
			if mc == nil {
				return v
			}
			for i, fv := range fn.FreeVars {
				if fv == x && i < len(mc.Bindings) {
					v = mc.Bindings[i]
				}
			}
			if v == x {
				return v
			}
		case *ssa.UnOp:
			if x.Op != token.MUL {
				return v
			}
			root, ok := c.cellRoot(x.X)
			if !ok {
				return v
			}
			a, isAlloc := root.(*ssa.Alloc)
			if !isAlloc {
				return v
			}
			// only variable cells (not struct/array storage accessed by field)
			stores, esc := c.cellStores(a)
			if esc || len(stores) != 1 {
				return v
			}
			if !c.storeReaches(stores[0], x) {
				return v
			}
			v = stores[0].Val
		default:
			return v
		}
	}
	return v
}

func (t *termer) args(vs []ssa.Value, d int) string {
	var s []string
	for _, a := range vs {
		s = append(s, t.term(a, d+1))
	}
	return strings.Join(s, ", ")
}

func (c *Ctx) calleeName(cc *ssa.CallCommon) string {
	if cc.IsInvoke() {
		return "invoke:" + typeName(cc.Value.Type()) + "." + cc.Method.Name()
	}
	switch f := cc.Value.(type) {
	case *ssa.Function:
		return c.fname(f)
	case *ssa.Builtin:
		return f.Name()
	case *ssa.MakeClosure:
		if fn, ok := f.Fn.(*ssa.Function); ok {
			return c.fname(fn)
		}
	}
	return ""
}

func (t *termer) term(v ssa.Value, d int) string {
	c := t.c
	if v == nil {
		return "_"
	}
	if d > maxTermDepth {
		return "…"
	}
	v = c.resolve(v)
	switch x := v.(type) {
	case *ssa.Const:
		return c.constName(x)
	case *ssa.Parameter:
		if t.binding[x] < 3 {
			if a, ok := c.paramBinding(x); ok {
				t.binding[x]++
				s := t.term(a, d+1)
				t.binding[x]--
				return s
			}
		}
		for i, p := range x.Parent().Params {
			if p == x {
				return c.pname(x.Parent(), i)
			}
		}
		return "P?"
	case *ssa.FreeVar:
		return "fv:" + relType(c, x.Type())
	case *ssa.Alloc:
		return "new:" + relType(c, x.Type().(*types.Pointer).Elem())
	case *ssa.Global:
		if x.Pkg == c.Pkg {
			return "global:" + x.Name()
		}
		return "global:" + x.Pkg.Pkg.Name() + "." + x.Name()
	case *ssa.Function:
		return "func:" + c.fname(x)
	case *ssa.Builtin:
		return "builtin:" + x.Name()
	case *ssa.MakeClosure:
		if fn, ok := x.Fn.(*ssa.Function); ok {
			return "closure:" + c.fname(fn)
		}
		return "closure:?"
	case *ssa.UnOp:
		switch x.Op {
		case token.MUL:
			switch a := x.X.(type) {
			case *ssa.FieldAddr:
				return fieldName(a.X.Type(), a.Field) + "(" + t.term(a.X, d+1) + ")"
			case *ssa.IndexAddr:
				if s, ok := t.canonIndexed(a.X, a.Index, d); ok {
					return s
				}
				return "idx(" + t.term(a.X, d+1) + ", " + t.term(a.Index, d+1) + ")"
			case *ssa.Global:
				return t.term(a, d+1)
			}
			if root, ok := c.cellRoot(x.X); ok {
				if a, ok := root.(*ssa.Alloc); ok {
					return "cell:" + relType(c, a.Type().(*types.Pointer).Elem()) + c.cellOrdinal(a)
				}
			}
			return "*(" + t.term(x.X, d+1) + ")"
		case token.NOT:
			return "!(" + t.term(x.X, d+1) + ")"
		case token.SUB:
			return "-(" + t.term(x.X, d+1) + ")"
		case token.ARROW:
			return "recv(" + t.term(x.X, d+1) + ")"
		}
		return x.Op.String() + "(" + t.term(x.X, d+1) + ")"
	case *ssa.Field:
		return fieldName(x.X.Type(), x.Field) + "(" + t.term(x.X, d+1) + ")"
	case *ssa.FieldAddr:
		return "&" + fieldName(x.X.Type(), x.Field) + "(" + t.term(x.X, d+1) + ")"
	case *ssa.IndexAddr:
		return "&idx(" + t.term(x.X, d+1) + ", " + t.term(x.Index, d+1) + ")"
	case *ssa.Index:
		if s, ok := t.canonIndexed(x.X, x.Index, d); ok {
			return s
		}
		return "idx(" + t.term(x.X, d+1) + ", " + t.term(x.Index, d+1) + ")"
	case *ssa.Lookup:
		return "lookup(" + t.term(x.X, d+1) + ", " + t.term(x.Index, d+1) + ")"
	case *ssa.Slice:
		if s, ok := t.canonSlice(x, d); ok {
			return s
		}
		base, lo, hi := t.term(x.X, d+1), t.term(x.Low, d+1), t.term(x.High, d+1)
		if lo == "0" {
			lo = "_" // x[0:h] ≡ x[:h]
		}
		if hi == "len("+base+")" {
			hi = "_" // x[l:len(x)] ≡ x[l:]
		}
		return "slice(" + base + ", " + lo + ", " + hi + ")"
	case *ssa.BinOp:
		// the index of `for i := range x` (hidden counter starting at -1, used as counter+1) is the same
		// quantity as the counter of `for i := 0; …; i++`: one canonical form for both
		if x.Op == token.ADD {
			if k, ok := constInt(x.Y); ok && k == 1 {
				if ph, ok := x.X.(*ssa.Phi); ok && !t.phis[ph] && isRangeIndexPhi(ph, x) {
					return "phi{(phi↺ + 1) | 0}"
				}
			}
		}
		return "(" + t.term(x.X, d+1) + " " + x.Op.String() + " " + t.term(x.Y, d+1) + ")"
	case *ssa.Call:
		cc := x.Common()
		if x.Type() != nil {
			if _, isTuple := x.Type().(*types.Tuple); !isTuple && !c.verdictByControlFlow(x) {
				if s, ok := t.inlineResult(x, 0, d); ok {
					return s
				}
			}
		}
		if cc.IsInvoke() {
			return c.calleeName(cc) + "(" + t.term(cc.Value, d+1) + "; " + t.args(cc.Args, d) + ")"
		}
		if n := c.calleeName(cc); n != "" {
			if _, isB := cc.Value.(*ssa.Builtin); isB {
				return n + "(" + t.args(cc.Args, d) + ")"
			}
			if sx, sep, ok := t.searchCall(x, d); ok {
				// strings.Index(x, "s") ≡ strings.IndexByte(x, 's') ≡ strings.IndexRune(x, 's') (ASCII)
				return "index(" + t.term(sx, d+1) + ", " + fmt.Sprintf("%q", sep) + ")"
			}
			if (n == "reflect.Indirect" || n == "(reflect.Value).Elem") && len(cc.Args) == 1 {
				if in, ok := c.resolve(cc.Args[0]).(*ssa.Call); ok && c.calleeName(in.Common()) == "reflect.New" {
					return "fresh(" + t.term(in.Call.Args[0], d+1) + ")"
				}
			}
			return "call:" + n + "(" + t.args(cc.Args, d) + ")"
		}
		return "dyncall(" + t.term(cc.Value, d+1) + "; " + t.args(cc.Args, d) + ")"
	case *ssa.Extract:
		if call, ok := x.Tuple.(*ssa.Call); ok {
			if s, ok := t.inlineResult(call, x.Index, d); ok {
				return s
			}
			// the rune cursor of a hand-written decode loop: utf8.DecodeRuneInString(s[pos:])
			if s, ok := runeCursorCall(c, call); ok {
				if x.Index == 0 {
					return "runeat(" + t.term(s, d+1) + ")"
				}
				return "runewidth(" + t.term(s, d+1) + ")"
			}
		}
		// the rune cursor of `for pos, r := range s` over a string
		if nx, ok := x.Tuple.(*ssa.Next); ok && nx.IsString {
			if rg, ok := nx.Iter.(*ssa.Range); ok {
				switch x.Index {
				case 1:
					return "runepos(" + t.term(rg.X, d+1) + ")"
				case 2:
					return "runeat(" + t.term(rg.X, d+1) + ")"
				}
			}
		}
		return t.term(x.Tuple, d+1) + "#" + fmt.Sprint(x.Index)
	case *ssa.Phi:
		if t.phis[x] {
			return "phi↺"
		}
		if s, ok := runePosPhi(c, x); ok {
			return "runepos(" + t.term(s, d+1) + ")"
		}
		t.phis[x] = true
		set := map[string]bool{}
		for _, e := range x.Edges {
			set[t.term(e, d+1)] = true
		}
		delete(t.phis, x)
		var ss []string
		for s := range set {
			ss = append(ss, s)
		}
		sort.Strings(ss)
		if len(ss) == 1 {
			return ss[0]
		}
		return "phi{" + strings.Join(ss, " | ") + "}"
	case *ssa.TypeAssert:
		return "assert[" + relType(c, x.AssertedType) + "](" + t.term(x.X, d+1) + ")"
	case *ssa.Convert:
		return "conv[" + relType(c, x.Type()) + "](" + t.term(x.X, d+1) + ")"
	case *ssa.SliceToArrayPointer:
		return "s2a(" + t.term(x.X, d+1) + ")"
	case *ssa.MakeMap:
		return "makemap[" + relType(c, x.Type()) + "]"
	case *ssa.MakeSlice:
		return "makeslice[" + relType(c, x.Type()) + "](" + t.term(x.Len, d+1) + ")"
	case *ssa.MakeChan:
		return "makechan"
	case *ssa.Range:
		return "range(" + t.term(x.X, d+1) + ")"
	case *ssa.Next:
		return "next(" + t.term(x.Iter, d+1) + ")"
	case *ssa.Select:
		return "select"
	}
	return fmt.Sprintf("?%T", v)
}

// ---- conditions ---------------------------------------------------------------

// Lit is a normalised condition: Term holds when Pos is true.
type Lit struct {
	Term string
	Pos  bool
}

func (l Lit) String() string {
	if l.Pos {
		return l.Term
	}
	return "¬" + l.Term
}
func (l Lit) Neg() Lit { return Lit{l.Term, !l.Pos} }

func isConstNil(v ssa.Value) bool {
	k, ok := v.(*ssa.Const)
	return ok && k.Value == nil
}
func constInt(v ssa.Value) (int64, bool) {
	k, ok := v.(*ssa.Const)
	if !ok || k.Value == nil {
		return 0, false
	}
	if b, ok := k.Type().Underlying().(*types.Basic); ok && b.Info()&types.IsInteger != 0 {
		return k.Int64(), true
	}
	return 0, false
}
func constStr(v ssa.Value) (string, bool) {
	k, ok := v.(*ssa.Const)
	if !ok || k.Value == nil {
		return "", false
	}
	if b, ok := k.Type().Underlying().(*types.Basic); ok && b.Info()&types.IsString != 0 {
		return constantString(k), true
	}
	return "", false
}

func isLenCall(v ssa.Value) (ssa.Value, bool) {
	call, ok := v.(*ssa.Call)
	if !ok {
		return nil, false
	}
	if b, ok := call.Call.Value.(*ssa.Builtin); ok && b.Name() == "len" {
		return call.Call.Args[0], true
	}
	return nil, false
}

// cond normalises a boolean SSA value into a literal.
// hasLit: conditions equivalent to "sep occurs in x": len(SplitN(x,sep,2)) == 2, Index(x,sep) >= 0, Contains(x,sep).
func (c *Ctx) hasLit(v ssa.Value) (Lit, bool) {
	t := &termer{c: c, phis: map[*ssa.Phi]bool{}, binding: map[*ssa.Parameter]int{}}
	mk := func(x ssa.Value, sep string, pos bool) (Lit, bool) {
		return Lit{"has(" + t.term(x, 1) + ", " + strconv.Quote(sep) + ")", pos}, true
	}
	switch x := v.(type) {
	case *ssa.Call:
		if c.calleeName(x.Common()) == "strings.Contains" {
			if s, ok := constStr(x.Call.Args[1]); ok {
				return mk(x.Call.Args[0], s, true)
			}
		}
	case *ssa.BinOp:
		a, b := c.resolve(x.X), c.resolve(x.Y)
		// len(SplitN(x,sep,2)) ==/!= 2 ; > 1 ; < 2
		for k := 0; k < 2; k++ {
			if arg, isLen := isLenCall(a); isLen {
				if sx, sep, ok := t.splitCall(arg); ok {
					if n, isN := constInt(b); isN {
						op := x.Op
						if k == 1 { // operands swapped: mirror the operator
							switch op {
							case token.LSS:
								op = token.GTR
							case token.GTR:
								op = token.LSS
							case token.LEQ:
								op = token.GEQ
							case token.GEQ:
								op = token.LEQ
							}
						}
						switch {
						case op == token.EQL && n == 2, op == token.GTR && n == 1, op == token.GEQ && n == 2, op == token.NEQ && n == 1:
							return mk(sx, sep, true)
						case op == token.NEQ && n == 2, op == token.LSS && n == 2, op == token.LEQ && n == 1, op == token.EQL && n == 1:
							return mk(sx, sep, false)
						}
					}
				}
			}
			a, b = b, a
		}
		a, b = c.resolve(x.X), c.resolve(x.Y)
		// Index(x,sep) >= 0 ; < 0 ; != -1 ; == -1 ; > -1
		if sx, sep, ok := t.searchCall(a, 1); ok {
			if n, isN := constInt(b); isN {
				switch {
				case x.Op == token.GEQ && n == 0, x.Op == token.GTR && n == -1, x.Op == token.NEQ && n == -1:
					return mk(sx, sep, true)
				case x.Op == token.LSS && n == 0, x.Op == token.EQL && n == -1, x.Op == token.LEQ && n == -1:
					return mk(sx, sep, false)
				}
			}
		}
	}
	return Lit{}, false
}

func (c *Ctx) cond(v ssa.Value) Lit {
	v = c.resolve(v)
	if l, ok := c.hasLit(v); ok {
		return l
	}
	switch x := v.(type) {
	case *ssa.Call:
		// a predicate helper that is looked through and consists of one return: its literal is the literal of
		// the returned expression, rendered in the frame of this call
		if cal := x.Common().StaticCallee(); cal != nil && c.isNew(cal) && cal.Signature.Results().Len() == 1 {
			if rets := returnsOf(cal); len(rets) == 1 && len(cal.Blocks) == 1 {
				rec := false
				for _, f := range c.frames {
					if f.Common().StaticCallee() == cal {
						rec = true
					}
				}
				if !rec {
					c.frames = append(c.frames, x)
					l := c.cond(rets[0].Results[0])
					c.frames = c.frames[:len(c.frames)-1]
					return l
				}
			}
		}
	case *ssa.UnOp:
		if x.Op == token.NOT {
			return c.cond(x.X).Neg()
		}
	case *ssa.BinOp:
		a, b := c.resolve(x.X), c.resolve(x.Y)
		switch x.Op {
		case token.EQL, token.NEQ:
			pos := x.Op == token.NEQ
			for k := 0; k < 2; k++ {
				if isConstNil(b) {
					return Lit{"nonnil(" + c.term(a) + ")", pos}
				}
				if s, ok := constStr(b); ok && s == "" {
					return Lit{"nonempty(" + c.term(a) + ")", pos}
				}
				if n, ok := constInt(b); ok && n == 0 {
					if arg, ok := isLenCall(a); ok {
						return Lit{"nonempty(" + c.term(arg) + ")", pos}
					}
					return Lit{"nonzero(" + c.term(a) + ")", pos}
				}
				if k, ok := b.(*ssa.Const); ok && k.Value != nil {
					if bb, ok := k.Type().Underlying().(*types.Basic); ok && bb.Info()&types.IsBoolean != 0 {
						l := c.cond(a)
						if constantBool(k) == pos { // x != true  / x == false  → ¬x
							return l.Neg()
						}
						return l
					}
				}
				a, b = b, a
			}
			ta, tb := c.term(a), c.term(b)
			if tb < ta {
				ta, tb = tb, ta
			}
			return Lit{"eq(" + ta + ", " + tb + ")", !pos}
		case token.LSS, token.GTR, token.LEQ, token.GEQ:
			// normalise to lt(a,b)
			op := x.Op
			if op == token.GTR { // a > b  == b < a
				a, b = b, a
				op = token.LSS
			} else if op == token.GEQ { // a >= b == !(a < b)
				return c.ltLit(a, b).Neg()
			} else if op == token.LEQ { // a <= b == !(b < a)
				return c.ltLit(b, a).Neg()
			}
			return c.ltLit(a, b)
		}
	}
	return Lit{c.term(v), true}
}

func (c *Ctx) ltLit(a, b ssa.Value) Lit {
	// 0 < len(x)  → nonempty(x);  len(x) < 1 → ¬nonempty(x)
	if n, ok := constInt(a); ok && n == 0 {
		if arg, ok := isLenCall(b); ok {
			return Lit{"nonempty(" + c.term(arg) + ")", true}
		}
	}
	if n, ok := constInt(b); ok && n == 1 {
		if arg, ok := isLenCall(a); ok {
			return Lit{"nonempty(" + c.term(arg) + ")", false}
		}
	}
	return Lit{"lt(" + c.term(a) + ", " + c.term(b) + ")", true}
}

// edgeLit returns the literal witnessed by taking successor succ of block b.
func (c *Ctx) edgeLit(b *ssa.BasicBlock, succ int) (Lit, bool) {
	if len(b.Instrs) == 0 {
		return Lit{}, false
	}
	iff, ok := b.Instrs[len(b.Instrs)-1].(*ssa.If)
	if !ok {
		return Lit{}, false
	}
	l := c.cond(iff.Cond)
	if succ == 1 {
		l = l.Neg()
	}
	return l, true
}

// instrDominates reports whether instruction a is executed before b on every
// path reaching b (same function).
func instrDominates(a, b ssa.Instruction) bool {
	ba, bb := a.Block(), b.Block()
	if ba == nil || bb == nil || ba.Parent() != bb.Parent() {
		return false
	}
	if ba == bb {
		for _, in := range ba.Instrs {
			if in == a {
				return true
			}
			if in == b {
				return false
			}
		}
		return false
	}
	return ba.Dominates(bb)
}

// storeReaches: the single store st to a variable cell is guaranteed to have
// happened before the load ld: it dominates the load, or — when the load is
// inside a closure — dominates the creation of that closure (chain).
func (c *Ctx) storeReaches(st *ssa.Store, ld ssa.Instruction) bool {
	sf := st.Parent()
	var at ssa.Instruction = ld
	for i := 0; i < 6; i++ {
		f := at.Parent()
		if f == sf {
			return instrDominates(st, at)
		}
		mc := c.closureSite[f]
		if mc == nil {
			return false
		}
		at = mc
	}
	return false
}

// ---- canonical forms of equivalent library idioms ------------------------------

// sepOf: the separator of a strings search/split call as a string constant term, and the searched string.
func (t *termer) searchCall(v ssa.Value, d int) (x ssa.Value, sep string, ok bool) {
	call, isCall := t.c.resolve(v).(*ssa.Call)
	if !isCall {
		return nil, "", false
	}
	switch t.c.calleeName(call.Common()) {
	case "strings.Index":
		if s, isS := constStr(call.Call.Args[1]); isS {
			return call.Call.Args[0], s, true
		}
	case "strings.IndexByte", "strings.IndexRune":
		if k, isK := constInt(call.Call.Args[1]); isK && k > 0 && k < 128 {
			return call.Call.Args[0], string(rune(k)), true
		}
		if k, isK := call.Call.Args[1].(*ssa.Const); isK && k.Value != nil {
			if n, ok2 := constant.Int64Val(k.Value); ok2 && n > 0 && n < 128 {
				return call.Call.Args[0], string(rune(n)), true
			}
		}
	}
	return nil, "", false
}

// splitCall: strings.SplitN(x, sep, 2) with constant sep.
func (t *termer) splitCall(v ssa.Value) (x ssa.Value, sep string, ok bool) {
	call, isCall := t.c.resolve(v).(*ssa.Call)
	if !isCall || t.c.calleeName(call.Common()) != "strings.SplitN" {
		return nil, "", false
	}
	s, isS := constStr(call.Call.Args[1])
	n, isN := constInt(call.Call.Args[2])
	if !isS || !isN || n != 2 || s == "" {
		return nil, "", false
	}
	return call.Call.Args[0], s, true
}

// canonIndexed: parts[0] / parts[1] of SplitN(x, sep, 2)  →  before(x,sep) / after(x,sep)
func (t *termer) canonIndexed(x ssa.Value, idx ssa.Value, d int) (string, bool) {
	sx, sep, ok := t.splitCall(x)
	if !ok {
		return "", false
	}
	k, isK := constInt(idx)
	if !isK {
		return "", false
	}
	switch k {
	case 0:
		return "before(" + t.term(sx, d+1) + ", " + strconv.Quote(sep) + ")", true
	case 1:
		return "after(" + t.term(sx, d+1) + ", " + strconv.Quote(sep) + ")", true
	}
	return "", false
}

// canonSlice: x[:Index(x,sep)] → before(x,sep);  x[Index(x,sep)+len(sep):] → after(x,sep)
func (t *termer) canonSlice(s *ssa.Slice, d int) (string, bool) {
	if s.Low == nil && s.High != nil {
		if sx, sep, ok := t.searchCall(s.High, d); ok && t.term(sx, d+1) == t.term(s.X, d+1) {
			return "before(" + t.term(s.X, d+1) + ", " + strconv.Quote(sep) + ")", true
		}
	}
	if s.High == nil && s.Low != nil {
		if bo, ok := t.c.resolve(s.Low).(*ssa.BinOp); ok && bo.Op == token.ADD {
			if k, isK := constInt(bo.Y); isK {
				if sx, sep, ok := t.searchCall(bo.X, d); ok && int(k) == len(sep) && t.term(sx, d+1) == t.term(s.X, d+1) {
					return "after(" + t.term(s.X, d+1) + ", " + strconv.Quote(sep) + ")", true
				}
			}
		}
	}
	return "", false
}

func isZeroConst(v ssa.Value) bool {
	k, ok := v.(*ssa.Const)
	if !ok {
		return false
	}
	if k.Value == nil {
		return true
	}
	switch k.Value.Kind() {
	case constant.String:
		return constant.StringVal(k.Value) == ""
	case constant.Int:
		n, ok := constant.Int64Val(k.Value)
		return ok && n == 0
	case constant.Bool:
		return !constant.BoolVal(k.Value)
	}
	return false
}

// surelyNonNilError: an error interface built from a typed value (never == nil).
func (c *Ctx) surelyNonNilError(v ssa.Value, at *ssa.Return) bool {
	if _, ok := v.(*ssa.MakeInterface); ok {
		return true
	}
	// or the return is reached only after `v != nil` was tested true
	for _, f := range c.domFacts(at.Block()) {
		if f.Alts != nil {
			continue
		}
		bo, ok := f.Cond.(*ssa.BinOp)
		if !ok || (bo.Op != token.EQL && bo.Op != token.NEQ) {
			continue
		}
		if (isConstNil(bo.Y) && bo.X == v || isConstNil(bo.X) && bo.Y == v) && (bo.Op == token.NEQ) == f.Pos {
			return true
		}
	}
	return false
}

// valueUsedOnlyOnSuccess: every use of result #idx of call lies where the call's error result is known nil.
func (c *Ctx) valueUsedOnlyOnSuccess(call *ssa.Call, idx int) bool {
	refs := call.Referrers()
	if refs == nil {
		return false
	}
	var val, errv *ssa.Extract
	last := call.Type().(*types.Tuple).Len() - 1
	for _, r := range *refs {
		if e, ok := r.(*ssa.Extract); ok {
			if e.Index == idx {
				val = e
			}
			if e.Index == last {
				errv = e
			}
		}
	}
	if val == nil || errv == nil || val.Referrers() == nil {
		return false
	}
	okAt := func(b *ssa.BasicBlock) bool {
		for _, f := range c.domFacts(b) {
			if f.Alts != nil {
				continue
			}
			bo, ok := f.Cond.(*ssa.BinOp)
			if !ok || (bo.Op != token.EQL && bo.Op != token.NEQ) {
				continue
			}
			var x ssa.Value
			if isConstNil(bo.Y) {
				x = bo.X
			} else if isConstNil(bo.X) {
				x = bo.Y
			}
			if x != ssa.Value(errv) {
				continue
			}
			// fact: (err == nil) holds
			if (bo.Op == token.EQL) == f.Pos {
				return true
			}
		}
		return false
	}
	n := 0
	for _, r := range *val.Referrers() {
		switch x := r.(type) {
		case *ssa.DebugRef:
			continue
		case *ssa.Phi:
			for i, e := range x.Edges {
				if e == ssa.Value(val) && !okAt(x.Block().Preds[i]) {
					// the edge itself may be the success edge of the test
					pred := x.Block().Preds[i]
					if l, ok := c.edgeLitTo(pred, x.Block()); !(ok && !l.Pos && l.Term == "nonnil("+c.term(errv)+")") {
						return false
					}
				}
			}
			n++
		default:
			if !okAt(r.Block()) {
				return false
			}
			n++
		}
	}
	return n > 0
}

// runePosPhi: p is the byte position of a hand-written rune loop over string s:
// p = 0 on entry and p + width(DecodeRuneInString(s[p:])) on every back edge.
func runePosPhi(c *Ctx, p *ssa.Phi) (ssa.Value, bool) {
	if bt, ok := p.Type().Underlying().(*types.Basic); !ok || bt.Info()&types.IsInteger == 0 {
		return nil, false
	}
	var s ssa.Value
	nBack := 0
	for i, e := range p.Edges {
		pred := p.Block().Preds[i]
		if !p.Block().Dominates(pred) {
			if k, ok := constInt(e); !ok || k != 0 {
				return nil, false
			}
			continue
		}
		bo, ok := e.(*ssa.BinOp)
		if !ok || bo.Op != token.ADD || bo.X != ssa.Value(p) {
			return nil, false
		}
		ex, ok := bo.Y.(*ssa.Extract)
		if !ok || ex.Index != 1 {
			return nil, false
		}
		call, ok := ex.Tuple.(*ssa.Call)
		if !ok {
			return nil, false
		}
		str, pos, ok := decodeAt(c, call)
		if !ok || pos != ssa.Value(p) {
			return nil, false
		}
		if s != nil && s != str {
			return nil, false
		}
		s = str
		nBack++
	}
	return s, s != nil && nBack > 0
}

// decodeAt: call is utf8.DecodeRuneInString(str[pos:]).
func decodeAt(c *Ctx, call *ssa.Call) (str, pos ssa.Value, ok bool) {
	if c.calleeName(call.Common()) != "unicode/utf8.DecodeRuneInString" || len(call.Call.Args) != 1 {
		return nil, nil, false
	}
	sl, isSl := call.Call.Args[0].(*ssa.Slice)
	if !isSl || sl.Low == nil || sl.High != nil {
		return nil, nil, false
	}
	return sl.X, sl.Low, true
}

// runeCursorCall: call decodes the rune at the position of a hand-written rune loop over the returned string.
func runeCursorCall(c *Ctx, call *ssa.Call) (ssa.Value, bool) {
	str, pos, ok := decodeAt(c, call)
	if !ok {
		return nil, false
	}
	p, isPhi := pos.(*ssa.Phi)
	if !isPhi {
		return nil, false
	}
	s, ok := runePosPhi(c, p)
	if !ok || s != str {
		return nil, false
	}
	return s, true
}

// isRangeIndexPhi: ph is the hidden counter of a range loop: -1 on entry, inc (= ph + 1) on every back edge.
func isRangeIndexPhi(ph *ssa.Phi, inc *ssa.BinOp) bool {
	nBack := 0
	for i, e := range ph.Edges {
		pred := ph.Block().Preds[i]
		if ph.Block().Dominates(pred) {
			if e != ssa.Value(inc) {
				return false
			}
			nBack++
			continue
		}
		if k, ok := constInt(e); !ok || k != -1 {
			return false
		}
	}
	return nBack > 0
}

// cellOrdinal distinguishes the address-taken locals of one function that have the same type: the first
// (in block/instruction order) carries no suffix, the k-th carries "#k". Without it two same-typed
// variables (names / reqnames) would be one term.
func (c *Ctx) cellOrdinal(a *ssa.Alloc) string {
	if c.cellOrd == nil {
		c.cellOrd = map[*ssa.Alloc]int{}
	}
	if k, ok := c.cellOrd[a]; ok {
		if k <= 1 {
			return ""
		}
		return fmt.Sprintf("#%d", k)
	}
	fn := a.Parent()
	count := map[string]int{}
	for _, b := range fn.Blocks {
		for _, in := range b.Instrs {
			al, ok := in.(*ssa.Alloc)
			if !ok {
				continue
			}
			pt, ok := al.Type().(*types.Pointer)
			if !ok || al.Referrers() == nil {
				continue
			}
			isCell := false // a variable read as a whole or captured, not a literal's temporary
			for _, ref := range *al.Referrers() {
				switch u := ref.(type) {
				case *ssa.UnOp:
					isCell = isCell || u.Op == token.MUL
				case *ssa.MakeClosure:
					isCell = true
				}
			}
			if !isCell {
				continue
			}
			key := types.TypeString(pt.Elem(), nil)
			count[key]++
			c.cellOrd[al] = count[key]
		}
	}
	if k := c.cellOrd[a]; k > 1 {
		return fmt.Sprintf("#%d", k)
	}
	return ""
}

// verdictByControlFlow: the call is to a looked-through predicate whose returns are all boolean constants (its
// answer is decided by its control flow: `switch k { case A: return true }; return false`). Inlining its result
// would give the uninformative phi{true | false}; the call itself is kept as the term.
func (c *Ctx) verdictByControlFlow(call *ssa.Call) bool {
	cal := call.Common().StaticCallee()
	if cal == nil || !c.isNew(cal) || cal.Signature.Results().Len() != 1 {
		return false
	}
	if bt, ok := cal.Signature.Results().At(0).Type().Underlying().(*types.Basic); !ok || bt.Info()&types.IsBoolean == 0 {
		return false
	}
	rets := returnsOf(cal)
	if len(rets) < 2 {
		return false
	}
	for _, ret := range rets {
		if _, isC := ret.Results[0].(*ssa.Const); !isC {
			return false
		}
	}
	return true
}

// pname: the name under which parameter i of fn appears in terms. Positions are those of the pinned signature:
// when a pinned function's parameter list was changed (a parameter dropped, added or moved), a parameter that
// kept its name keeps its pinned position, and any other gets a position no rule is written over.
func (c *Ctx) pname(fn *ssa.Function, i int) string {
	if c.pnames == nil {
		c.pnames = map[*ssa.Function][]string{}
	}
	if ns, ok := c.pnames[fn]; ok {
		if i < len(ns) {
			return ns[i]
		}
		return fmt.Sprintf("P%d", i)
	}
	ns := make([]string, len(fn.Params))
	for k := range ns {
		ns[k] = fmt.Sprintf("P%d", k)
	}
	if pinned, ok := pinnedParamNames(c.fname(fn), fn.Signature.Recv() != nil); ok {
		cur := make([]string, len(fn.Params))
		for k, p := range fn.Params {
			cur[k] = p.Name()
		}
		// the parameter list is unchanged when it has the pinned types in the pinned order (names may differ: a
		// renamed parameter keeps its position)
		ptypes := pinnedParamTypes(c.fname(fn), fn.Signature.Recv() != nil)
		same := len(ptypes) == len(fn.Params)
		for k, p := range fn.Params {
			if !same {
				break
			}
			if k == 0 && fn.Signature.Recv() != nil {
				continue
			}
			if relType(c, p.Type()) != ptypes[k] {
				same = false
			}
		}
		if !same {
			for k := range cur {
				if k == 0 && fn.Signature.Recv() != nil {
					continue // the receiver
				}
				ns[k] = fmt.Sprintf("P%d", 50+k)
				for j, pn := range pinned {
					if pn != "" && pn == cur[k] && !(j == 0 && fn.Signature.Recv() != nil) {
						ns[k] = fmt.Sprintf("P%d", j)
					}
				}
			}
		}
	}
	c.pnames[fn] = ns
	return ns[i]
}

// pinnedParamNames: the parameter names of the pinned signature of the named function (index 0 is the receiver
// for methods, with an empty name).
func pinnedParamNames(name string, method bool) ([]string, bool) {
	sig, ok := knownSigs[name]
	if !ok {
		return nil, false
	}
	i := strings.Index(sig, "func(")
	if i < 0 {
		return nil, false
	}
	rest := sig[i+len("func("):]
	depth, end := 0, -1
	for k, ch := range rest {
		switch ch {
		case '(', '[', '{':
			depth++
		case ')', ']', '}':
			if depth == 0 {
				end = k
			}
			depth--
		}
		if end >= 0 {
			break
		}
	}
	if end < 0 {
		return nil, false
	}
	var names []string
	if method {
		names = append(names, "")
	}
	list := rest[:end]
	if strings.TrimSpace(list) == "" {
		return names, true
	}
	depth = 0
	start := 0
	var items []string
	for k, ch := range list {
		switch ch {
		case '(', '[', '{':
			depth++
		case ')', ']', '}':
			depth--
		case ',':
			if depth == 0 {
				items = append(items, strings.TrimSpace(list[start:k]))
				start = k + 1
			}
		}
	}
	items = append(items, strings.TrimSpace(list[start:]))
	for _, it := range items {
		n := ""
		pinnedTypeOf[name] = append(pinnedTypeOf[name], it)
		if sp := strings.IndexByte(it, ' '); sp > 0 {
			cand := it[:sp]
			isIdent := cand != "func" && cand != "map" && cand != "chan" && cand != "struct" && cand != "interface"
			for _, ch := range cand {
				if !(ch == '_' || ch >= 'a' && ch <= 'z' || ch >= 'A' && ch <= 'Z' || ch >= '0' && ch <= '9') {
					isIdent = false
				}
			}
			if isIdent {
				n = cand
				tl := pinnedTypeOf[name]
				tl[len(tl)-1] = strings.TrimSpace(it[sp+1:])
			}
		}
		names = append(names, n)
	}
	return names, true
}

// pinnedTypeOf: parameter types (as written in knownSigs) per function, filled by pinnedParamNames.
var pinnedTypeOf = map[string][]string{}

// pinnedParamTypes: the pinned parameter types, index 0 being the receiver slot for methods.
func pinnedParamTypes(name string, method bool) []string {
	delete(pinnedTypeOf, name)
	if _, ok := pinnedParamNames(name, method); !ok {
		return nil
	}
	var out []string
	if method {
		out = append(out, "")
	}
	for _, t := range pinnedTypeOf[name] {
		if strings.HasPrefix(t, "...") {
			t = "[]" + t[3:]
		}
		out = append(out, t)
	}
	return out
}
