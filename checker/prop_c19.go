package main

import (
	"fmt"
	"go/ast"
	"go/token"
	"regexp"
	"sort"
	"strings"

	"golang.org/x/tools/go/ssa"
)

func init() {
	register(&Property{
		Meta: PropMeta{
			ID:          "C19",
			Level:       "other",
			Explanation: "Structural necessary conditions of 'declarations are read faithfully or rejected at setup', decided on the SSA of /repo for all paths: (NP) the no-panic prover over every function reachable from NewParser/NewNamedParser/AddGroup/AddCommand/AddOption, including the tag scanner; (ERRS) every error returned by the tag scanner, the struct scan, its handlers and the duplicate check is a typed constructor result of the documented ErrorTypes or a propagated such error, and no error result on the setup path is dropped (two allow-listed sites); Parser.internalError is stored only by NewParser; (KEYS) every tag key listed under 'Available field tags' in the package comment (parsed on every run) is read by a multiTag.Get/GetMany call, and every key read is documented or in a two-entry internal table; (MODEL) each field of the Option, Group, Command and Arg built from a declaration takes its value from the tag key the documentation names for it, multi-valued keys through GetMany, and Option.value / Option.field / Arg.value come from the same struct field index; (CHECKS) the short-name check counts characters, the boolean-default check is guarded by isBool() ∧ Default != nil and precedes registration, scanType cannot return nil without the duplicate check, the duplicate maps are keyed by the namespaced long name and the short rune over all nested groups, and a recorded duplicate error is never overwritten; (SETTABLE) every reflect.Value stored as Option.value or Arg.value by the scans is a field of an addressable struct guarded by the exported-field test; (TAGSCAN) in the tag scanner a backslash unconditionally skips the following byte, values accumulate by append in order and Get returns the last.",
			NotDecided:  "that the hand-written tag scanner accepts exactly Go's conventional tag syntax (a language-equivalence question; only its escape skip, accumulation and panic-freedom are checked); options registered through AddOption (programmer-supplied reflect.Value — known finding).",
			Trusted:     []string{"go/ssa lowering", "go/types", "reflect contracts", "the package comment of flags.go as the documentation of tag keys"},
		},
		Run:      runC19,
		Controls: []string{"np-index", "np-kind", "path-req", "path-cd"},
	})
}

func setupRoots(c *Ctx, r *Report) []*ssa.Function {
	var roots []*ssa.Function
	for _, n := range []string{"NewParser", "NewNamedParser", "(*Group).AddGroup", "(*Command).AddGroup", "(*Command).AddCommand", "(*Group).AddOption", "(*multiTag).scan", "(*multiTag).Parse"} {
		if f := c.mustFn(r, n); f != nil {
			roots = append(roots, f)
		}
	}
	return roots
}

func runC19(c *Ctx, r *Report, tier string) {
	r.Rule("NP", "no instruction reachable from the setup entry points can raise a run-time panic (discharged or allow-listed with a reason)", 40)
	r.Rule("ERRS", "setup errors are typed constructor results of the documented types or propagated; no error result is dropped; internalError stored only by NewParser", 8)
	r.Rule("KEYS", "every documented tag key is read; every key read is documented or internal", 20)
	r.Rule("MODEL", "each model field takes its value from the documented tag key; value/field/tag of an option come from the same struct field", 25)
	r.Rule("NOFLAG", "option construction, nested scans and the handler call in the field loop are REQ(no-flag tag == \"\")", 4)
	r.Rule("CHECKS", "short-name length in characters; boolean default guard and placement; duplicate check on every successful scan, keyed by namespaced names over nested groups; duplicate error never overwritten", 6)
	r.Rule("SETTABLE", "reflect values stored as Option.value / Arg.value are fields of an addressable struct guarded by the exported-field test", 2)
	r.Rule("TAGSCAN", "escape skip is unconditional; values accumulate by append; Get returns the last", 3)

	roots := setupRoots(c, r)
	scope, _ := c.reach(roots, nil)
	r.Extra["scope"] = c.names(scope)
	allow := append(append([]*npAllow{}, parseAllow...), &npAllow{Func: "NewParser", Construct: "index global:os.Args[0]", Max: 1, Reason: "os.Args holds at least the program name in every hosted Go program (execve convention; an empty argv is outside the property's quantifier over declarations)"})
	c.runNP(r, "NP", scope, allow)

	ss := c.mustFn(r, "(*Group).scanStruct")
	st := c.mustFn(r, "(*Group).scanType")
	scan := c.mustFn(r, "(*multiTag).scan")
	dup := c.mustFn(r, "(*Group).checkForDuplicateFlags")
	if ss == nil || st == nil || scan == nil || dup == nil {
		return
	}

	// ---- ERRS
	okTypes := map[string]bool{"ErrTag": true, "ErrShortNameTooLong": true, "ErrInvalidTag": true, "ErrDuplicatedFlag": true}
	var errFns []*ssa.Function
	for _, n := range []string{"(*multiTag).scan", "(*multiTag).Parse", "(*Group).scanStruct", "(*Group).scanSubGroupHandler", "(*Command).scanSubcommandHandler$1",
		"(*Group).checkForDuplicateFlags", "(*Group).scanType", "(*Group).scan", "(*Command).scan", "(*Group).AddGroup", "(*Command).AddGroup", "(*Command).AddCommand"} {
		if fn := c.mustFn(r, n); fn != nil {
			errFns = append(errFns, fn)
		}
	}
	sortFns(c, errFns)
	for _, fn := range errFns {
		fname := c.fname(fn)
		if fname == "newError" || fname == "newErrorf" {
			continue
		}
		for _, ret := range returnsOf(fn) {
			e := ret.Results[len(ret.Results)-1]
			out := map[string]bool{}
			c.setupErrOrigins(e, map[*ssa.Function]bool{fn: true}, map[ssa.Value]bool{}, out)
			var bad []string
			for o := range out {
				if o == "nil" || o == "user" {
					continue
				}
				if strings.HasPrefix(o, "typed:") {
					for _, t := range strings.Split(strings.TrimPrefix(o, "typed:"), "|") {
						if !okTypes[t] {
							bad = append(bad, "type "+t)
						}
					}
					continue
				}
				bad = append(bad, o)
			}
			sort.Strings(bad)
			r.Check(len(bad) == 0, "ERRS", fname, "returned error", c.ipos(ret), "origins: "+strings.Join(sortedKeys(out), ", "), "setup error of undocumented origin/type: "+strings.Join(bad, ", "))
		}
	}
	// dropped errors
	for fn := range scope {
		for _, b := range c.blocks(fn) {
			for _, in := range b.Instrs {
				ci, ok := in.(ssa.CallInstruction)
				if !ok {
					continue
				}
				cal := ci.Common().StaticCallee()
				if cal == nil || !scope[cal] {
					continue
				}
				res := cal.Signature.Results()
				if res.Len() == 0 {
					continue
				}
				last := res.At(res.Len() - 1).Type()
				if !isErrorType(last) && typeName(last) != "Error" {
					continue
				}
				used := false
				v := ci.Value()
				if v != nil && v.Referrers() != nil {
					for _, ref := range *v.Referrers() {
						if res.Len() == 1 {
							if _, isDbg := ref.(*ssa.DebugRef); !isDbg {
								used = true
							}
						} else if e, isE := ref.(*ssa.Extract); isE && e.Index == res.Len()-1 {
							if e.Referrers() != nil && len(*e.Referrers()) > 0 {
								used = true
							}
						}
					}
				}
				fname := c.fname(fn)
				what := "error result of " + c.fname(cal)
				if used {
					r.OK("ERRS", fname, what+" is consumed", c.ipos(in), "tested / returned / stored")
					continue
				}
				switch {
				case fname == "(*Command).addHelpGroup":
					r.Allow("ERRS", fname, what+" is dropped", c.ipos(in), "the scanned struct is the local literal `help` with one fixed, well-formed tag: AddGroup cannot fail")
				case fname == "(*multiTag).cached":
					r.Allow("ERRS", fname, what+" is dropped", c.ipos(in), "cached() is reached after Parse() already reported the scanner's error to the struct scan; a failed re-scan yields an empty cache")
				default:
					r.Fail("ERRS", fname, what+" is dropped", c.ipos(in), "an error from the setup path is discarded")
				}
			}
		}
	}
	ie := c.mustField(r, "Parser", "internalError")
	for _, s := range c.storesTo(ie) {
		r.Check(c.fname(s.Fn) == "NewParser", "ERRS", c.fname(s.Fn), "store Parser.internalError", c.ipos(s.Store), "only NewParser records the declaration error", "internalError stored in "+c.fname(s.Fn))
	}

	// a malformed tag is rejected wherever a tag is read: every multiTag built during the scan is Parse()d —
	// its error returned — before anything is read from it (Get alone scans lazily and swallows the error)
	for fn := range scope {
		for _, in := range c.instrs(fn, c.isCallTo("newMultiTag")) {
			if in.Parent() != fn {
				continue
			}
			mk := in.(*ssa.Call)
			// the variable the tag lives in
			var cell ssa.Value
			if mk.Referrers() != nil {
				for _, ref := range *mk.Referrers() {
					if st, ok := ref.(*ssa.Store); ok && st.Val == ssa.Value(mk) {
						cell, _ = c.cellRoot(st.Addr)
					}
				}
			}
			if cell == nil {
				continue
			}
			onCell := func(x ssa.Instruction, names ...string) bool {
				ci, ok := x.(ssa.CallInstruction)
				if !ok || len(ci.Common().Args) == 0 {
					return false
				}
				n := c.calleeName(ci.Common())
				hit := false
				for _, nm := range names {
					if n == nm {
						hit = true
					}
				}
				if !hit {
					return false
				}
				root, _ := c.cellRoot(ci.Common().Args[0])
				return root == cell
			}
			isParse := func(x ssa.Instruction) bool { return onCell(x, "(*multiTag).Parse") }
			for _, g := range c.instrs(fn, func(x ssa.Instruction) bool { return onCell(x, "(*multiTag).Get", "(*multiTag).GetMany") }) {
				if g.Parent() != fn {
					continue
				}
				_, ok := c.MustPass(fn, isInstr(g), isParse, nil, nil)
				r.Check(ok, "ERRS", c.fname(fn), "tag parsed (and its error returned) before it is read", c.ipos(g), "MPT(Get; via Parse of the same tag)", "a tag is read without an explicit Parse: a malformed struct tag is silently read as empty instead of ErrTag")
			}
		}
	}
	// ---- KEYS
	documented := c.documentedTagKeys(r)
	read := map[string][]string{}
	c.eachInstr(func(fn *ssa.Function, in ssa.Instruction) {
		call, ok := in.(*ssa.Call)
		if !ok {
			return
		}
		n := c.calleeName(call.Common())
		if n != "(*multiTag).Get" && n != "(*multiTag).GetMany" {
			return
		}
		if k, ok := constStr(call.Call.Args[1]); ok {
			read[k] = append(read[k], n)
		} else if keys, ok := c.constArgsOfParam(call.Call.Args[1]); ok {
			// the key is a parameter of a local helper: every call of the helper passes a constant
			for _, k := range keys {
				read[k] = append(read[k], n)
			}
		} else if elems, ok := constArrayElems(c, call.Call.Args[1]); ok {
			// the key ranges over a local table of constants
			for _, e := range elems {
				read[strings.Trim(e, `"`)] = append(read[strings.Trim(e, `"`)], n)
			}
		} else {
			r.Undec("KEYS", c.fname(fn), "tag key argument", c.ipos(in), "non-constant key "+c.term(call.Call.Args[1]))
		}
	})
	internal := map[string]string{
		"_read-ini-name": "set by the INI reader to remember the spelling used in the file",
		"unquote":        "undocumented switch consulted by parseOption",
		"no-flag":        "documented in the README only: field is ignored",
	}
	var dk []string
	for k := range documented {
		dk = append(dk, k)
	}
	sort.Strings(dk)
	for _, k := range dk {
		r.Check(len(read[k]) > 0, "KEYS", "package doc", "documented key "+k+" is read", "flags.go", "read by "+strings.Join(dedup(read[k]), ", "), "the documented tag key `"+k+"` is never read")
	}
	var rk []string
	for k := range read {
		rk = append(rk, k)
	}
	sort.Strings(rk)
	for _, k := range rk {
		if documented[k] {
			continue
		}
		if why, ok := internal[k]; ok {
			r.Allow("KEYS", "package doc", "undocumented key "+k, "flags.go", why)
		} else {
			r.Fail("KEYS", "package doc", "undocumented key "+k, "flags.go", "a tag key is read that the package documentation does not list")
		}
	}
	// NOFLAG: a field carrying a non-empty no-flag tag contributes nothing: no option, no nested scan, no handler call
	{
		noflag := litIs("nonempty(call:(*multiTag).Get(new:multiTag, \"no-flag\"))", false)
		nT := 0
		loops := c.loopsDeep(ss)
		for _, in := range c.instrs(ss, func(x ssa.Instruction) bool {
			switch v := x.(type) {
			case *ssa.Alloc:
				return relType(c, v.Type()) == "*Option"
			case ssa.CallInstruction:
				if c.calleeName(v.Common()) == "(*Group).scanStruct" {
					return true
				}
				if v.Common().StaticCallee() == nil && !v.Common().IsInvoke() { // the handler
					for _, l := range loops {
						if l.Blocks[x.Block()] {
							return true
						}
					}
				}
			}
			return false
		}) {
			nT++
			c.reqRule(r, "NOFLAG", ss, in, "a no-flag field is skipped before anything is declared from it", noflag, "no-flag tag is empty", nil)
		}
		r.Check(nT >= 3, "NOFLAG", c.fname(ss), "declaration sites found", c.pos(ss.Pos()), "≥ 3 (option construction, nested scans, handler)", fmt.Sprintf("%d", nT))
	}
	multi := map[string]bool{"default": true, "optional-value": true, "choice": true, "alias": true}
	for k := range multi {
		okM := len(read[k]) > 0
		for _, n := range read[k] {
			if n != "(*multiTag).GetMany" {
				okM = false
			}
		}
		r.Check(okM, "KEYS", "package doc", "multi-valued key "+k+" read with GetMany", "flags.go", "all reads use GetMany", "a repeatable key is read with Get (only the last value survives)")
	}

	// ---- MODEL
	c.modelRules(r, ss)

	// ---- CHECKS
	sn := c.fname(ss)
	for _, in := range c.instrs(ss, c.isCallTo("newErrorf")) {
		call := in.(*ssa.Call)
		switch c.term(call.Call.Args[0]) {
		case "ErrShortNameTooLong":
			// at the failure site the character count of the short tag is provably ≥ 2
			// (whatever form the test takes: `rc > 1`, a switch on the count, a helper, …)
			ok := false
			for _, cnt := range c.instrs(ss, c.isCallTo("unicode/utf8.RuneCountInString")) {
				cv := cnt.(*ssa.Call)
				if c.term(cv.Call.Args[0]) != `call:(*multiTag).Get(new:multiTag, "short")` {
					continue
				}
				if c.npProve(in, c.newFacts(in.Parent()), func(n *npCtx) bool { return n.provesLe(lin{"", 2}, n.linOf(cv)) }) {
					ok = true
				}
			}
			r.Check(ok, "CHECKS", sn, "short name too long REQ(character count > 1)", c.ipos(in), "RuneCountInString(short) ≥ 2 follows from the dominating branch conditions", "the short-name check does not count characters of the short tag")
		case "ErrInvalidTag":
			_, a := c.Requires(ss, isInstr(in), litHas(true, "call:(*Option).isBool(new:Option)"), nil)
			_, b := c.Requires(ss, isInstr(in), litHas(true, "nonnil(Option.Default(new:Option))"), nil)
			r.Check(a && b, "CHECKS", sn, "boolean default REQ(isBool() ∧ Default != nil)", c.ipos(in), "both edges necessary", fmt.Sprintf("isBool necessary=%v, Default!=nil necessary=%v", a, b))
		}
	}
	// the bool-default test precedes registration (append to Group.options)
	optsF := c.mustField(r, "Group", "options")
	for _, s := range c.storesTo(optsF) {
		if !c.actsFor(s.Fn, ss) {
			continue
		}
		_, ok := c.MustPass(ss, isInstr(s.Store), c.isCallTo("(*Option).isBool"), nil, nil)
		r.Check(ok, "CHECKS", sn, "registration after the boolean-default test", c.ipos(s.Store), "every path to g.options = append(...) passes isBool()", "an option can be registered without the boolean-default test")
	}
	for _, ret := range returnsOf(st) {
		if !isConstNil(c.resolve(ret.Results[0])) {
			if strings.HasPrefix(c.term(ret.Results[0]), "call:(*Group).checkForDuplicateFlags(") {
				r.OK("CHECKS", c.fname(st), "scanType's result is the duplicate check's", c.ipos(ret), "return g.checkForDuplicateFlags()")
			}
			continue
		}
		c.mptRule(r, "CHECKS", st, ret, "scanType returns nil only after the duplicate check", c.isCallTo("(*Group).checkForDuplicateFlags"), "call checkForDuplicateFlags", nil)
	}
	var dupCl *ssa.Function
	for _, in := range c.instrs(dup, c.isCallTo("(*Group).eachGroup")) {
		for _, f := range closureArgs(in.(ssa.CallInstruction)) {
			dupCl = f
		}
	}
	if dupCl == nil {
		// the walk over the nested groups written out as a local recursive closure
		dupCl = localGroupWalk(c, dup)
	}
	if dupCl == nil {
		r.Fail("CHECKS", c.fname(dup), "duplicate scan", "", "checkForDuplicateFlags does not iterate eachGroup with a closure (nested groups are not covered)")
	} else {
		dn := c.fname(dupCl)
		var keys []string
		for _, b := range c.blocks(dupCl) {
			for _, in := range b.Instrs {
				if mu, ok := in.(*ssa.MapUpdate); ok {
					keys = append(keys, c.term(mu.Key))
				}
			}
		}
		sort.Strings(keys)
		want := "Option.ShortName(idx(Group.options(P0)"
		okK := len(keys) == 2 && strings.HasPrefix(keys[0], want) && strings.HasPrefix(keys[1], "call:(*Option).LongNameWithNamespace(idx(Group.options(P0)")
		r.Check(okK, "CHECKS", dn, "duplicate maps keyed by namespaced long name and short rune", c.pos(dupCl.Pos()), "keys: "+strings.Join(keys, " ; "), "duplicate maps are keyed by "+strings.Join(keys, " ; "))
		// stores to the captured error: constructor results only
		okS, nS := true, 0
		for _, b := range c.blocks(dupCl) {
			for _, in := range b.Instrs {
				if stI, ok := in.(*ssa.Store); ok {
					if _, isFV := stI.Addr.(*ssa.FreeVar); isFV {
						for _, o := range c.originsOf(stI.Val, stI) {
							switch {
							case strings.HasPrefix(o.Term, "call:newErrorf(ErrDuplicatedFlag"):
								nS++
							case isConstNil(o.Val):
								// a helper's "no duplicate" answer: never stored when the store requires a non-nil value
								if _, req := c.Requires(dupCl, isInstr(stI), litIs("nonnil("+c.term(stI.Val)+")", true), nil); !req {
									okS = false
								}
							default:
								okS = false
							}
						}
					}
				}
			}
		}
		r.Check(okS && nS >= 2, "CHECKS", dn, "recorded duplicate error is a constructor result", c.pos(dupCl.Pos()), fmt.Sprintf("%d stores, each newErrorf(ErrDuplicatedFlag, …)", nS), "the recorded duplicate error can be overwritten by a value that is not a fresh ErrDuplicatedFlag error")
	}

	// ---- SETTABLE
	for _, fld := range []struct{ t, f, fn string }{{"Option", "value", "(*Group).scanStruct"}, {"Arg", "value", "(*Command).scanSubcommandHandler$1"}} {
		fo := c.mustField(r, fld.t, fld.f)
		for _, s := range c.storesTo(fo) {
			fname := c.fname(s.Fn)
			t := c.term(s.Store.Val)
			what := "store " + fld.t + "." + fld.f
			if fname == "(*Group).AddOption" {
				r.Fail("SETTABLE", fname, what, c.ipos(s.Store), "AddOption stores reflect.ValueOf(data): a pointer value that is not settable, so any later Set/empty on the option panics")
				continue
			}
			isField := strings.HasPrefix(t, "call:(reflect.Value).Field(P")
			_, exported := c.Requires(s.Fn, isInstr(s.Store), anyLit(litHas(false, "nonempty(StructField.PkgPath("), litHas(true, "StructField.Anonymous(")), nil)
			r.Check(isField && exported && fname == fld.fn, "SETTABLE", fname, what, c.ipos(s.Store), "value is realval.Field(i) and the store is reachable only for exported (or embedded) fields: PkgPath == \"\" ∨ Anonymous", fmt.Sprintf("value=%s exported-field guard necessary=%v", trunc(t, 80), exported))
		}
	}

	// ---- TAGSCAN
	scn := c.fname(scan)
	nEsc := 0
	for _, b := range c.blocks(scan) {
		iff, ok := b.Instrs[len(b.Instrs)-1].(*ssa.If)
		if !ok {
			continue
		}
		l := c.cond(iff.Cond)
		if !strings.HasPrefix(l.Term, "eq(92, idx(") {
			continue
		}
		nEsc++
		// the escape branch: its successor on `== '\\'` must be control dependent only on loop conditions and this test
		tgt := b.Succs[0]
		if !l.Pos {
			tgt = b.Succs[1]
		}
		var bad []string
		base := map[CtlDep]bool{}
		for _, d := range c.controlDeps(scan, b) {
			base[d] = true
		}
		for _, d := range c.controlDeps(scan, tgt) {
			if base[d] || d.B == b {
				continue
			}
			if dl, ok := c.edgeLit(d.B, d.Succ); ok {
				bad = append(bad, dl.String())
			}
		}
		// and it is a plain increment block
		incs := 0
		for _, in := range tgt.Instrs {
			if bo, ok := in.(*ssa.BinOp); ok && bo.Op.String() == "+" {
				incs++
			}
		}
		_, hasIf := tgt.Instrs[len(tgt.Instrs)-1].(*ssa.If)
		r.Check(len(bad) == 0 && incs == 1 && !hasIf, "TAGSCAN", scn, "backslash skips the next byte unconditionally", c.ipos(iff), "the escape increment depends only on the backslash test", "the escape skip is conditional: "+strings.Join(bad, "; ")+fmt.Sprintf(" (increments=%d, further test=%v)", incs, hasIf))
	}
	r.Check(nEsc == 1, "TAGSCAN", scn, "escape test", c.pos(scan.Pos()), "one backslash test in the value scan", fmt.Sprintf("%d backslash tests", nEsc))
	okAcc := false
	for _, b := range c.blocks(scan) {
		for _, in := range b.Instrs {
			if mu, ok := in.(*ssa.MapUpdate); ok {
				t := c.term(mu.Value)
				if strings.HasPrefix(t, "append(lookup(makemap[map[string][]string], ") {
					okAcc = true
				}
			}
		}
	}
	r.Check(okAcc, "TAGSCAN", scn, "repeated keys accumulate in order", c.pos(scan.Pos()), "ret[name] = append(ret[name], value)", "values of a repeated key do not accumulate by append")
	if g := c.mustFn(r, "(*multiTag).Get"); g != nil {
		okG := false
		for _, ret := range returnsOf(g) {
			t := c.term(ret.Results[0])
			if strings.HasPrefix(t, "idx(lookup(call:(*multiTag).cached(P0), P1)#0, (len(lookup(call:(*multiTag).cached(P0), P1)#0) - 1))") {
				okG = true
			}
		}
		r.Check(okG, "TAGSCAN", c.fname(g), "Get returns the last value", c.pos(g.Pos()), "v[len(v)-1]", "Get does not return the last value of the key")
	}
}

// setupErrOrigins classifies error values on the setup path (callee returns
// are followed; a function already being expanded contributes nothing new).
func (c *Ctx) setupErrOrigins(v ssa.Value, fns map[*ssa.Function]bool, seen map[ssa.Value]bool, out map[string]bool) {
	v = c.resolve(v)
	if seen[v] {
		return
	}
	seen[v] = true
	if isConstNil(v) {
		out["nil"] = true
		return
	}
	follow := func(cal *ssa.Function, idx int) {
		if fns[cal] {
			return
		}
		fns[cal] = true
		for _, ret := range returnsOf(cal) {
			i := idx
			if i < 0 {
				i = len(ret.Results) - 1
			}
			c.setupErrOrigins(ret.Results[i], fns, seen, out)
		}
	}
	handlers := func(idx int) {
		for _, n := range []string{"(*Command).scanSubcommandHandler$1", "(*Group).scanSubGroupHandler"} {
			if h := c.Fn(n); h != nil {
				follow(h, idx)
			}
		}
	}
	switch x := v.(type) {
	case *ssa.Phi:
		for _, e := range x.Edges {
			c.setupErrOrigins(e, fns, seen, out)
		}
		return
	case *ssa.Call:
		name := c.calleeName(x.Common())
		if name == "newError" || name == "newErrorf" {
			out["typed:"+strings.Trim(strings.ReplaceAll(c.term(x.Call.Args[0]), " | ", "|"), "phi{}")] = true
			return
		}
		cal := x.Common().StaticCallee()
		if cal != nil && cal.Blocks != nil && cal.Pkg == c.Pkg {
			follow(cal, -1)
			return
		}
		if cal == nil {
			handlers(-1) // the scanHandler parameter is bound to the two handlers
			return
		}
		out["foreign:"+name] = true
		return
	case *ssa.Extract:
		if call, ok := x.Tuple.(*ssa.Call); ok {
			cal := call.Common().StaticCallee()
			if cal != nil && cal.Blocks != nil && cal.Pkg == c.Pkg {
				follow(cal, x.Index)
				return
			}
			if cal == nil {
				handlers(x.Index)
				return
			}
			out["foreign:"+c.calleeName(call.Common())] = true
			return
		}
	case *ssa.UnOp:
		if root, ok := c.cellRoot(x.X); ok {
			stores, _ := c.cellStores(root)
			out["nil"] = true // zero value before any store
			for _, st := range stores {
				c.setupErrOrigins(st.Val, fns, seen, out)
			}
			return
		}
	}
	out["unknown:"+trunc(c.term(v), 60)] = true
}

// documentedTagKeys parses the "Available field tags" section of the package comment.
func (c *Ctx) documentedTagKeys(r *Report) map[string]bool {
	out := map[string]bool{}
	var doc string
	for _, f := range c.PPkg.Syntax {
		if f.Doc != nil && strings.Contains(f.Doc.Text(), "Available field tags") {
			doc = f.Doc.Text()
		}
		_ = ast.IsExported
	}
	if doc == "" {
		r.Fatalf("unresolved anchor: package comment with the 'Available field tags' section not found")
		return out
	}
	sec := doc[strings.Index(doc, "Available field tags"):]
	if end := strings.Index(sec, "Either the `short:` tag"); end > 0 {
		sec = sec[:end]
	}
	re := regexp.MustCompile(`(?m)^\s+([a-z][a-z-]*):\s`)
	for _, m := range re.FindAllStringSubmatch(sec, -1) {
		out[m[1]] = true
	}
	if len(out) < 20 {
		r.Fatalf("only %d documented tag keys parsed from the package comment (expected ≥ 20)", len(out))
	}
	return out
}

// exactTagFields: model fields that are the tag's value itself under every condition.
var exactTagFields = map[string]bool{
	"Option.Description": true, "Option.LongName": true, "Option.Default": true, "Option.EnvDefaultKey": true, "Option.EnvDefaultDelim": true,
	"Option.OptionalValue": true, "Option.ValueName": true, "Option.DefaultMask": true, "Option.Choices": true,
}

// modelRules: tag → model mapping of the literals built by the scans.
func (c *Ctx) modelRules(r *Report, ss *ssa.Function) {
	get := func(k string) string { return `call:(*multiTag).Get(new:multiTag, "` + k + `")` }
	many := func(k string) string { return `call:(*multiTag).GetMany(new:multiTag, "` + k + `")` }
	falsy := func(k string) string { return "!(call:isStringFalsy(" + get(k) + "))" }
	type want struct{ field, must string }
	checkLit := func(fn *ssa.Function, typ string, wants []want) {
		fname := c.fname(fn)
		var lit *ssa.Alloc
		for _, b := range c.blocks(fn) {
			for _, in := range b.Instrs {
				if al, ok := in.(*ssa.Alloc); ok && al.Comment == "complit" && typeName(al.Type()) == typ {
					lit = al
				}
			}
		}
		if lit == nil {
			r.Fail("MODEL", fname, typ+" literal", "", "no "+typ+" composite literal found")
			return
		}
		stored := map[string]string{}
		for _, ref := range *lit.Referrers() {
			if fa, ok := ref.(*ssa.FieldAddr); ok {
				for _, r2 := range *fa.Referrers() {
					if st, ok := r2.(*ssa.Store); ok && st.Addr == ssa.Value(fa) {
						stored[fieldVarName(fieldObj(fa.X.Type(), fa.Field))] = c.term(st.Val)
					}
				}
			}
		}
		for _, w := range wants {
			t, ok := stored[w.field]
			good := ok && strings.Contains(t, w.must)
			if good && exactTagFields[typ+"."+w.field] {
				// the attribute is the tag's text as written, for every kind of field (no alternative value)
				good = t == w.must
			}
			r.Check(good, "MODEL", fname, typ+"."+w.field, c.ipos(lit), "← "+w.must, typ+"."+w.field+" is "+trunc(t, 140)+", expected to derive from "+w.must)
		}
	}
	checkLit(ss, "Option", []want{
		{"Description", get("description")}, {"ShortName", `call:unicode/utf8.DecodeRuneInString(` + get("short") + `)#0`}, {"LongName", get("long")},
		{"Default", many("default")}, {"EnvDefaultKey", get("env")}, {"EnvDefaultDelim", get("env-delim")},
		{"OptionalArgument", falsy("optional")}, {"OptionalValue", many("optional-value")}, {"Required", falsy("required")},
		{"ValueName", get("value-name")}, {"DefaultMask", get("default-mask")}, {"Choices", many("choice")}, {"Hidden", falsy("hidden")},
		{"group", "P0"}, {"value", "call:(reflect.Value).Field(P1, phi{(phi↺ + 1) | 0})"}, {"tag", "cell:multiTag"},
	})
	// field and value from the same index
	okIdx := false
	for _, in := range c.instrs(ss, c.isCallTo("invoke:Type.Field")) {
		call := in.(*ssa.Call)
		if c.term(call.Call.Args[0]) == "phi{(phi↺ + 1) | 0}" && strings.HasPrefix(c.term(call.Call.Value), "call:(reflect.Value).Type(P1)") {
			okIdx = true
		}
	}
	r.Check(okIdx, "MODEL", c.fname(ss), "Option.field and Option.value use the same field index", c.pos(ss.Pos()), "stype.Field(i) and realval.Field(i) with stype = realval.Type()", "the StructField and the Value of an option are not taken at the same index of the same struct")
	if h := c.mustFn(r, "(*Command).scanSubcommandHandler$1"); h != nil {
		checkLit(h, "Arg", []want{
			{"Description", `call:(*multiTag).Get(new:multiTag, "description")`}, {"value", "call:(reflect.Value).Field(P0, phi{(phi↺ + 1) | 0})"}, {"Name", `call:(*multiTag).Get(new:multiTag, "positional-arg-name")`},
		})
		hn := c.fname(h)
		// a positional's count bounds come from its own field's tag: they are not values carried over from the
		// previous field of the loop (a variable initialised once before the loop would be)
		{
			loops := c.loopsDeep(h)
			nB := 0
			for _, fld := range []string{"Required", "RequiredMaximum"} {
				f := c.Field("Arg", fld)
				for _, s := range c.storesTo(f) {
					if !c.actsFor(s.Fn, h) {
						continue
					}
					nB++
					lp := innermost(loops, s.Store.Block())
					bad := ""
					seen := map[ssa.Value]bool{}
					var walk func(v ssa.Value)
					walk = func(v ssa.Value) {
						if v == nil || seen[v] || bad != "" {
							return
						}
						seen[v] = true
						switch x := v.(type) {
						case *ssa.Phi:
							if lp != nil && x.Block() == lp.Header {
								bad = c.ipos(x)
								return
							}
							for _, e := range x.Edges {
								walk(e)
							}
						case *ssa.Convert:
							walk(x.X)
						case *ssa.ChangeType:
							walk(x.X)
						}
					}
					walk(s.Store.Val)
					r.Check(lp != nil && bad == "", "MODEL", hn, "Arg."+fld+" is determined by this field's tag alone", c.ipos(s.Store), "no loop-carried value reaches the bound", "the bound can be a value left over from the previous positional field (loop-carried at "+bad+"): a field without a required tag inherits its predecessor's count")
				}
			}
			r.Check(nB >= 2, "MODEL", hn, "positional bound stores found", c.pos(h.Pos()), "Required and RequiredMaximum", fmt.Sprintf("%d", nB))
		}
		for _, in := range c.instrs(h, c.isCallTo("(*Command).AddCommand")) {
			call := in.(*ssa.Call)
			a := call.Call.Args
			ok := c.term(a[1]) == get("command") && c.term(a[2]) == get("description") && c.term(a[3]) == get("long-description")
			r.Check(ok, "MODEL", hn, "Command name/descriptions", c.ipos(in), "AddCommand(Get(command), Get(description), Get(long-description), …)", "AddCommand receives "+trunc(c.term(a[1])+", "+c.term(a[2])+", "+c.term(a[3]), 160))
		}
		for _, f := range []struct{ fld, must string }{{"Hidden", `nonempty:` + get("hidden")}, {"Aliases", many("alias")}} {
			fo := c.Field("Command", f.fld)
			if f.fld == "Hidden" {
				fo = c.Field("Group", "Hidden")
			}
			found := false
			for _, s := range c.storesTo(fo) {
				if !c.actsFor(s.Fn, h) {
					continue
				}
				t := c.term(s.Store.Val)
				if f.fld == "Hidden" {
					found = strings.Contains(t, get("hidden"))
				} else {
					found = strings.Contains(t, f.must)
				}
			}
			r.Check(found, "MODEL", hn, "Command."+f.fld, c.pos(h.Pos()), "← tag "+f.must, "Command."+f.fld+" is not taken from its tag")
		}
		// every Command/Group field written while a command field is scanned belongs to the command being declared
		nOwn := 0
		for _, fn := range c.Funcs {
			if !c.actsFor(fn, h) {
				continue
			}
			for _, in := range c.instrs(fn, func(x ssa.Instruction) bool { _, ok := x.(*ssa.Store); return ok }) {
				st := in.(*ssa.Store)
				fa, ok := st.Addr.(*ssa.FieldAddr)
				if !ok {
					continue
				}
				root := ssa.Value(fa)
				isModel := false
				for {
					if u, ok := root.(*ssa.UnOp); ok && u.Op == token.MUL { // embedded *Group
						if _, ok := u.X.(*ssa.FieldAddr); ok {
							root = u.X
							continue
						}
					}
					f2, ok := root.(*ssa.FieldAddr)
					if !ok {
						break
					}
					if tn := relType(c, f2.X.Type()); tn == "*Command" || tn == "*Group" {
						isModel = true
					}
					root = f2.X
				}
				after := false
				for _, ac := range c.instrs(fn, c.isCallTo("(*Command).AddCommand")) {
					if c.reachableFrom(fn, ac, isInstr(st)) {
						after = true
					}
				}
				if !isModel || !after {
					continue
				}
				nOwn++
				rt := c.term(root)
				r.Check(strings.HasPrefix(rt, "call:(*Command).AddCommand("), "MODEL", hn, "tag-derived command attributes are written to the command being declared", c.ipos(st), "the written object is the result of AddCommand for this field", "a field of "+trunc(rt, 80)+" is written while scanning a command field: the attribute lands on another command")
			}
		}
		r.Check(nOwn >= 3, "MODEL", hn, "command attribute stores found", c.pos(h.Pos()), "≥ 3", fmt.Sprintf("%d", nOwn))
		so := c.Field("Command", "SubcommandsOptional")
		for _, s := range c.storesTo(so) {
			if !c.actsFor(s.Fn, h) {
				continue
			}
			_, ok := c.Requires(h, isInstr(s.Store), litHas(true, "nonempty("+get("subcommands-optional")), nil)
			r.Check(ok && c.term(s.Store.Val) == "true", "MODEL", hn, "Command.SubcommandsOptional", c.ipos(s.Store), "true exactly when the subcommands-optional tag is non-empty", "SubcommandsOptional is not derived from its tag")
		}
	}
	if g := c.mustFn(r, "(*Group).scanSubGroupHandler"); g != nil {
		gn := c.fname(g)
		for _, f := range []struct{ fld, key string }{{"Namespace", "namespace"}, {"EnvNamespace", "env-namespace"}, {"Hidden", "hidden"}} {
			fo := c.Field("Group", f.fld)
			found := false
			for _, s := range c.storesTo(fo) {
				if c.actsFor(s.Fn, g) && strings.Contains(c.term(s.Store.Val), get(f.key)) {
					found = true
				}
			}
			r.Check(found, "MODEL", gn, "Group."+f.fld, c.pos(g.Pos()), "← tag "+f.key, "Group."+f.fld+" is not taken from tag "+f.key)
		}
		for _, in := range c.instrs(g, c.isCallTo("(*Group).AddGroup")) {
			a := in.(*ssa.Call).Call.Args
			r.Check(c.term(a[1]) == get("group") && c.term(a[2]) == get("description"), "MODEL", gn, "Group name/description", c.ipos(in), "AddGroup(Get(group), Get(description), …)", "AddGroup receives "+trunc(c.term(a[1])+", "+c.term(a[2]), 120))
		}
	}
}

// constArgsOfParam: v is a parameter of a new helper (function or directly-called closure) and every
// call of that helper passes a string constant for it: the constants.
func (c *Ctx) constArgsOfParam(v ssa.Value) ([]string, bool) {
	p, ok := v.(*ssa.Parameter)
	if !ok || !c.isNew(p.Parent()) {
		return nil, false
	}
	fn := p.Parent()
	idx := -1
	for i, q := range fn.Params {
		if q == p {
			idx = i
		}
	}
	sites, asValue := c.callersOf(fn)
	if idx < 0 || len(asValue) != 0 || len(sites) == 0 {
		return nil, false
	}
	var out []string
	for _, s := range sites {
		args := s.Call.Common().Args
		if idx >= len(args) {
			return nil, false
		}
		k, ok := constStr(args[idx])
		if !ok {
			return nil, false
		}
		out = append(out, k)
	}
	return out, true
}

// localGroupWalk: an anonymous function of fn, held in a local variable, that fn calls on its receiver and
// that calls itself on every element of its parameter's Group.groups — eachGroup written out in place.
func localGroupWalk(c *Ctx, fn *ssa.Function) *ssa.Function {
	// the closure stored (once) into a local variable of fn
	holder := func(v ssa.Value) *ssa.Function {
		u, ok := v.(*ssa.UnOp)
		if !ok || u.Op != token.MUL {
			return nil
		}
		cell := u.X
		if fv, ok := cell.(*ssa.FreeVar); ok {
			// the captured variable of the enclosing function
			par := fv.Parent()
			idx := -1
			for i, x := range par.FreeVars {
				if x == fv {
					idx = i
				}
			}
			cell = nil
			for _, b := range fn.Blocks {
				for _, in := range b.Instrs {
					if mc, ok := in.(*ssa.MakeClosure); ok && mc.Fn == par && idx >= 0 && idx < len(mc.Bindings) {
						cell = mc.Bindings[idx]
					}
				}
			}
		}
		al, ok := cell.(*ssa.Alloc)
		if !ok || al.Parent() != fn || al.Referrers() == nil {
			return nil
		}
		var got *ssa.Function
		n := 0
		for _, ref := range *al.Referrers() {
			if st, ok := ref.(*ssa.Store); ok && st.Addr == al {
				n++
				if mc, ok := st.Val.(*ssa.MakeClosure); ok {
					got, _ = mc.Fn.(*ssa.Function)
				}
			}
		}
		if n != 1 {
			return nil
		}
		return got
	}
	for _, an := range fn.AnonFuncs {
		if len(an.Params) != 1 || typeName(an.Params[0].Type()) != "Group" {
			continue
		}
		rooted, recursive := false, false
		for _, b := range fn.Blocks {
			for _, in := range b.Instrs {
				if call, ok := in.(*ssa.Call); ok && call.Call.StaticCallee() == nil && holder(call.Call.Value) == an && len(call.Call.Args) == 1 && c.term(call.Call.Args[0]) == "P0" {
					rooted = true
				}
			}
		}
		for _, b := range an.Blocks {
			for _, in := range b.Instrs {
				if call, ok := in.(*ssa.Call); ok && call.Call.StaticCallee() == nil && holder(call.Call.Value) == an && len(call.Call.Args) == 1 {
					if strings.HasPrefix(c.term(call.Call.Args[0]), "idx(Group.groups(P0), ") {
						if _, inLoop := c.Requires(an, isInstr(call), func(l Lit) bool { return strings.Contains(l.Term, "len(Group.groups(P0))") }, nil); inLoop {
							recursive = true
						}
					}
				}
			}
		}
		if rooted && recursive {
			return an
		}
	}
	return nil
}
