package main

// core.go — obligation model, evidence, known findings, output contract.

import (
	"encoding/json"
	"fmt"
	"go/token"
	"os"
	"path/filepath"
	"sort"
	"strings"
	"time"
)

type Status string

const (
	Discharged   Status = "DISCHARGED"
	Allowed      Status = "ALLOWED"
	KnownFinding Status = "KNOWN-FINDING"
	Violated     Status = "VIOLATED"
	Undecided    Status = "UNDECIDED"
)

// Obligation is one rule instance. Key never contains a line number.
type Obligation struct {
	Key        string `json:"key"`
	Property   string `json:"property"`
	Rule       string `json:"rule"`
	Func       string `json:"func"`
	Construct  string `json:"construct"`
	Pos        string `json:"pos,omitempty"`
	Status     Status `json:"status"`
	Detail     string `json:"detail,omitempty"`
	NonTrivial bool   `json:"-"`
}

type RuleInfo struct {
	Name      string `json:"name"`
	Text      string `json:"text"`
	Instances int    `json:"instances"`
	Floor     int    `json:"floor"`
}

type Report struct {
	Prop      string
	Obs       []*Obligation
	rules     map[string]*RuleInfo
	ruleOrder []string
	keyCount  map[string]int
	Controls  []string // control names that fired
	CtlFailed []string
	Notes     []string
	Fatal     []string
	Funcs     map[string]bool // functions in scope / examined
	Sites     int             // call sites / instructions examined
	Extra     map[string]interface{}
}

func NewReport(prop string) *Report {
	return &Report{Prop: prop, rules: map[string]*RuleInfo{}, keyCount: map[string]int{}, Funcs: map[string]bool{}, Extra: map[string]interface{}{}}
}

// Rule declares a rule with its text and the minimum number of instances that
// must be examined (floor) for the pass not to be vacuous.
func (r *Report) Rule(name, text string, floor int) {
	if _, ok := r.rules[name]; !ok {
		r.rules[name] = &RuleInfo{Name: name, Text: text, Floor: floor}
		r.ruleOrder = append(r.ruleOrder, name)
	}
}

func (r *Report) add(rule, fn, construct, pos string, st Status, detail string, nontrivial bool) *Obligation {
	ri, ok := r.rules[rule]
	if !ok {
		panic("rule not declared: " + rule)
	}
	ri.Instances++
	base := r.Prop + "/" + rule + "/" + fn + "/" + construct
	r.keyCount[base]++
	key := base
	if n := r.keyCount[base]; n > 1 {
		key = fmt.Sprintf("%s#%d", base, n)
	}
	o := &Obligation{Key: key, Property: r.Prop, Rule: rule, Func: fn, Construct: construct, Pos: pos, Status: st, Detail: detail, NonTrivial: nontrivial}
	r.Obs = append(r.Obs, o)
	if fn != "" {
		r.Funcs[fn] = true
	}
	return o
}

func (r *Report) OK(rule, fn, construct, pos, by string) {
	r.add(rule, fn, construct, pos, Discharged, by, true)
}
func (r *Report) OKTrivial(rule, fn, construct, pos, by string) {
	r.add(rule, fn, construct, pos, Discharged, by, false)
}
func (r *Report) Allow(rule, fn, construct, pos, reason string) {
	r.add(rule, fn, construct, pos, Allowed, reason, true)
}
func (r *Report) Fail(rule, fn, construct, pos, detail string) {
	r.add(rule, fn, construct, pos, Violated, detail, true)
}
func (r *Report) Undec(rule, fn, construct, pos, detail string) {
	r.add(rule, fn, construct, pos, Undecided, detail, true)
}

// Check records OK when cond holds, else Fail.
func (r *Report) Check(cond bool, rule, fn, construct, pos, okBy, failDetail string) bool {
	if cond {
		r.OK(rule, fn, construct, pos, okBy)
	} else {
		r.Fail(rule, fn, construct, pos, failDetail)
	}
	return cond
}

func (r *Report) Fatalf(format string, a ...interface{}) {
	r.Fatal = append(r.Fatal, fmt.Sprintf(format, a...))
}
func (r *Report) Notef(format string, a ...interface{}) {
	r.Notes = append(r.Notes, fmt.Sprintf(format, a...))
}

// ---- known findings --------------------------------------------------------

type Finding struct {
	Property string `json:"property"`
	Key      string `json:"key"`
	What     string `json:"what"`
	Since    string `json:"since,omitempty"`
}
type KnownFindings struct {
	Findings []Finding `json:"findings"`
	Fixed    []string  `json:"fixed"`
}

func loadKnown(path string) (*KnownFindings, error) {
	kf := &KnownFindings{}
	b, err := os.ReadFile(path)
	if err != nil {
		if os.IsNotExist(err) {
			return kf, nil
		}
		return nil, err
	}
	if err := json.Unmarshal(b, kf); err != nil {
		return nil, err
	}
	return kf, nil
}

// ---- finishing: evidence + output -------------------------------------------

type evidence struct {
	PropertyID  string                 `json:"property_id"`
	Tier        string                 `json:"tier"`
	Seed        int                    `json:"seed"`
	Level       string                 `json:"level"`
	Coverage    map[string]interface{} `json:"coverage"`
	Assumptions []string               `json:"assumptions"`
	WallS       float64                `json:"wall_s"`
	Violations  int                    `json:"violations"`
}

type PropMeta struct {
	ID          string
	Level       string // "other" | "proof"
	Explanation string
	Trusted     []string
	Assumptions []string
	NotDecided  string
}

func posKey(p string) (string, int, int) {
	// file:line:col
	parts := strings.Split(p, ":")
	if len(parts) < 3 {
		return p, 0, 0
	}
	var l, c int
	fmt.Sscanf(parts[len(parts)-2], "%d", &l)
	fmt.Sscanf(parts[len(parts)-1], "%d", &c)
	return strings.Join(parts[:len(parts)-2], ":"), l, c
}

func shortPos(fset *token.FileSet, p token.Pos) string {
	if !p.IsValid() {
		return ""
	}
	pp := fset.Position(p)
	return fmt.Sprintf("%s:%d:%d", filepath.Base(pp.Filename), pp.Line, pp.Column)
}

// Finish applies known findings and floors, writes evidence and replay files,
// prints the contract lines and returns the exit code.
func (r *Report) Finish(meta PropMeta, tier string, seed int, kf *KnownFindings, outDir string, start time.Time, cmdline string) int {
	if pat := os.Getenv("GF_OBLIG"); pat != "" {
		for _, o := range r.Obs {
			if strings.Contains(o.Key, pat) {
				fmt.Fprintf(os.Stderr, "OBLIG %s [%v] %s: %s\n", o.Key, o.Status, o.Pos, o.Detail)
			}
		}
	}
	// known findings
	known := map[string]Finding{}
	for _, f := range kf.Findings {
		if f.Property == r.Prop {
			known[f.Key] = f
		}
	}
	usedKnown := map[string]bool{}
	for _, o := range r.Obs {
		if o.Status == Violated {
			if f, ok := known[o.Key]; ok {
				o.Status = KnownFinding
				o.Detail = o.Detail + " [known finding: " + f.What + "]"
				usedKnown[o.Key] = true
			}
		}
	}
	// floors
	for _, name := range r.ruleOrder {
		ri := r.rules[name]
		if ri.Instances < ri.Floor {
			r.Fatalf("rule %s examined %d instances, floor is %d (vacuous pass refused)", name, ri.Instances, ri.Floor)
		}
	}
	for _, c := range r.CtlFailed {
		r.Fatalf("positive control did not fire: %s (rule inert)", c)
	}

	sort.SliceStable(r.Obs, func(i, j int) bool { return r.Obs[i].Key < r.Obs[j].Key })

	counts := map[Status]int{}
	nontrivial := map[string]bool{}
	for _, o := range r.Obs {
		counts[o.Status]++
		if o.NonTrivial {
			nontrivial[o.Key] = true
		}
	}

	replayDir := filepath.Join(outDir, "replay")
	os.MkdirAll(replayDir, 0o755)
	// remove stale replay files of this property
	if old, _ := filepath.Glob(filepath.Join(replayDir, r.Prop+"-*.json")); old != nil {
		for _, f := range old {
			os.Remove(f)
		}
	}

	exit := 0
	n := 0
	var lines []string
	for _, o := range r.Obs {
		if o.Status == Violated || o.Status == Undecided {
			n++
			path := filepath.Join(replayDir, fmt.Sprintf("%s-%d.json", r.Prop, n))
			b, _ := json.MarshalIndent(map[string]interface{}{
				"property": r.Prop, "key": o.Key, "rule": o.Rule, "rule_text": r.rules[o.Rule].Text,
				"func": o.Func, "construct": o.Construct, "pos": o.Pos, "status": o.Status, "detail": o.Detail,
			}, "", " ")
			os.WriteFile(path, b, 0o644)
			lines = append(lines, fmt.Sprintf("VIOLATION property=%s replay=%s", r.Prop, path))
			fmt.Printf("  %s %s\n    at %s: %s\n", o.Status, o.Key, o.Pos, o.Detail)
			exit = 1
		}
	}
	for _, f := range r.Fatal {
		n++
		path := filepath.Join(replayDir, fmt.Sprintf("%s-%d.json", r.Prop, n))
		b, _ := json.MarshalIndent(map[string]interface{}{"property": r.Prop, "fatal": f}, "", " ")
		os.WriteFile(path, b, 0o644)
		lines = append(lines, fmt.Sprintf("VIOLATION property=%s replay=%s", r.Prop, path))
		fmt.Printf("  FATAL %s\n", f)
		exit = 1
	}
	for _, o := range r.Obs {
		if o.Status == KnownFinding {
			fmt.Printf("KNOWN-FINDING: property=%s %s — %s\n", r.Prop, o.Key, known[o.Key].What)
		}
	}
	var stale []string
	for k := range known {
		if !usedKnown[k] {
			stale = append(stale, k)
		}
	}
	sort.Strings(stale)

	for _, l := range lines {
		fmt.Println(l)
	}

	// samples: a few obligations of each status
	var samples []interface{}
	perRule := map[string]int{}
	for _, o := range r.Obs {
		if perRule[o.Rule] < 2 || o.Status != Discharged {
			perRule[o.Rule]++
			samples = append(samples, map[string]string{"key": o.Key, "pos": o.Pos, "status": string(o.Status), "by": o.Detail})
		}
		if len(samples) >= 60 {
			break
		}
	}
	var rules []*RuleInfo
	for _, name := range r.ruleOrder {
		rules = append(rules, r.rules[name])
	}
	var fns []string
	for f := range r.Funcs {
		fns = append(fns, f)
	}
	sort.Strings(fns)

	total := len(r.Obs)
	discharged := counts[Discharged] + counts[Allowed]
	cov := map[string]interface{}{
		"obligations":         total,
		"discharged":          discharged,
		"allowed":             counts[Allowed],
		"known_findings":      counts[KnownFinding],
		"violated":            counts[Violated],
		"undecided":           counts[Undecided],
		"evaluations":         total,
		"distinct_nontrivial": len(nontrivial),
		"rule":                "one evaluation per rule instance (obligation) found on the current tree of /repo; distinct = distinct obligation key <property>/<rule>/<function>/<construct>; non-trivial = the verdict needed at least one fact derived from the SSA/CFG of /repo (a dominating condition, a resolved callee set, a provenance term), i.e. it was not discharged by a literal constant alone",
		"samples":             samples,
		"explanation":         meta.Explanation,
		"not_decided":         meta.NotDecided,
		"checker_cmd":         cmdline,
		"trusted_base":        meta.Trusted,
		"rules":               rules,
		"functions_examined":  fns,
		"sites_examined":      r.Sites,
		"controls_fired":      r.Controls,
		"controls_failed":     r.CtlFailed,
		"stale_known":         stale,
		"notes":               r.Notes,
		"fatal":               r.Fatal,
		"exhaustive":          true,
	}
	for k, v := range r.Extra {
		cov[k] = v
	}
	ev := evidence{
		PropertyID: r.Prop, Tier: tier, Seed: seed, Level: meta.Level, Coverage: cov,
		Assumptions: meta.Assumptions, WallS: time.Since(start).Seconds(), Violations: counts[Violated] + counts[Undecided] + len(r.Fatal),
	}
	if ev.Assumptions == nil {
		ev.Assumptions = []string{}
	}
	b, _ := json.MarshalIndent(ev, "", " ")
	os.MkdirAll(outDir, 0o755)
	if err := os.WriteFile(filepath.Join(outDir, r.Prop+".json"), b, 0o644); err != nil {
		fmt.Println("cannot write evidence:", err)
		return 1
	}
	fmt.Printf("%s %s: obligations=%d discharged=%d allowed=%d known=%d violated=%d undecided=%d fatal=%d controls=%d\n",
		r.Prop, tier, total, counts[Discharged], counts[Allowed], counts[KnownFinding], counts[Violated], counts[Undecided], len(r.Fatal), len(r.Controls))
	return exit
}

// importRules: some clauses of a property are decided by rules that live with another property (the
// conversion tables of C11 are also what C01's "holds the conversion of …" rests on). The named rules of
// property `from` are evaluated and their obligations entered in this report under "<from>:<rule>", so
// that a change breaking such a clause is reported by every property it breaks.
func (c *Ctx) importRules(r *Report, from string, rules ...string) {
	if c.noImports {
		return
	}
	p := registry[from]
	if p == nil {
		r.Fatalf("importRules: unknown property %s", from)
		return
	}
	sub := NewReport(from)
	c.noImports = true
	p.Run(c, sub, "quick")
	c.noImports = false
	want := map[string]bool{}
	for _, n := range rules {
		want[n] = true
	}
	for _, n := range rules {
		ri := sub.rules[n]
		if ri == nil {
			r.Fatalf("importRules: %s has no rule %s", from, n)
			continue
		}
		r.Rule(from+":"+n, "("+from+") "+ri.Text, ri.Floor)
	}
	for _, o := range sub.Obs {
		if !want[o.Rule] {
			continue
		}
		r.add(from+":"+o.Rule, o.Func, o.Construct, o.Pos, o.Status, o.Detail, o.NonTrivial)
	}
	for _, f := range sub.Fatal {
		r.Fatalf("(imported from %s) %s", from, f)
	}
}
