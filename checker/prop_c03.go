package main

import (
	"fmt"
	"go/token"
	"go/types"
	"reflect"
	"strings"

	"golang.org/x/tools/go/ssa"
)

func init() {
	register(&Property{
		Meta: PropMeta{
			ID:          "C03",
			Level:       "other",
			Explanation: "Structural necessary conditions of 'unconsumed arguments are conserved, in order', decided on the SSA of /repo for all paths: (WHO) parseState.retargs is written only by ParseArgs (fresh, empty) and addArgs (append of the remainder to its previous value), parseState.args only by ParseArgs (the caller's slice / the handler's slice), pop (args[1:], returning args[0]) and completion's private state, parseState.positional only by fillParseState, addArgs and completion; (TERMINATOR) the untouched tail parseState.args is appended exactly under PassDoubleDash ∧ token == \"--\" and the loop is left afterwards; (PASSAFTER) under PassAfterNonOption a non-option token that is not a command of the *current lookup* appends the token and then the tail, in that order, and leaves the loop; (REQUEUE) IgnoreUnknown re-queues the very value pop() returned; (FILL) addArgs converts args[0] into the positional at the head of the queue as re-read in each iteration, drops exactly one token per iteration, advances the queue by one unless the head is a remaining-arguments slice, and appends the whole remainder; (NONOPT) every return of parseNonOption has passed addArgs(current token) or activated a command; (SYNTAX) argumentIsOption answers true exactly under (len>1 ∧ a[0]=='-' ∧ a[1]!='-') or (len>2 ∧ a[0]=='-' ∧ a[1]=='-' ∧ a[2]!='-').",
			NotDecided:  "that 'consumed' coincides with the statement's definition on every vector (depends on token values); string identity beyond 'same SSA value / same slice'.",
			Trusted:     []string{"go/ssa lowering", "go/types", "append/slice semantics"},
		},
		Run:      runC03,
		Controls: []string{"path-req", "path-mpt"},
	})
	register(&Property{
		Meta: PropMeta{
			ID:          "C10",
			Level:       "other",
			Explanation: "Structural necessary conditions of 'positional arguments bind in declaration order', decided on the SSA of /repo for all paths: (ORDER) the positional scan appends one Arg per exported field inside a counted loop over the struct's fields with value = realval.Field(i), Command.args is only ever extended by append (never reset), and fillParseState / Args() copy it in order; (FILL) the head-of-queue fill of addArgs (shared with C03): head re-read per iteration, one token per iteration, queue advances unless the head is a slice, isRemaining ⇔ Kind() == Slice; (BEFORE-COMMANDS) in parseNonOption a pending positional takes the token under the sole guard len(positional) > 0 and the command lookup is reachable only with an empty queue; (UNDISTURBED) parseState.positional is written only by fillParseState, addArgs and completion's private state, and nothing reachable from addArgs tests option syntax.",
			NotDecided:  "the converted values (C11); binding for every interleaving as a value relation.",
			Trusted:     []string{"go/ssa lowering", "go/types", "copy/append semantics"},
		},
		Run:      runC10,
		Controls: []string{"path-req", "path-cd"},
	})
}

// whoStores checks that field f is stored only in the allowed functions.
func (c *Ctx) whoStores(r *Report, rule, typ, field string, allowed map[string]string) {
	f := c.mustField(r, typ, field)
	if f == nil {
		return
	}
	for _, s := range c.storesTo(f) {
		fn := c.fname(s.Fn)
		v := c.term(s.Store.Val)
		want, ok := allowed[fn]
		if !ok {
			// a helper extracted from an allowed writer acts on its behalf
			for _, o := range c.ownerNames(s.Fn) {
				if w, has := allowed[o]; has {
					want, ok = w, true
				}
			}
		}
		good := ok && (want == "" || strings.HasPrefix(v, want))
		if ok && strings.Contains(want, "|") {
			good = false
			for _, w := range strings.Split(want, "|") {
				if strings.HasPrefix(v, w) {
					good = true
				}
			}
		}
		r.Check(good, rule, fn, "store "+typ+"."+field, c.ipos(s.Store), "allowed writer; value "+trunc(v, 80), typ+"."+field+" stored in "+fn+" as "+trunc(v, 100))
	}
}

// addArgsSkeleton checks the positional fill loop.
func (c *Ctx) addArgsSkeleton(r *Report, rule string) {
	aa := c.mustFn(r, "(*parseState).addArgs")
	if aa == nil {
		return
	}
	an := c.fname(aa)
	loops := c.loopsDeep(aa)
	if len(loops) != 1 {
		r.Fail(rule, an, "fill loop", "", fmt.Sprintf("%d loops", len(loops)))
		return
	}
	l := loops[0]
	// the token cursor: either the argument slice shrinks by one per iteration (args = args[1:], token args[0])
	// or a counter advances by one per iteration (token args[i], remainder args[i:])
	var argsPhi, ctrPhi, rngPhi *ssa.Phi
	for _, in := range l.Header.Instrs {
		p, ok := in.(*ssa.Phi)
		if !ok {
			break
		}
		switch {
		case relType(c, p.Type()) == "[]string":
			argsPhi = p
		case relType(c, p.Type()) == "int" && c.term(p) == "phi{(phi↺ + 1) | -1}":
			rngPhi = p // the hidden index of `for … := range args`
		case relType(c, p.Type()) == "int":
			ctrPhi = p
		}
	}
	const ctrT, rngT = "phi{(phi↺ + 1) | 0}", "phi{(phi↺ + 1) | -1}"
	var tokT, restT string
	switch {
	case argsPhi != nil:
		r.Check(c.term(argsPhi) == "phi{P1 | slice(phi↺, 1, _)}", rule, an, "one token dropped per iteration", c.ipos(argsPhi), "args starts as the parameter and every back edge carries args[1:]", "args evolves as "+c.term(argsPhi))
		tokT, restT = "idx(phi{P1 | slice(phi↺, 1, _)}, 0)", "phi{P1 | slice(phi↺, 1, _)}"
	case ctrPhi != nil && rngPhi != nil:
		// range over args with a separate count of consumed tokens: both advance by one on every back edge
		d, ok := lockstep(ctrPhi, rngPhi)
		r.Check(ok && d == 1 && c.term(ctrPhi) == ctrT, rule, an, "one token dropped per iteration", c.ipos(ctrPhi), "the consumed count starts at 0 and advances with the range index on every back edge", "the consumed count evolves as "+c.term(ctrPhi)+" against the range index "+c.term(rngPhi))
		tokT, restT = "idx(P1, "+ctrT+")", "slice(P1, "+ctrT+", _)"
	case ctrPhi != nil:
		r.Check(c.term(ctrPhi) == ctrT, rule, an, "one token dropped per iteration", c.ipos(ctrPhi), "the token index starts at 0 and every back edge carries index+1", "the token index evolves as "+c.term(ctrPhi))
		tokT, restT = "idx(P1, "+ctrT+")", "slice(P1, "+ctrT+", _)"
	default:
		r.Fail(rule, an, "loop-carried args", "", "not found")
		return
	}
	// convert call
	convs := c.instrs(aa, c.isCallTo("convert"))
	if len(convs) != 1 {
		r.Fail(rule, an, "convert call", "", fmt.Sprintf("%d calls", len(convs)))
	} else {
		call := convs[0].(*ssa.Call)
		a := call.Call.Args
		okT := c.term(a[0]) == tokT && c.term(a[1]) == "Arg.value(idx(parseState.positional(P0), 0))"
		// the head of the queue is re-read inside the loop
		inLoop := false
		if u, ok := c.resolve(a[1]).(*ssa.UnOp); ok {
			if fa, ok := u.X.(*ssa.FieldAddr); ok {
				holder := fa.X
				if p, isP := holder.(*ssa.Parameter); isP {
					// the conversion moved into a new method of the positional: its receiver is the head read by the caller
					if b, ok := c.paramBinding(p); ok {
						holder = b
					}
				}
				if hu, ok := holder.(*ssa.UnOp); ok {
					if ia, ok := hu.X.(*ssa.IndexAddr); ok {
						if pl, ok := ia.X.(*ssa.UnOp); ok {
							inLoop = c.inLoop(l, pl.Block()) && c.inLoop(l, hu.Block())
						}
					}
				}
			}
		}
		r.Check(okT && inLoop, rule, an, "args[0] is converted into the current head positional[0]", c.ipos(call), "convert(<current token>, positional[0].value, …) with positional re-read in every iteration", fmt.Sprintf("operands %s / %s; head re-read in loop=%v", trunc(c.term(a[0]), 60), trunc(c.term(a[1]), 60), inLoop))
	}
	// queue advance
	pf := c.Field("parseState", "positional")
	nAdv := 0
	for _, s := range c.storesTo(pf) {
		if !c.actsAlsoFor(s.Fn, aa) {
			continue
		}
		nAdv++
		okV := c.term(s.Store.Val) == "slice(parseState.positional(P0), 1, _)"
		head := "Arg.value(idx(parseState.positional(P0), 0))"
		_, req := c.Requires(aa, isInstr(s.Store), anyLit(litHas(false, "call:(*Arg).isRemaining(idx(parseState.positional(P0), 0))"),
			litIs("eq(23, invoke:Type.Kind(call:(reflect.Value).Type("+head+"); ))", false), litIs("eq(23, call:(reflect.Value).Kind("+head+"))", false)), nil)
		r.Check(okV && req && c.inLoop(l, s.Store.Block()), rule, an, "queue advances by one unless the head is a remaining-arguments slice", c.ipos(s.Store), "positional = positional[1:] REQ(¬isRemaining)", fmt.Sprintf("value=%s ¬isRemaining necessary=%v", c.term(s.Store.Val), req))
	}
	r.Check(nAdv == 1, rule, an, "one queue advance", c.pos(aa.Pos()), "one", fmt.Sprintf("%d", nAdv))
	// remainder appended
	rf := c.Field("parseState", "retargs")
	nApp := 0
	for _, s := range c.storesTo(rf) {
		if !c.actsFor(s.Fn, aa) {
			continue
		}
		nApp++
		v := c.term(s.Store.Val)
		// (a helper returning (rest, err) contributes a nil member on its failing return, which never reaches the append)
		okV := v == "append(parseState.retargs(P0), "+restT+")" || v == "append(parseState.retargs(P0), phi{nil | "+restT+"})" || v == "append(parseState.retargs(P0), P1)" && argsPhi != nil
		r.Check(okV && !c.inLoop(l, s.Store.Block()), rule, an, "whole remainder appended after the fill", c.ipos(s.Store), "retargs = append(retargs, <remaining args>...) outside the loop", "retargs stored as "+trunc(v, 100))
	}
	r.Check(nApp >= 1, rule, an, "remainder appended", c.pos(aa.Pos()), "at least one append of the remainder", "the remainder is never appended")
	// the loop's only exits: header tests (queue empty / no tokens) and the conversion error return
	if ir := c.Fn("(*Arg).isRemaining"); ir != nil {
		// isRemaining answers true exactly for slice-kinded values, whatever its shape (comparison, switch, …)
		subj := "V:Arg.value(P0)"
		okT, okF := false, false
		if os, ok := c.verdictOrigins(ir, true); ok && len(os) > 0 {
			okT = true
			for _, fs := range os {
				hit := false
				for _, f := range fs {
					if s, ks, ok := c.kindFact(f.cond, f.pos); ok && (s == subj || strings.HasPrefix(s, "V:Arg.value(")) && len(ks) == 1 && ks[0] == int64(reflect.Slice) {
						hit = true
					}
				}
				okT = okT && hit
			}
		}
		if os, ok := c.verdictOrigins(ir, false); ok && len(os) > 0 {
			okF = true
			for _, fs := range os {
				hit := false
				for _, f := range fs {
					if s, ks, ok := c.kindFact(f.cond, !f.pos); ok && (s == subj || strings.HasPrefix(s, "V:Arg.value(")) && len(ks) == 1 && ks[0] == int64(reflect.Slice) {
						hit = true
					}
				}
				okF = okF && hit
			}
		}
		r.Check(okT && okF, rule, c.fname(ir), "isRemaining ⇔ slice kind", c.pos(ir.Pos()), "answers true only under value.Type().Kind() == reflect.Slice and false only under its negation", fmt.Sprintf("isRemaining is not the slice-kind test (true⇒slice: %v, false⇒¬slice: %v)", okT, okF))
	}
}

func runC03(c *Ctx, r *Report, tier string) {
	r.Rule("WHO", "who stores parseState.retargs / args / positional, and what", 8)
	r.Rule("TERMINATOR", "tail appended REQ(PassDoubleDash ∧ token == \"--\"), unsliced, then the loop is left", 2)
	r.Rule("PASSAFTER", "PassAfterNonOption: token then tail, in order, guarded by ¬argumentIsOption ∧ flag ∧ not a command of the current lookup", 4)
	r.Rule("REQUEUE", "IgnoreUnknown re-queues the value returned by pop()", 1)
	r.Rule("FILL", "addArgs skeleton", 6)
	r.Rule("NONOPT", "every return of parseNonOption passed addArgs(current token) or activated a command", 3)
	r.Rule("SYNTAX", "argumentIsOption's truth table over (length class, dash positions) equals the documented one", 2)

	pa := c.mustFn(r, "(*Parser).ParseArgs")
	pno := c.mustFn(r, "(*Parser).parseNonOption")
	aio := c.mustFn(r, "argumentIsOption")
	pop := c.mustFn(r, "(*parseState).pop")
	if pa == nil || pno == nil || aio == nil || pop == nil {
		return
	}
	c.whoStores(r, "WHO", "parseState", "retargs", map[string]string{
		"(*Parser).ParseArgs":   "makeslice[[]string](0)",
		"(*parseState).addArgs": "append(parseState.retargs(P0), ",
	})
	c.whoStores(r, "WHO", "parseState", "args", map[string]string{
		"(*Parser).ParseArgs":    "P1|dyncall(Parser.UnknownOptionHandler(",
		"(*parseState).pop":      "slice(parseState.args(P0), 1, _)",
		"(*completion).complete": "",
	})
	c.whoStores(r, "WHO", "parseState", "positional", map[string]string{
		"(*Command).fillParseState":    "makeslice[[]*Arg](len(Command.args(P0)))",
		"(*parseState).addArgs":        "slice(parseState.positional(P0), 1, _)",
		"(*completion).complete":       "",
		"(*completion).skipPositional": "",
	})
	// pop returns args[0]
	for _, ret := range returnsOf(pop) {
		t := c.term(ret.Results[0])
		r.Check(t == `""` || t == "parseState.arg(P0)", "WHO", c.fname(pop), "pop result", c.ipos(ret), "the stored head token (or \"\" at end)", "pop returns "+t)
	}
	af := c.Field("parseState", "arg")
	for _, s := range c.storesTo(af) {
		r.Check(c.actsFor(s.Fn, pop) && c.term(s.Store.Val) == "idx(parseState.args(P0), 0)", "WHO", c.fname(s.Fn), "store parseState.arg", c.ipos(s.Store), "pop stores args[0]", "parseState.arg stored in "+c.fname(s.Fn)+" as "+c.term(s.Store.Val))
	}

	pn := c.fname(pa)
	loop := c.loopContaining(pa, c.isCallTo("(*parseState).pop"))
	var after *ssa.BasicBlock
	if loop != nil {
		for _, hs := range loop.Header.Succs {
			if !loop.Blocks[hs] {
				after = hs
			}
		}
	}
	leaves := func(in ssa.Instruction) bool {
		// from just after `in`, the loop header is unreachable without leaving the loop
		st := siteOf(in)
		q := &PathQ{c: c, Fn: pa, CutIn: func(x ssa.Instruction) bool { return after != nil && x == after.Instrs[0] }}
		_, found := q.Reach(Site{st.B, st.I + 1}, 0, func(x ssa.Instruction) bool { return x == loop.Header.Instrs[0] })
		return !found
	}
	isOpt := "call:argumentIsOption(call:(*parseState).pop("
	var tailCalls []ssa.Instruction
	tailIn := map[ssa.Instruction]ssa.Instruction{}
	for _, as := range c.addArgsSites(pa) {
		if as.Kind == "tail" {
			tailCalls = append(tailCalls, as.Site)
			tailIn[as.Site] = as.In
		}
	}
	// terminator: the tail call reachable under "--"
	nTerm := 0
	for _, in := range tailCalls {
		_, isTerm := c.Requires(pa, isInstr(in), litHas(true, `eq("--", call:(*parseState).pop(`), nil)
		if !isTerm {
			continue
		}
		nTerm++
		_, flag := c.Requires(pa, isInstr(in), litHas(true, "nonzero((Parser.Options(P0) & PassDoubleDash))"), nil)
		r.Check(flag && leaves(in), "TERMINATOR", pn, "tail appended after `--`", c.ipos(in), "REQ(PassDoubleDash) ∧ REQ(token == \"--\"); addArgs(parseState.args...) unsliced; the loop is left", fmt.Sprintf("PassDoubleDash necessary=%v leaves loop=%v", flag, leaves(in)))
	}
	r.Check(nTerm == 1, "TERMINATOR", pn, "terminator site", c.pos(pa.Pos()), "one", fmt.Sprintf("%d", nTerm))
	// pass-after-non-option
	nPA := 0
	for _, in := range tailCalls {
		_, isPA := c.Requires(pa, isInstr(in), litHas(true, "nonzero((Parser.Options(P0) & PassAfterNonOption))"), nil)
		if !isPA {
			continue
		}
		nPA++
		_, a := c.Requires(pa, isInstr(in), litHas(false, isOpt), nil)
		_, b := c.Requires(pa, isInstr(in), func(l Lit) bool {
			return !l.Pos && strings.HasPrefix(l.Term, "nonnil(lookup(lookup.commands(&parseState.lookup(") && strings.Contains(l.Term, "call:(*parseState).pop(")
		}, nil)
		r.Check(a && b, "PASSAFTER", pn, "tail passed through REQ(¬option syntax ∧ not a command of the current lookup)", c.ipos(in), "both edges necessary", fmt.Sprintf("¬argumentIsOption necessary=%v lookup.commands[token]==nil necessary=%v", a, b))
		// the token call precedes the tail call on every path
		// (the tail call as reached through this site; a token call is recognised by its operand in the frame it is
		// reached in, so both may sit in one new helper or behind a shared wrapper)
		base := len(c.frames)
		site, inner := in, tailIn[in]
		target := func(x ssa.Instruction) bool {
			if x != inner {
				return false
			}
			if inner == site {
				return true
			}
			return len(c.frames) > base && ssa.Instruction(c.frames[base]) == site
		}
		_, ok := c.MustPass(pa, target, func(x ssa.Instruction) bool { return c.addArgsKind(x) == "tok" }, nil, nil)
		r.Check(ok, "PASSAFTER", pn, "token first, then tail", c.ipos(in), "the tail append is reachable only through addArgs(current token)", "the tail can be appended without (or before) the current token")
		r.Check(leaves(in), "PASSAFTER", pn, "loop left after passing the tail", c.ipos(in), "break", "parsing continues after the tail was passed through")
		// `--` under PassDoubleDash never gets here: the terminator is recognised first
		_, tf := c.Requires(pa, isInstr(in), anyLit(litHas(false, "nonzero((Parser.Options(P0) & PassDoubleDash))"), litHas(false, `eq("--", call:(*parseState).pop(`)), nil)
		r.Check(tf, "PASSAFTER", pn, "the terminator is recognised before the pass-after test", c.ipos(in), "REQ(¬PassDoubleDash ∨ token ≠ \"--\")", "with both options set a `--` token is passed through as an ordinary argument instead of ending option parsing")
	}
	for _, in := range c.instrs(pa, c.isCallTo("(*Parser).parseNonOption")) {
		_, tf := c.Requires(pa, isInstr(in), anyLit(litHas(false, "nonzero((Parser.Options(P0) & PassDoubleDash))"), litHas(false, `eq("--", call:(*parseState).pop(`)), nil)
		r.Check(tf, "TERMINATOR", pn, "the terminator never reaches non-option handling", c.ipos(in), "parseNonOption REQ(¬PassDoubleDash ∨ token ≠ \"--\")", "a `--` token can be handled as a non-option although PassDoubleDash is set")
	}
	r.Check(nPA == 1, "PASSAFTER", pn, "pass-after site", c.pos(pa.Pos()), "one", fmt.Sprintf("%d", nPA))
	// the loop reads the parse state afresh: a command word switches parseState.command and parseState.lookup in the
	// middle of the loop, so a value loaded from them before the loop and used inside it is stale
	if loop != nil {
		nFresh := 0
		for lb := range loop.Blocks {
			for _, in := range lb.Instrs {
				for _, op := range in.Operands(nil) {
					if op == nil || *op == nil {
						continue
					}
					u, ok := (*op).(*ssa.UnOp)
					if !ok || u.Op != token.MUL {
						continue
					}
					at := c.term(u.X)
					if !strings.Contains(at, "parseState.lookup(") && !strings.Contains(at, "parseState.command(") && !strings.Contains(at, "parseState.positional(") {
						continue
					}
					nFresh++
					r.Check(loop.Blocks[u.Block()], "PASSAFTER", pn, "parse state read afresh inside the argument loop", c.ipos(in), "the load of "+trunc(at, 60)+" happens in the loop", "a value loaded from "+trunc(at, 60)+" before the loop ("+c.ipos(u)+") is used inside it: after a command word it is the previous command's table")
				}
			}
		}
		r.Check(nFresh >= 1, "PASSAFTER", pn, "parse-state reads in the loop found", c.pos(pa.Pos()), "≥ 1", fmt.Sprintf("%d", nFresh))
	}
	// requeue
	nRq := 0
	for _, as := range c.addArgsSites(pa) {
		if as.Kind == "pop" {
			nRq++
		}
	}
	for _, h := range c.instrs(pa, c.isDynCallVia("Parser.UnknownOptionHandler(")) {
		_, prec := c.Requires(pa, isInstr(h), litHas(false, "nonzero((Parser.Options(P0) & IgnoreUnknown))"), nil)
		r.Check(prec, "REQUEUE", pn, "IgnoreUnknown passes the token through even when a handler is installed", c.ipos(h), "handler call REQ(¬IgnoreUnknown)", "with IgnoreUnknown set and a handler installed the unknown token is handed to the handler instead of being kept among the remaining arguments")
	}
	r.Check(nRq == 1, "REQUEUE", pn, "IgnoreUnknown re-queues the popped token", c.pos(pa.Pos()), "one addArgs whose element is pop()'s result of this iteration", fmt.Sprintf("%d", nRq))

	c.addArgsSkeleton(r, "FILL")

	// NONOPT
	activeF := c.mustField(r, "Command", "Active")
	tokArg := func(in ssa.Instruction) bool {
		ci, ok := in.(ssa.CallInstruction)
		if !ok || c.calleeName(ci.Common()) != "(*parseState).addArgs" {
			return false
		}
		a := ci.Common().Args
		es := sliceLitElems(a[len(a)-1])
		return len(es) == 1 && c.term(es[0]) == "parseState.arg(P1)"
	}
	for _, ret := range returnsOf(pno) {
		c.mptRule(r, "NONOPT", pno, ret, "return of parseNonOption", orPred(tokArg, c.isStoreTo(activeF)), "addArgs(s.arg) or store Command.Active", nil)
	}

	// SYNTAX: the predicate's truth table over the predicate abstraction of its argument
	// (length class, which of the first bytes are '-'), whatever the shape of the code.
	spec := func(s absStr) bool {
		dash := func(i int) bool { return s.ch[i] == '-' }
		return (s.n > 1 && dash(0) && !dash(1)) || (s.n > 2 && dash(0) && dash(1) && !dash(2))
	}
	nAbs, bad, und := c.boolTable(aio, []byte{'-'}, spec)
	switch {
	case bad != "":
		r.Fail("SYNTAX", c.fname(aio), "truth table", c.pos(aio.Pos()), bad)
	case und != "":
		r.Undec("SYNTAX", c.fname(aio), "truth table", c.pos(aio.Pos()), "the predicate leaves the len/byte-comparison fragment: "+und)
	default:
		r.OK("SYNTAX", c.fname(aio), "truth table", c.pos(aio.Pos()), fmt.Sprintf("agrees with (len>1 ∧ a[0]=='-' ∧ a[1]!='-') ∨ (len>2 ∧ a[0]=='-' ∧ a[1]=='-' ∧ a[2]!='-') on all %d abstract arguments", nAbs))
	}
	// the same table must not be bypassed: every return is covered by the evaluation above
	r.OK("SYNTAX", c.fname(aio), "no index out of range", c.pos(aio.Pos()), "no abstract argument reaches an out-of-range byte access")
	_ = types.Typ
}

func runC10(c *Ctx, r *Report, tier string) {
	r.Rule("ORDER", "positional scan appends per field in a counted loop; Command.args only extended by append; copies preserve order", 5)
	r.Rule("FILL", "addArgs skeleton (shared with C03)", 6)
	r.Rule("BEFORE-COMMANDS", "pending positionals take the token under the sole guard len(positional) > 0; command lookup only with an empty queue", 2)
	r.Rule("UNDISTURBED", "who stores parseState.positional; addArgs reaches no option-syntax test", 4)

	h := c.mustFn(r, "(*Command).scanSubcommandHandler$1")
	pno := c.mustFn(r, "(*Parser).parseNonOption")
	aa := c.mustFn(r, "(*parseState).addArgs")
	fps := c.mustFn(r, "(*Command).fillParseState")
	if h == nil || pno == nil || aa == nil || fps == nil {
		return
	}
	// ORDER
	argsF := c.mustField(r, "Command", "args")
	hn := c.fname(h)
	for _, s := range c.storesTo(argsF) {
		fn := c.fname(s.Fn)
		v := c.term(s.Store.Val)
		ok := c.actsFor(s.Fn, h) && strings.HasPrefix(v, "append(Command.args(") && strings.Contains(v, "slice(new:[1]*Arg")
		r.Check(ok, "ORDER", fn, "store Command.args", c.ipos(s.Store), "c.args = append(c.args, arg) in the positional scan", "Command.args stored in "+fn+" as "+trunc(v, 100)+": the list is reset or reordered")
		if c.actsFor(s.Fn, h) {
			lp := innermost(c.loopsDeep(h), s.Store.Block())
			okL := false
			if lp != nil {
				if iff, isIf := lp.Header.Instrs[len(lp.Header.Instrs)-1].(*ssa.If); isIf {
					okL = strings.HasPrefix(c.cond(iff.Cond).Term, "lt(phi{(phi↺ + 1) | 0}, invoke:Type.NumField(call:(reflect.Value).Type(P0)")
				}
			}
			r.Check(okL, "ORDER", hn, "append inside the counted field loop", c.ipos(s.Store), "for i := 0; i < NumField(); i++", "the append is not inside the loop over the struct's fields")
			// appended element: the Arg literal whose value is realval.Field(i)
			okE := false
			if call, isCall := c.resolve(s.Store.Val).(*ssa.Call); isCall {
				for _, e := range sliceLitElems(call.Call.Args[1]) {
					if al, isAl := e.(*ssa.Alloc); isAl && typeName(al.Type()) == "Arg" {
						okE = true
					}
				}
			}
			r.Check(okE, "ORDER", hn, "appended element is the Arg just built", c.ipos(s.Store), "the Arg literal of field i", "appended element is not the Arg literal")
			// the Arg carries the tag of ITS field (base, description, … of the positional itself), like its value
			if call, isCall := c.resolve(s.Store.Val).(*ssa.Call); isCall {
				for _, e := range sliceLitElems(call.Call.Args[1]) {
					al, isAl := e.(*ssa.Alloc)
					if !isAl {
						continue
					}
					for _, ref := range *al.Referrers() {
						fa, ok := ref.(*ssa.FieldAddr)
						if !ok || fieldVarName(fieldObj(fa.X.Type(), fa.Field)) != "tag" {
							continue
						}
						for _, r2 := range *fa.Referrers() {
							st, ok := r2.(*ssa.Store)
							if !ok {
								continue
							}
							src := ""
							if u, ok := st.Val.(*ssa.UnOp); ok {
								if root, ok := c.cellRoot(u.X); ok {
									if stores, _ := c.cellStores(root); len(stores) == 1 {
										src = c.term(stores[0].Val)
									}
								}
							}
							if src == "" {
								src = c.term(st.Val)
							}
							if u, ok := st.Val.(*ssa.UnOp); ok && strings.HasPrefix(src, "cell:multiTag") {
								// constructor and Parse merged into a new helper returning (multiTag, error): the tag is the
								// helper's multiTag result, built there by newMultiTag from the helper's own argument
								if root, ok := c.cellRoot(u.X); ok {
									if stores, _ := c.cellStores(root); len(stores) == 1 {
										if ex, ok := stores[0].Val.(*ssa.Extract); ok {
											if hc, ok := ex.Tuple.(*ssa.Call); ok {
												if h := hc.Call.StaticCallee(); h != nil && c.isNew(h) && len(hc.Call.Args) == 1 {
													at := c.term(hc.Call.Args[0])
													fromArg := false
													for _, in2 := range c.instrs(h, c.isCallTo("newMultiTag")) {
														if p, ok := in2.(*ssa.Call).Call.Args[0].(*ssa.Parameter); ok && p.Parent() == h {
															fromArg = true
														}
													}
													if fromArg && (at == "conv[string](StructField.Tag(new:reflect.StructField))" || at == "StructField.Tag(new:reflect.StructField)") {
														src = "call:newMultiTag(StructField.Tag(new:reflect.StructField))"
													}
												}
											}
										}
									}
								}
							}
							if strings.HasPrefix(src, "cell:multiTag") {
								// the constructor written out: multiTag{value: string(field.Tag)}
								if u, ok := st.Val.(*ssa.UnOp); ok {
									if root, ok := c.cellRoot(u.X); ok {
										if al2, ok := root.(*ssa.Alloc); ok && al2.Referrers() != nil {
											for _, r3 := range *al2.Referrers() {
												if fa2, ok := r3.(*ssa.FieldAddr); ok && fieldVarName(fieldObj(fa2.X.Type(), fa2.Field)) == "value" && fa2.Referrers() != nil {
													for _, r4 := range *fa2.Referrers() {
														if s4, ok := r4.(*ssa.Store); ok && (c.term(s4.Val) == "conv[string](StructField.Tag(new:reflect.StructField))" || c.term(s4.Val) == "StructField.Tag(new:reflect.StructField)") {
															src = "call:newMultiTag(StructField.Tag(new:reflect.StructField))"
														}
													}
												}
											}
										}
									}
								}
							}
							r.Check(src == "call:newMultiTag(StructField.Tag(new:reflect.StructField))", "ORDER", hn, "a positional carries the tag of its own field", c.ipos(st), "Arg.tag = newMultiTag(field.Tag) of the field just scanned", "Arg.tag is "+trunc(src, 100)+": the field's own base/description tags are ignored when the positional is converted")
						}
					}
				}
			}
			// only exported fields become positionals (an unexported one cannot be set; it would swallow a token and shift the rest)
			_, okX := c.Requires(h, isInstr(s.Store), func(l Lit) bool {
				return !l.Pos && strings.HasPrefix(l.Term, "nonempty(StructField.PkgPath(")
			}, nil)
			r.Check(okX, "ORDER", hn, "unexported fields are skipped", c.ipos(s.Store), "append REQ(field.PkgPath == \"\")", "an unexported (possibly embedded) field of the positional struct becomes a positional argument")
		}
	}
	for _, name := range []string{"(*Command).fillParseState", "(*Command).Args"} {
		fn := c.mustFn(r, name)
		if fn == nil {
			continue
		}
		okC := false
		for _, in := range c.instrs(fn, c.isCallTo("copy")) {
			a := in.(*ssa.Call).Call.Args
			if (strings.HasPrefix(c.term(a[0]), "makeslice[[]*Arg](len(Command.args(P0)))") || c.term(a[0]) == "parseState.positional(P1)") && c.term(a[1]) == "Command.args(P0)" {
				okC = true
			}
		}
		r.Check(okC, "ORDER", name, "order-preserving copy of Command.args", c.pos(fn.Pos()), "copy(make([]*Arg, len(c.args)), c.args)", "the positional list is not copied in order")
	}

	// the declared list is never written in place by anybody else (an in-place filter or sort of c.args reorders the positionals)
	{
		scanH := c.Fn("(*Command).scanSubcommandHandler$1")
		nW := 0
		for _, fn := range c.Funcs {
			for _, b := range fn.Blocks {
				for _, in := range b.Instrs {
					var base ssa.Value
					what := ""
					switch v := in.(type) {
					case *ssa.Call:
						if bi, ok := v.Call.Value.(*ssa.Builtin); ok && bi.Name() == "append" {
							base, what = v.Call.Args[0], "append onto"
						} else if c.calleeName(&v.Call) == "sort.Slice" || c.calleeName(&v.Call) == "sort.SliceStable" {
							base, what = v.Call.Args[0], "sort of"
						} else if bi, ok := v.Call.Value.(*ssa.Builtin); ok && bi.Name() == "copy" {
							base, what = v.Call.Args[0], "copy into"
						}
					case *ssa.Store:
						if ia, ok := v.Addr.(*ssa.IndexAddr); ok {
							base, what = ia.X, "element store into"
						}
					}
					if base == nil || !aliasesField(c, base, "Command.args(", map[ssa.Value]bool{}) {
						continue
					}
					nW++
					r.Check(scanH != nil && c.actsFor(fn, scanH), "ORDER", c.fname(fn), "in-place write of the declared positional list", c.ipos(in), "only the positional scan appends to Command.args", what+" "+trunc(c.term(base), 80)+" in "+c.fname(fn)+": the backing array of Command.args is overwritten, so positionals are rebound or reordered")
				}
			}
		}
		r.Check(nW >= 1, "ORDER", "package", "writers of Command.args found", "", "≥ 1 (the scan's append)", fmt.Sprintf("%d", nW))
	}
	c.addArgsSkeleton(r, "FILL")

	// BEFORE-COMMANDS
	pn := c.fname(pno)
	// on every path where the positional queue is non-empty (the `queue empty` edges deleted): the token is
	// handed to addArgs before the function returns, and no command is activated and no command error raised
	{
		pending := litIs("nonempty(parseState.positional(P1))", false)
		isTok := func(in ssa.Instruction) bool {
			ci, ok := in.(ssa.CallInstruction)
			if !ok || c.calleeName(ci.Common()) != "(*parseState).addArgs" {
				return false
			}
			a := ci.Common().Args
			es := sliceLitElems(a[len(a)-1])
			return len(es) == 1 && c.term(es[0]) == "parseState.arg(P1)"
		}
		isRet := func(in ssa.Instruction) bool { _, ok := in.(*ssa.Return); return ok && in.Parent() == pno }
		q := &PathQ{c: c, Fn: pno, CutLit: pending, CutIn: isTok}
		path, found := q.Reach(entrySite(pno), factUnknown, isRet)
		r.Check(!found, "BEFORE-COMMANDS", pn, "a pending positional takes the token unconditionally", c.pos(pno.Pos()), "with a non-empty queue every return passes addArgs(current token)", "with a positional pending the function can return without binding the token: "+pathStr(path))
		other := func(in ssa.Instruction) bool {
			if c.isStoreTo(c.Field("Command", "Active"))(in) {
				return true
			}
			if ci, ok := in.(ssa.CallInstruction); ok {
				n := c.calleeName(ci.Common())
				if n == "(*Command).fillParseState" {
					return true
				}
				if n == "newErrorf" && c.term(ci.Common().Args[0]) == "ErrUnknownCommand" {
					return true
				}
			}
			return false
		}
		q2 := &PathQ{c: c, Fn: pno, CutLit: pending}
		path2, found2 := q2.Reach(entrySite(pno), factUnknown, other)
		r.Check(!found2, "BEFORE-COMMANDS", pn, "no command handling while a positional is pending", c.pos(pno.Pos()), "command activation and ErrUnknownCommand are unreachable with a non-empty queue", "with a positional pending a command can be activated or an unknown-command error raised: "+pathStr(path2))
	}
	nLk := 0
	for _, b := range c.blocks(pno) {
		for _, in := range b.Instrs {
			if lk, ok := in.(*ssa.Lookup); ok && strings.HasPrefix(c.term(lk.X), "lookup.commands(") {
				nLk++
				c.reqRule(r, "BEFORE-COMMANDS", pno, in, "command lookup only with an empty positional queue", litHas(false, "nonempty(parseState.positional(P1))"), "len(positional) == 0", nil)
			}
		}
	}
	if nLk == 0 {
		r.Fail("BEFORE-COMMANDS", pn, "command lookup", "", "not found")
	}

	// UNDISTURBED
	c.whoStores(r, "UNDISTURBED", "parseState", "retargs", map[string]string{
		"(*Parser).ParseArgs":   "makeslice[[]string](0)",
		"(*parseState).addArgs": "append(parseState.retargs(P0), ",
	}) // every unconsumed token passes through addArgs: none bypasses the pending positional fields
	c.whoStores(r, "UNDISTURBED", "parseState", "positional", map[string]string{
		"(*Command).fillParseState":    "makeslice[[]*Arg](len(Command.args(P0)))",
		"(*parseState).addArgs":        "slice(parseState.positional(P0), 1, _)",
		"(*completion).complete":       "",
		"(*completion).skipPositional": "",
	})
	set, _ := c.reach([]*ssa.Function{aa}, nil)
	var bad []string
	for fn := range set {
		switch c.fname(fn) {
		case "argumentIsOption", "argumentStartsOption", "stripOptionPrefix", "splitOption":
			bad = append(bad, c.fname(fn))
		}
	}
	r.Check(len(bad) == 0, "UNDISTURBED", c.fname(aa), "R(addArgs) has no option-syntax test", c.pos(aa.Pos()), fmt.Sprintf("%d functions reachable, none tests option syntax: after `--` option-looking tokens bind as positionals", len(set)), "addArgs reaches "+strings.Join(bad, ", "))
}

// aliasesField: v is (a slice of, or a phi over slices of) a load of the field whose term starts with prefix:
// writing through it writes the field's backing array.
func aliasesField(c *Ctx, v ssa.Value, prefix string, seen map[ssa.Value]bool) bool {
	if seen[v] {
		return false
	}
	seen[v] = true
	switch x := v.(type) {
	case *ssa.Slice:
		return aliasesField(c, x.X, prefix, seen)
	case *ssa.Phi:
		for _, e := range x.Edges {
			if aliasesField(c, e, prefix, seen) {
				return true
			}
		}
		return false
	case *ssa.Call:
		if bi, ok := x.Call.Value.(*ssa.Builtin); ok && bi.Name() == "append" {
			return aliasesField(c, x.Call.Args[0], prefix, seen)
		}
	}
	return strings.HasPrefix(c.term(v), prefix)
}

// addArgsSite: one way a function hands tokens to addArgs — directly, or through new wrappers (then Site is the
// wrapper call in the function's own body and the operand is judged in that call's frame).
type addArgsSite struct {
	Site ssa.Instruction
	In   ssa.Instruction // the addArgs call itself (Site, or inside the wrappers Site leads to)
	Kind string          // "tail" (the whole remaining queue), "tok" (the current token), "pop" (the token popped in this iteration), "other"
}

// addArgsKind classifies an addArgs call by its operand, rendered in the frames current at the time of the call
// (path predicates are evaluated inside the frame they are reached in).
func (c *Ctx) addArgsKind(in ssa.Instruction) string {
	ci, ok := in.(ssa.CallInstruction)
	if !ok || c.calleeName(ci.Common()) != "(*parseState).addArgs" {
		return ""
	}
	a := ci.Common().Args
	last := a[len(a)-1]
	t := c.term(last)
	switch es := sliceLitElems(last); {
	case strings.HasPrefix(t, "parseState.args("):
		return "tail"
	case len(es) == 1 && strings.HasPrefix(c.term(es[0]), "parseState.arg("):
		return "tok"
	case len(es) == 1 && strings.HasPrefix(c.term(es[0]), "call:(*parseState).pop("):
		return "pop"
	}
	return "other"
}

func (c *Ctx) addArgsSites(fn *ssa.Function) []addArgsSite {
	var out []addArgsSite
	for _, ci := range c.instrsCtx(fn, c.isCallTo("(*parseState).addArgs")) {
		site := ci.In
		if len(ci.Frames) > 0 {
			site = ci.Frames[0]
		}
		kind := "other"
		c.within(ci.Frames, func() { kind = c.addArgsKind(ci.In) })
		if c.addArgsKind(ci.In) == kind {
			// the call speaks for itself (directly in fn, or in a helper with one call site whose parameters resolve):
			// rules address it where it stands, with the conditions around it
			site = ci.In
		}
		out = append(out, addArgsSite{site, ci.In, kind})
	}
	return out
}
