package main

// np.go — NP: no-panic prover. Enumerates every instruction of the scoped
// functions that can raise a run-time panic (index, slice, nil dereference,
// single-result type assertion, explicit panic, integer division, contract of
// a trusted callee) and discharges it from dominating branch conditions with a
// difference-logic bound engine, kind guards and nil guards. What cannot be
// discharged is looked up in an explicit allow-list keyed by function +
// construct (with expected multiplicity); the rest is VIOLATED.

import (
	"fmt"
	"go/token"
	"go/types"
	"os"
	"sort"
	"strings"

	"golang.org/x/tools/go/ssa"
)

type npSite struct {
	fn        *ssa.Function
	in        ssa.Instruction
	kind      string // index | slice | nil | assert | panic | div | contract | mapwrite
	construct string
}

// DomFact is a branch literal known to hold at a program point, with the If
// that established it. Alts != nil means a disjunction (one of Alts holds).
type DomFact struct {
	Cond ssa.Value
	Pos  bool
	If   *ssa.If
	Alts []DomFact
}

// edgeDominates: taking successor si of block d is the only way to reach b.
func edgeDominates(d *ssa.BasicBlock, si int, b *ssa.BasicBlock) bool {
	s := d.Succs[si]
	if len(d.Succs) == 2 && d.Succs[0] == d.Succs[1] {
		return false
	}
	if !s.Dominates(b) {
		return false
	}
	for _, p := range s.Preds {
		if p == d {
			continue
		}
		if !s.Dominates(p) {
			return false
		}
	}
	// d→s must be the only edge from d into s (guaranteed above) and the other
	// successor must not also lead to s without passing d... covered by dominance of s over its other preds.
	return true
}

// domFacts returns the branch facts that hold on entry to block b.
func (c *Ctx) domFacts(b *ssa.BasicBlock) []DomFact {
	var out []DomFact
	seen := map[*ssa.BasicBlock]bool{}
	for cur := b; cur != nil; cur = cur.Idom() {
		if seen[cur] {
			break
		}
		seen[cur] = true
		// disjunctive fact: every predecessor edge of cur carries a literal
		if len(cur.Preds) > 1 {
			var alts []DomFact
			ok := true
			for _, p := range cur.Preds {
				if cur.Dominates(p) { // back edge
					ok = false
					break
				}
				iff, isIf := p.Instrs[len(p.Instrs)-1].(*ssa.If)
				if !isIf || p.Succs[0] == p.Succs[1] {
					ok = false
					break
				}
				si := 0
				if p.Succs[1] == cur {
					si = 1
				}
				alts = append(alts, DomFact{Cond: iff.Cond, Pos: si == 0, If: iff})
			}
			if ok && len(alts) > 1 {
				out = append(out, DomFact{Alts: alts})
			}
		}
		d := cur.Idom()
		if d == nil {
			break
		}
		// walk all dominators: any If in a dominator whose edge dominates b
	}
	for d := b.Idom(); d != nil; d = d.Idom() {
		if len(d.Instrs) == 0 {
			continue
		}
		iff, ok := d.Instrs[len(d.Instrs)-1].(*ssa.If)
		if !ok {
			continue
		}
		for si := range d.Succs {
			if edgeDominates(d, si, b) {
				out = append(out, DomFact{Cond: iff.Cond, Pos: si == 0, If: iff})
			}
		}
	}
	// a named boolean built by && / || (a phi of constants and one computed operand): when it has the
	// polarity only the computed operand can give, that operand held and so did everything on the way to it
	out = append(out, c.expandBoolPhis(out, 0)...)
	// a block of a new (virtually inlined) helper inherits the facts holding at its unique call site
	if site := c.activeSite(b.Parent()); site != nil && site.Block() != nil {
		out = append(out, c.domFacts(site.Block())...)
	}
	return out
}

func (c *Ctx) expandBoolPhis(facts []DomFact, depth int) []DomFact {
	var out []DomFact
	if depth > 3 {
		return nil
	}
	for _, f := range facts {
		if f.Alts != nil {
			continue
		}
		cond, pos := f.Cond, f.Pos
		for i := 0; i < 4; i++ {
			if u, ok := cond.(*ssa.UnOp); ok && u.Op == token.NOT {
				cond, pos = u.X, !pos
				continue
			}
			break
		}
		ph, ok := cond.(*ssa.Phi)
		if !ok {
			continue
		}
		if bt, ok := ph.Type().Underlying().(*types.Basic); !ok || bt.Info()&types.IsBoolean == 0 {
			continue
		}
		cand := -1
		n := 0
		for i, e := range ph.Edges {
			if k, isC := e.(*ssa.Const); isC && k.Value != nil {
				if constantBool(k) != pos {
					continue // this edge cannot give the polarity
				}
			}
			cand = i
			n++
		}
		if n > 1 {
			// several edges can give the polarity (the true case of ||, the false case of &&): a disjunction,
			// one alternative per edge — the operand itself for a computed edge, the branch literal that
			// leads to a constant edge otherwise
			var alts []DomFact
			okAlts := true
			for i, e := range ph.Edges {
				if k, isC := e.(*ssa.Const); isC && k.Value != nil {
					if constantBool(k) != pos {
						continue
					}
					pr := ph.Block().Preds[i]
					iff, isIf := pr.Instrs[len(pr.Instrs)-1].(*ssa.If)
					if !isIf || pr.Succs[0] == pr.Succs[1] {
						okAlts = false
						break
					}
					alts = append(alts, DomFact{Cond: iff.Cond, Pos: pr.Succs[0] == ph.Block(), If: iff})
					continue
				}
				alts = append(alts, DomFact{Cond: e, Pos: pos, If: f.If})
			}
			if okAlts && len(alts) > 1 {
				out = append(out, DomFact{Cond: f.Cond, Pos: f.Pos, If: f.If, Alts: alts})
			}
			continue
		}
		if n != 1 {
			continue
		}
		pred := ph.Block().Preds[cand]
		var derived []DomFact
		if _, isC := ph.Edges[cand].(*ssa.Const); !isC {
			var iff *ssa.If
			if x, ok := pred.Instrs[len(pred.Instrs)-1].(*ssa.If); ok {
				iff = x
			} else if f.If != nil {
				iff = f.If
			}
			derived = append(derived, DomFact{Cond: ph.Edges[cand], Pos: pos, If: iff})
		}
		if iff, ok := pred.Instrs[len(pred.Instrs)-1].(*ssa.If); ok && pred.Succs[0] != pred.Succs[1] {
			derived = append(derived, DomFact{Cond: iff.Cond, Pos: pred.Succs[0] == ph.Block(), If: iff})
		}
		// facts dominating the predecessor (plain ones only; no recursion into its own expansion here)
		for d := pred.Idom(); d != nil; d = d.Idom() {
			iff, ok := d.Instrs[len(d.Instrs)-1].(*ssa.If)
			if !ok {
				continue
			}
			for si := range d.Succs {
				if edgeDominates(d, si, pred) {
					derived = append(derived, DomFact{Cond: iff.Cond, Pos: si == 0, If: iff})
				}
			}
		}
		out = append(out, derived...)
		out = append(out, c.expandBoolPhis(derived, depth+1)...)
	}
	return out
}

// ---- linear forms and the difference-constraint engine ---------------------------

type lin struct {
	sym string // "" for a pure constant
	k   int64
}

type npCtx struct {
	c  *Ctx
	fn *ssa.Function
	t  *termer
	// difference constraints: x - y <= w  stored as edge y -> x with weight w
	edges map[string]map[string]int64
	atoms map[string]ssa.Value
	// facts in force (for reporting)
	used  []string
	use   ssa.Instruction
	depth int
	fx    *Facts
}

// atomTerm: term with impure call results and phis tagged by SSA name, so that
// two different values never share an atom.
func (n *npCtx) atomTerm(v ssa.Value) string {
	v = n.c.resolve(v)
	if arg, ok := isLenCall(v); ok {
		return "len(" + n.atomTerm(arg) + ")"
	}
	s := n.c.term(v)
	switch x := v.(type) {
	case *ssa.Phi:
		return s + "@" + x.Name()
	case *ssa.Call:
		if !npPureCall(n.c, x) {
			return s + "@" + x.Name()
		}
	case *ssa.Extract:
		if call, ok := x.Tuple.(*ssa.Call); ok && !npPureCall(n.c, call) {
			return s + "@" + call.Name()
		}
	case *ssa.UnOp:
		if x.Op == token.MUL {
			if _, isIdx := x.X.(*ssa.IndexAddr); isIdx {
				return s
			}
		}
	}
	return s
}

var npPurity *ordA

func npPureCall(c *Ctx, call *ssa.Call) bool {
	if npPurity == nil || npPurity.c != c {
		npPurity = &ordA{c: c, retTainted: map[*ssa.Function]bool{}, pureMemo: map[*ssa.Function]int{}}
	}
	return npPurity.pureCall(call)
}

func (n *npCtx) linOf(v ssa.Value) lin {
	v = n.c.resolve(v)
	if k, ok := constInt(v); ok {
		return lin{"", k}
	}
	switch x := v.(type) {
	case *ssa.BinOp:
		if x.Op == token.ADD || x.Op == token.SUB {
			if k, ok := constInt(x.Y); ok {
				l := n.linOf(x.X)
				if x.Op == token.SUB {
					k = -k
				}
				return lin{l.sym, l.k + k}
			}
			if k, ok := constInt(x.X); ok && x.Op == token.ADD {
				l := n.linOf(x.Y)
				return lin{l.sym, l.k + k}
			}
		}
	case *ssa.Convert:
		if b, ok := x.X.Type().Underlying().(*types.Basic); ok && b.Info()&types.IsInteger != 0 {
			if b2, ok := x.Type().Underlying().(*types.Basic); ok && b2.Info()&types.IsInteger != 0 {
				return n.linOf(x.X)
			}
		}
	}
	a := n.atomTerm(v)
	n.noteAtom(a, v)
	return lin{a, 0}
}

func (n *npCtx) lenAtom(x ssa.Value) string {
	x = n.c.resolve(x)
	a := "len(" + n.atomTerm(x) + ")"
	if _, ok := n.atoms[a]; !ok {
		n.atoms[a] = nil
		n.add("0", a, 0) // 0 - len <= 0   (len >= 0):  edge a -> "0" weight 0 means 0 - a <= 0
		n.lenAxioms(a, x)
	}
	return a
}

// add records  x - y <= w.
func (n *npCtx) add(x, y string, w int64) {
	if n.edges[y] == nil {
		n.edges[y] = map[string]int64{}
	}
	if old, ok := n.edges[y][x]; !ok || w < old {
		n.edges[y][x] = w
	}
}

// le: a <= b (linear forms)
func (n *npCtx) addLe(a, b lin) {
	// a.sym + a.k <= b.sym + b.k   →  a.sym - b.sym <= b.k - a.k
	as, bs := a.sym, b.sym
	if as == "" {
		as = "0"
	}
	if bs == "" {
		bs = "0"
	}
	n.add(as, bs, b.k-a.k)
}

// provesLe with induction over phi edges: a phi is ≤ B (≥ A) if every edge is,
// in the context of its predecessor block, assuming the phi itself is.
func (n *npCtx) provesLe(a, b lin) bool {
	if n.provesLeDirect(a, b) {
		return true
	}
	if n.depth > 3 || n.use == nil {
		return false
	}
	try := func(p *ssa.Phi, upper bool) bool {
		psym := a.sym
		if !upper {
			psym = b.sym
		}
		for i, e := range p.Edges {
			pred := p.Block().Preds[i]
			m, _ := n.c.npAtEdge(pred, p.Block(), n.fx)
			m.depth = n.depth + 1
			m.fx = n.fx
			le := m.linOf(e)
			// the atoms of the goal keep their axioms (len ≥ 0, …) in the edge context
			for _, s := range []string{a.sym, b.sym} {
				if v, ok := n.atoms[s]; ok && s != "" {
					m.noteAtom(s, v)
				}
			}
			// inductive hypothesis: the bound holds for the phi's current value
			if upper {
				m.addLe(a, b)
			} else {
				m.addLe(a, b)
			}
			m.searchAxioms()
			if upper {
				if m.provesLeDirect(lin{le.sym, le.k + a.k}, b) {
					continue
				}
				if le.sym != psym && m.provesLe(lin{le.sym, le.k + a.k}, b) {
					continue
				}
				return false
			}
			if m.provesLeDirect(a, lin{le.sym, le.k + b.k}) {
				continue
			}
			if le.sym != psym && m.provesLe(a, lin{le.sym, le.k + b.k}) {
				continue
			}
			return false
		}
		return true
	}
	if p, ok := n.atoms[a.sym].(*ssa.Phi); ok && a.sym != "" {
		if try(p, true) {
			return true
		}
	}
	if p, ok := n.atoms[b.sym].(*ssa.Phi); ok && b.sym != "" {
		if try(p, false) {
			return true
		}
	}
	// the result of a package function: the bound holds if it holds for the value of every
	// return statement, in the callee's own context extended by the facts at this call site
	tryCall := func(call *ssa.Call, idx int, upper bool) bool {
		c := n.c
		cal := call.Common().StaticCallee()
		if cal == nil || cal.Blocks == nil || cal.Pkg != c.Pkg || idx >= cal.Signature.Results().Len() || (idx == 0 && cal.Signature.Results().Len() != 1 && !c.isNew(cal)) {
			return false
		}
		for _, f := range c.frames {
			if f.Common().StaticCallee() == cal {
				return false
			}
		}
		if len(c.frames) >= 3 {
			return false
		}
		c.frames = append(c.frames, call)
		defer func() { c.frames = c.frames[:len(c.frames)-1] }()
		rets := returnsOf(cal)
		if len(rets) == 0 {
			return false
		}
		for _, ret := range rets {
			m, _ := c.npAt(ret, n.fx)
			m.depth = n.depth + 1
			for _, s := range []string{a.sym, b.sym} {
				if v, ok := n.atoms[s]; ok && s != "" {
					if cv, isCall := v.(*ssa.Call); !isCall || cv != call {
						m.noteAtom(s, v)
					}
				}
			}
			if idx >= len(ret.Results) {
				return false
			}
			le := m.linOf(ret.Results[idx])
			m.searchAxioms()
			if upper {
				if !m.provesLe(lin{le.sym, le.k + a.k}, b) {
					return false
				}
			} else if !m.provesLe(a, lin{le.sym, le.k + b.k}) {
				return false
			}
		}
		return true
	}
	if call, ok := n.atoms[a.sym].(*ssa.Call); ok && a.sym != "" {
		if tryCall(call, 0, true) {
			return true
		}
	}
	if call, ok := n.atoms[b.sym].(*ssa.Call); ok && b.sym != "" {
		if tryCall(call, 0, false) {
			return true
		}
	}
	// one result of a multi-result helper: (pos, suffix) := wrapBreak(line, l)
	if ex, ok := n.atoms[a.sym].(*ssa.Extract); ok && a.sym != "" {
		if call, ok := ex.Tuple.(*ssa.Call); ok && tryCall(call, ex.Index, true) {
			return true
		}
	}
	if ex, ok := n.atoms[b.sym].(*ssa.Extract); ok && b.sym != "" {
		if call, ok := ex.Tuple.(*ssa.Call); ok && tryCall(call, ex.Index, false) {
			return true
		}
	}
	return false
}

// proves a <= b from the constraint graph alone
func (n *npCtx) provesLeDirect(a, b lin) bool {
	as, bs := a.sym, b.sym
	if as == "" {
		as = "0"
	}
	if bs == "" {
		bs = "0"
	}
	if as == bs {
		return a.k <= b.k
	}
	// shortest path bs -> as  <= b.k - a.k
	d, ok := n.shortest(bs, as)
	return ok && d <= b.k-a.k
}

func (n *npCtx) shortest(from, to string) (int64, bool) {
	dist := map[string]int64{from: 0}
	// Bellman-Ford (graphs are tiny)
	nodes := map[string]bool{from: true, to: true}
	for y, m := range n.edges {
		nodes[y] = true
		for x := range m {
			nodes[x] = true
		}
	}
	for i := 0; i < len(nodes)+1; i++ {
		changed := false
		for y, m := range n.edges {
			dy, ok := dist[y]
			if !ok {
				continue
			}
			for x, w := range m {
				if dx, ok := dist[x]; !ok || dy+w < dx {
					dist[x] = dy + w
					changed = true
				}
			}
		}
		if !changed {
			break
		}
	}
	d, ok := dist[to]
	return d, ok
}

func (n *npCtx) noteAtom(a string, v ssa.Value) {
	if _, ok := n.atoms[a]; ok {
		return
	}
	n.atoms[a] = v
	// a load of an integer struct field that is never written a negative value (unexported field,
	// every store in the package proven ≥ 0, address never taken for other purposes)
	if u, ok := v.(*ssa.UnOp); ok && u.Op == token.MUL {
		if fa, ok := u.X.(*ssa.FieldAddr); ok {
			if fld := fieldObj(fa.X.Type(), fa.Field); fld != nil && n.c.nonNegField(fld) {
				n.addLe(lin{"", 0}, lin{a, 0})
			}
		}
	}
	switch x := v.(type) {
	case *ssa.Call:
		if arg, ok := isLenCall(x); ok {
			_ = arg
		}
		name := n.c.calleeName(x.Common())
		switch name {
		case "len":
			// the atom of a len() call is the len atom itself
			n.add("0", a, 0)
			n.lenAxioms(a, n.c.resolve(x.Call.Args[0]))
		case "strings.Index", "strings.LastIndex", "strings.IndexRune", "strings.IndexByte", "strings.IndexAny", "strings.LastIndexByte":
			// -1 <= r <= len(x)  (and r + len(sep) <= len(x) when r >= 0: added on demand)
			n.addLe(lin{"", -1}, lin{a, 0})
			n.addLe(lin{a, 0}, lin{n.lenAtom(x.Call.Args[0]), 0})
			// a match of a non-empty pattern starts before the end: r <= len(x) - 1 (also true for r == -1)
			nonEmpty := name == "strings.IndexRune" || name == "strings.IndexByte" || name == "strings.LastIndexByte"
			if s, ok := constStr(x.Call.Args[1]); ok && s != "" {
				nonEmpty = true // Index/LastIndex with a non-empty separator, IndexAny with a non-empty set
			}
			if nonEmpty {
				n.addLe(lin{a, 0}, lin{n.lenAtom(x.Call.Args[0]), -1})
			}
		case "unicode/utf8.RuneLen":
			n.addLe(lin{"", -1}, lin{a, 0})
			n.addLe(lin{a, 0}, lin{"", 4})
		case "unicode/utf8.RuneCountInString":
			n.addLe(lin{"", 0}, lin{a, 0})
			n.addLe(lin{a, 0}, lin{n.lenAtom(x.Call.Args[0]), 0})
		case "(reflect.Value).Len", "invoke:Type.NumField", "(reflect.Value).NumField", "invoke:Type.NumIn", "(*bytes.Buffer).Len":
			n.addLe(lin{"", 0}, lin{a, 0})
		}
	case *ssa.Extract:
		if call, ok := x.Tuple.(*ssa.Call); ok {
			n.errGuardedResult(a, x, call)
			name := n.c.calleeName(call.Common())
			if (name == "unicode/utf8.DecodeRuneInString" || name == "unicode/utf8.DecodeLastRuneInString") && x.Index == 1 {
				n.addLe(lin{"", 0}, lin{a, 0})
				n.addLe(lin{a, 0}, lin{n.lenAtom(call.Call.Args[0]), 0})
			}
		}
	case *ssa.Phi:
		if b, ok := x.Type().Underlying().(*types.Basic); ok && b.Info()&types.IsInteger != 0 {
			if m, ok := phiLowerBound(x); ok {
				n.addLe(lin{"", m}, lin{a, 0})
			}
			// lockstep induction variables: a sibling phi of the same header that starts d apart
			// and takes the same constant step on every back edge stays d apart
			for _, in := range x.Block().Instrs {
				q, ok := in.(*ssa.Phi)
				if !ok {
					break
				}
				if q == x {
					continue
				}
				if d, ok := lockstep(x, q); ok {
					qa := n.atomTerm(q)
					if _, seen := n.atoms[qa]; !seen {
						n.atoms[qa] = q
						if m, ok := phiLowerBound(q); ok {
							n.addLe(lin{"", m}, lin{qa, 0})
						}
					}
					// x - q = d
					n.addLe(lin{a, 0}, lin{qa, d})
					n.addLe(lin{qa, d}, lin{a, 0})
				}
			}
		}
	case *ssa.Next:
	}
}

// rowLen: x is a row M[i] of a local table M = make([][]T, …) whose every row
// is assigned `make([]T, L)` inside a loop that ranges over all of M and has no
// early exit; at a use after that loop (or right after the assignment of the
// same row) len(x) = L.
func (n *npCtx) rowLen(a string, x ssa.Value) {
	u, ok := x.(*ssa.UnOp)
	if !ok || u.Op != token.MUL || n.use == nil {
		return
	}
	ia, ok := u.X.(*ssa.IndexAddr)
	if !ok {
		return
	}
	m, ok := n.c.resolve(ia.X).(*ssa.MakeSlice)
	if !ok || m.Parent() != n.fn {
		return
	}
	// M must not escape
	if refs := m.Referrers(); refs != nil {
		for _, r := range *refs {
			switch y := r.(type) {
			case *ssa.IndexAddr, *ssa.DebugRef:
			case *ssa.Call:
				if _, isLen := isLenCall(y); !isLen {
					return
				}
			default:
				return
			}
		}
	}
	var L *lin
	var initLoop *Loop
	loops := loopsOf(n.fn)
	for _, b := range n.fn.Blocks {
		for _, in := range b.Instrs {
			st, ok := in.(*ssa.Store)
			if !ok {
				continue
			}
			sa, ok := st.Addr.(*ssa.IndexAddr)
			if !ok || n.c.resolve(sa.X) != ssa.Value(m) {
				continue
			}
			ms, ok := st.Val.(*ssa.MakeSlice)
			if !ok {
				return
			}
			l := n.linOf(ms.Len)
			if L != nil && *L != l {
				return
			}
			L = &l
			// the store sits in a loop over all rows: header test idx < len(M), only exit is the header
			lp := innermost(loops, b)
			if lp == nil {
				return
			}
			for _, e := range lp.exits() {
				if e.B != lp.Header {
					return
				}
			}
			iff, ok := lp.Header.Instrs[len(lp.Header.Instrs)-1].(*ssa.If)
			if !ok {
				return
			}
			bo, ok := iff.Cond.(*ssa.BinOp)
			if !ok || bo.Op != token.LSS || bo.X != sa.Index {
				return
			}
			if arg, ok := isLenCall(n.c.resolve(bo.Y)); !ok || n.c.resolve(arg) != ssa.Value(m) {
				return
			}
			if lb, ok := n.constLower(n.linOf(sa.Index)); !ok || lb != 0 {
				// the induction variable starts at 0
				if p, isPhi := indexPhi(sa.Index); !isPhi || !startsAtZero(p, sa.Index) {
					return
				}
			}
			if initLoop != nil && initLoop != lp {
				return
			}
			initLoop = lp
			// use right after the assignment of the same row
			if ia.Index == sa.Index && instrDominates(st, n.use) && lp.Blocks[n.use.Block()] {
				n.addLe(lin{a, 0}, l)
				n.addLe(l, lin{a, 0})
				return
			}
		}
	}
	if L == nil || initLoop == nil {
		return
	}
	var after *ssa.BasicBlock
	for _, hs := range initLoop.Header.Succs {
		if !initLoop.Blocks[hs] {
			after = hs
		}
	}
	if after != nil && after.Dominates(n.use.Block()) {
		n.addLe(lin{a, 0}, *L)
		n.addLe(*L, lin{a, 0})
	}
}

func indexPhi(v ssa.Value) (*ssa.Phi, bool) {
	if bo, ok := v.(*ssa.BinOp); ok && bo.Op == token.ADD {
		if p, ok := bo.X.(*ssa.Phi); ok {
			return p, true
		}
	}
	p, ok := v.(*ssa.Phi)
	return p, ok
}

// startsAtZero: idx is `phi+1` with phi starting at -1, or a phi starting at 0, stepping by 1.
func startsAtZero(p *ssa.Phi, idx ssa.Value) bool {
	want := int64(0)
	if idx != ssa.Value(p) {
		want = -1
	}
	for _, e := range p.Edges {
		if k, ok := constInt(e); ok {
			if k != want {
				return false
			}
			continue
		}
		bo, ok := e.(*ssa.BinOp)
		if !ok || bo.Op != token.ADD || bo.X != ssa.Value(p) {
			return false
		}
		if k, ok := constInt(bo.Y); !ok || k != 1 {
			return false
		}
	}
	return true
}

// lenAxioms adds what is known about len(x) by construction.
func (n *npCtx) lenAxioms(a string, x ssa.Value) {
	n.rowLen(a, x)
	switch v := x.(type) {
	case *ssa.MakeSlice:
		l := n.linOf(v.Len)
		n.addLe(lin{a, 0}, l)
		n.addLe(l, lin{a, 0})
	case *ssa.Slice:
		// len(x[lo:hi]) = hi - lo  (only when one side is absent/constant)
		var hi lin
		if v.High != nil {
			hi = n.linOf(v.High)
		} else if _, isStrOrSlice := v.X.Type().Underlying().(*types.Pointer); !isStrOrSlice {
			hi = lin{n.lenAtom(v.X), 0}
		} else if arr, ok := v.X.Type().Underlying().(*types.Pointer).Elem().Underlying().(*types.Array); ok {
			hi = lin{"", arr.Len()}
		}
		if v.Low == nil {
			n.addLe(lin{a, 0}, hi)
			n.addLe(hi, lin{a, 0})
		} else if k, ok := constInt(v.Low); ok {
			n.addLe(lin{a, 0}, lin{hi.sym, hi.k - k})
			n.addLe(lin{hi.sym, hi.k - k}, lin{a, 0})
		} else {
			// len <= hi
			n.addLe(lin{a, 0}, hi)
		}
	case *ssa.Call:
		name := n.c.calleeName(v.Common())
		switch name {
		case "strings.SplitN", "strings.Split", "strings.SplitAfterN":
			// sep non-empty constant and n != 0  ⇒  len >= 1 ; SplitN with n=k ⇒ len <= k
			if sep, ok := constStr(v.Call.Args[1]); ok && sep != "" {
				okN := true
				if name != "strings.Split" {
					if k, ok := constInt(v.Call.Args[2]); ok && k != 0 {
						if k > 0 {
							n.addLe(lin{a, 0}, lin{"", k})
						}
					} else {
						okN = false
					}
				}
				if okN {
					n.addLe(lin{"", 1}, lin{a, 0})
				}
			}
		case "append":
			base := n.lenAtom(v.Call.Args[0])
			n.addLe(lin{base, 0}, lin{a, 0})
		case "(reflect.Value).MapKeys":
		}
	case *ssa.Const:
		if s, ok := constStr(v); ok {
			n.addLe(lin{a, 0}, lin{"", int64(len(s))})
			n.addLe(lin{"", int64(len(s))}, lin{a, 0})
		}
	case *ssa.Phi:
		n.collectLen(a, v)
	}
}

// collectLen: S is built by the "collect" idiom — empty before a `for … range Y` loop, extended by
// exactly one element on every trip (every back edge carries append(S, e)), and the loop is left only
// by exhausting the range. At a use after the loop len(S) = len(Y).
func (n *npCtx) collectLen(a string, p *ssa.Phi) {
	if n.use == nil {
		return
	}
	y, _, loop, ok := collectIdiom(n.c, p)
	if !ok || loop.Blocks[n.use.Block()] {
		return
	}
	ya := n.lenAtom(y)
	n.addLe(lin{a, 0}, lin{ya, 0})
	n.addLe(lin{ya, 0}, lin{a, 0})
}

// collectIdiom: p is a slice built by the "collect" idiom — empty before a `for … range Y` loop,
// extended by exactly one element on every trip (every back edge carries append(p, e)), the loop left
// only by exhausting the range. Returns Y, the element appended and the loop.
func collectIdiom(c *Ctx, p *ssa.Phi) (y ssa.Value, elem ssa.Value, loop *Loop, ok bool) {
	if !isSliceT(p.Type()) {
		return nil, nil, nil, false
	}
	hdr := p.Block()
	for _, l := range loopsOf(hdr.Parent()) {
		if l.Header == hdr {
			loop = l
		}
	}
	if loop == nil {
		return nil, nil, nil, false
	}
	for i, e := range p.Edges {
		pred := hdr.Preds[i]
		if !loop.Blocks[pred] {
			// initial value: an empty slice
			switch x := c.resolve(e).(type) {
			case *ssa.MakeSlice:
				if k, isK := constInt(x.Len); !isK || k != 0 {
					return nil, nil, nil, false
				}
			case *ssa.Const:
				if x.Value != nil {
					return nil, nil, nil, false
				}
			default:
				return nil, nil, nil, false
			}
			continue
		}
		call, isCall := e.(*ssa.Call)
		if !isCall || c.calleeName(call.Common()) != "append" || len(call.Call.Args) != 2 || call.Call.Args[0] != ssa.Value(p) {
			return nil, nil, nil, false
		}
		es := sliceLitElems(call.Call.Args[1])
		if len(es) != 1 {
			return nil, nil, nil, false
		}
		elem = es[0]
	}
	for _, e := range loop.exits() {
		if e.B != hdr {
			return nil, nil, nil, false
		}
	}
	iff, isIf := hdr.Instrs[len(hdr.Instrs)-1].(*ssa.If)
	if !isIf {
		return nil, nil, nil, false
	}
	bo, isBo := iff.Cond.(*ssa.BinOp)
	if !isBo || bo.Op != token.LSS {
		return nil, nil, nil, false
	}
	inc, isInc := bo.X.(*ssa.BinOp)
	if !isInc || inc.Op != token.ADD {
		return nil, nil, nil, false
	}
	ip, isPhi := inc.X.(*ssa.Phi)
	if k, isC := constInt(inc.Y); !isPhi || !isC || k != 1 || ip.Block() != hdr {
		return nil, nil, nil, false
	}
	for i, e := range ip.Edges {
		if !loop.Blocks[hdr.Preds[i]] {
			if k, isK := constInt(e); !isK || k != -1 {
				return nil, nil, nil, false
			}
		} else if e != ssa.Value(inc) {
			return nil, nil, nil, false
		}
	}
	yv, isLen := isLenCall(bo.Y)
	if !isLen || elem == nil {
		return nil, nil, nil, false
	}
	return yv, elem, loop, true
}

// assume adds the constraints implied by a branch condition.
func (n *npCtx) assume(cond ssa.Value, pos bool) {
	c := n.c
	cond = c.resolve(cond)
	switch x := cond.(type) {
	case *ssa.UnOp:
		if x.Op == token.NOT {
			n.assume(x.X, !pos)
		}
		return
	case *ssa.BinOp:
		a, b := c.resolve(x.X), c.resolve(x.Y)
		isInt := func(v ssa.Value) bool {
			bt, ok := v.Type().Underlying().(*types.Basic)
			return ok && bt.Info()&types.IsInteger != 0
		}
		isStr := func(v ssa.Value) bool {
			bt, ok := v.Type().Underlying().(*types.Basic)
			return ok && bt.Info()&types.IsString != 0
		}
		op := x.Op
		if !pos {
			switch op {
			case token.LSS:
				op = token.GEQ
			case token.LEQ:
				op = token.GTR
			case token.GTR:
				op = token.LEQ
			case token.GEQ:
				op = token.LSS
			case token.EQL:
				op = token.NEQ
			case token.NEQ:
				op = token.EQL
			}
		}
		if isInt(a) && isInt(b) {
			la, lb := n.linOf(a), n.linOf(b)
			switch op {
			case token.LSS:
				n.addLe(lin{la.sym, la.k + 1}, lb)
			case token.LEQ:
				n.addLe(la, lb)
			case token.GTR:
				n.addLe(lin{lb.sym, lb.k + 1}, la)
			case token.GEQ:
				n.addLe(lb, la)
			case token.EQL:
				n.addLe(la, lb)
				n.addLe(lb, la)
			case token.NEQ:
				// x != 0 with x >= 0 known  ⇒ x >= 1 ; x != -1 with x >= -1 ⇒ x >= 0
				for k := 0; k < 2; k++ {
					if lb.sym == "" && la.sym != "" {
						if n.provesLe(lin{"", lb.k}, la) { // la >= lb.k
							n.addLe(lin{"", lb.k + 1}, la)
						}
						if n.provesLe(la, lin{"", lb.k}) {
							n.addLe(la, lin{"", lb.k - 1})
						}
					}
					la, lb = lb, la
				}
			}
			return
		}
		if isStr(a) && isStr(b) {
			for k := 0; k < 2; k++ {
				if s, ok := constStr(b); ok {
					la := n.lenAtom(a)
					switch op {
					case token.EQL:
						n.addLe(lin{la, 0}, lin{"", int64(len(s))})
						n.addLe(lin{"", int64(len(s))}, lin{la, 0})
					case token.NEQ:
						if s == "" {
							n.addLe(lin{"", 1}, lin{la, 0})
						}
					}
				}
				a, b = b, a
			}
			return
		}
	case *ssa.Call:
		name := c.calleeName(x.Common())
		switch name {
		case "strings.HasPrefix", "strings.HasSuffix":
			if pos {
				if s, ok := constStr(x.Call.Args[1]); ok {
					n.addLe(lin{"", int64(len(s))}, lin{n.lenAtom(x.Call.Args[0]), 0})
				} else {
					n.addLe(lin{n.lenAtom(x.Call.Args[1]), 0}, lin{n.lenAtom(x.Call.Args[0]), 0})
				}
			}
			return
		}
		// one-block predicate helper: inline its returned condition
		if cal := x.Common().StaticCallee(); cal != nil && cal.Blocks != nil && len(cal.Blocks) == 1 && (cal.Pkg == c.Pkg) {
			if ret, ok := cal.Blocks[0].Instrs[len(cal.Blocks[0].Instrs)-1].(*ssa.Return); ok && len(ret.Results) == 1 {
				n.assumeInlined(cal, x, ret.Results[0], pos)
			}
		}
		// a boolean package function: what must hold for it to answer `pos`
		if cal := x.Common().StaticCallee(); cal != nil && cal.Blocks != nil && cal.Pkg == c.Pkg && n.depth < 3 {
			n.assumeVerdict(cal, x, pos)
		}
	}
}

// assumeVerdict: the call answered `verdict`. Every return of the callee that can produce that answer
// is examined; the branch conditions common to all of them (those dominating the return, or the phi
// edge that carries the non-constant answer) necessarily held, and are assumed with the callee's
// parameters bound to the arguments of this call. Pure conditions only (no memory the callee writes).
func (n *npCtx) assumeVerdict(cal *ssa.Function, call *ssa.Call, verdict bool) {
	c := n.c
	res := cal.Signature.Results()
	if res.Len() != 1 {
		return
	}
	if bt, ok := res.At(0).Type().Underlying().(*types.Basic); !ok || bt.Info()&types.IsBoolean == 0 {
		return
	}
	for _, f := range c.frames {
		if f.Common().StaticCallee() == cal {
			return
		}
	}
	origins, ok := c.verdictOrigins(cal, verdict)
	if !ok {
		return
	}
	key := func(f vfact) string { return fmt.Sprintf("%p/%v", f.cond, f.pos) }
	var common map[string]vfact
	for _, fs := range origins {
		m := map[string]vfact{}
		for _, f := range fs {
			m[key(f)] = f
		}
		if common == nil {
			common = m
			continue
		}
		for k := range common {
			if _, ok := m[k]; !ok {
				delete(common, k)
			}
		}
	}
	if len(common) == 0 {
		return
	}
	c.frames = append(c.frames, call)
	defer func() { c.frames = c.frames[:len(c.frames)-1] }()
	n.depth++
	defer func() { n.depth-- }()
	for _, f := range common {
		// only conditions over the parameters (no loads of memory the callee may have changed)
		if !pureCondition(c, f.cond) {
			continue
		}
		n.assume(f.cond, f.pos)
	}
}

// pureCondition: the condition is built from parameters, constants, len/index of strings and pure calls.
func pureCondition(c *Ctx, v ssa.Value) bool {
	ok := true
	seen := map[ssa.Value]bool{}
	var walk func(v ssa.Value, d int)
	walk = func(v ssa.Value, d int) {
		if v == nil || seen[v] || d > 12 {
			return
		}
		seen[v] = true
		switch x := v.(type) {
		case *ssa.Const, *ssa.Parameter, *ssa.Builtin, *ssa.Function:
			return
		case *ssa.Call:
			if !npPureCall(c, x) {
				ok = false
				return
			}
		case *ssa.UnOp:
			if x.Op == token.MUL {
				ok = false // a load
				return
			}
		case *ssa.BinOp, *ssa.Index, *ssa.Lookup, *ssa.Convert, *ssa.Slice, *ssa.Phi, *ssa.Extract:
		default:
			ok = false
			return
		}
		if in, isIn := v.(ssa.Instruction); isIn {
			for _, op := range in.Operands(nil) {
				if *op != nil {
					walk(*op, d+1)
				}
			}
		}
	}
	walk(v, 0)
	return ok
}

// assumeInlined handles helpers of the shape `return len(recv.f) == 0`.
func (n *npCtx) assumeInlined(cal *ssa.Function, call *ssa.Call, res ssa.Value, pos bool) {
	bo, ok := res.(*ssa.BinOp)
	if !ok {
		return
	}
	// only: len(<param>.<field>) OP const
	arg, ok := isLenCall(bo.X)
	if !ok {
		return
	}
	k, ok := constInt(bo.Y)
	if !ok {
		return
	}
	u, ok := arg.(*ssa.UnOp)
	if !ok || u.Op != token.MUL {
		return
	}
	fa, ok := u.X.(*ssa.FieldAddr)
	if !ok {
		return
	}
	p, ok := fa.X.(*ssa.Parameter)
	if !ok {
		return
	}
	idx := -1
	for i, pp := range cal.Params {
		if pp == p {
			idx = i
		}
	}
	if idx < 0 || idx >= len(call.Call.Args) {
		return
	}
	a := "len(" + fieldName(fa.X.Type(), fa.Field) + "(" + n.atomTerm(call.Call.Args[idx]) + "))"
	if _, seen := n.atoms[a]; !seen {
		n.atoms[a] = nil
		n.add("0", a, 0)
	}
	op := bo.Op
	if !pos {
		switch op {
		case token.EQL:
			op = token.NEQ
		case token.NEQ:
			op = token.EQL
		case token.LSS:
			op = token.GEQ
		case token.GTR:
			op = token.LEQ
		case token.LEQ:
			op = token.GTR
		case token.GEQ:
			op = token.LSS
		}
	}
	la, lb := lin{a, 0}, lin{"", k}
	switch op {
	case token.EQL:
		n.addLe(la, lb)
		n.addLe(lb, la)
	case token.NEQ:
		if k == 0 {
			n.addLe(lin{"", 1}, la)
		}
	case token.GTR:
		n.addLe(lin{"", k + 1}, la)
	case token.GEQ:
		n.addLe(lb, la)
	case token.LSS:
		n.addLe(la, lin{"", k - 1})
	case token.LEQ:
		n.addLe(la, lb)
	}
}

// loadsOf collects the memory-reading instructions v depends on (field loads by
// field, other loads/calls under nil key).
func (c *Ctx) memDeps(v ssa.Value, out map[*types.Var]map[ssa.Instruction]bool, seen map[ssa.Value]bool) {
	if v == nil || seen[v] {
		return
	}
	seen[v] = true
	v = c.resolve(v)
	add := func(f *types.Var, in ssa.Instruction) {
		if out[f] == nil {
			out[f] = map[ssa.Instruction]bool{}
		}
		out[f][in] = true
	}
	switch x := v.(type) {
	case *ssa.Phi:
		return
	case *ssa.UnOp:
		if x.Op == token.MUL {
			if fa, ok := x.X.(*ssa.FieldAddr); ok {
				add(fieldObj(fa.X.Type(), fa.Field), x)
				c.memDeps(fa.X, out, seen)
				return
			}
			if _, isCell := x.X.(*ssa.Alloc); !isCell {
				if _, isFV := x.X.(*ssa.FreeVar); !isFV {
					add(nil, x)
				}
			}
		}
	case *ssa.Call:
		if _, isB := x.Call.Value.(*ssa.Builtin); !isB {
			add(nil, x)
		}
	case *ssa.Lookup:
		add(nil, x)
	}
	if in, ok := v.(ssa.Instruction); ok {
		for _, op := range in.Operands(nil) {
			if *op != nil {
				c.memDeps(*op, out, seen)
			}
		}
	}
}

// factClobbered: the fact was established by f.If; it still describes the
// operands of `use` unless, on some path from that If to the use that does not
// pass the If again, a store/call changes memory the condition reads — and the
// use re-reads that memory (reads through the very same SSA load are immune).
func (c *Ctx) factClobbered(f DomFact, use ssa.Instruction, fx *Facts) bool {
	cd := map[*types.Var]map[ssa.Instruction]bool{}
	c.memDeps(f.Cond, cd, map[ssa.Value]bool{})
	if len(cd) == 0 {
		return false
	}
	ud := map[*types.Var]map[ssa.Instruction]bool{}
	for _, op := range use.Operands(nil) {
		if *op != nil {
			c.memDeps(*op, ud, map[ssa.Value]bool{})
		}
	}
	// fields whose loads differ between cond and use
	risky := map[*types.Var]bool{}
	for fld, loads := range cd {
		same := true
		for in := range ud[fld] {
			if !loads[in] {
				same = false
			}
		}
		if !same {
			risky[fld] = true
		}
	}
	if len(risky) == 0 {
		return false
	}
	fn := use.Parent()
	crossFn := f.If != nil && f.If.Parent() != fn
	clob := func(in ssa.Instruction) bool {
		switch x := in.(type) {
		case *ssa.Store:
			if fa, ok := x.Addr.(*ssa.FieldAddr); ok {
				return risky[fieldObj(fa.X.Type(), fa.Field)]
			}
			if rootAlloc(x.Addr) != nil {
				return false
			}
			return risky[nil]
		case *ssa.MapUpdate:
			return risky[nil]
		case ssa.CallInstruction:
			cc := x.Common()
			if _, isB := cc.Value.(*ssa.Builtin); isB {
				return false
			}
			cal := cc.StaticCallee()
			if cal == nil {
				if n := c.calleeName(cc); n != "" && pureExternal(n) {
					return false // e.g. reflect.Type methods
				}
				return true // dynamic call may store anything
			}
			if risky[nil] && !fx.ord.pure(cal) {
				return true
			}
			for fld := range risky {
				if fld == nil {
					continue
				}
				ms := fx.mayStore[fld]
				if ms == nil {
					ms = c.mayStoreFns(fld)
					fx.mayStore[fld] = ms
				}
				if ms[cal] {
					return true
				}
				for _, cl := range closureArgs(x) {
					if ms[cl] {
						return true
					}
				}
			}
		}
		return false
	}
	// segment check: does a clobbering instruction lie on a path from `from` to `target` inside sfn?
	notIf := func(in ssa.Instruction) bool { return in == ssa.Instruction(f.If) }
	segment := func(sfn *ssa.Function, from Site, target ssa.Instruction) bool {
		for _, b := range sfn.Blocks {
			for _, in := range b.Instrs {
				if !clob(in) || in == target {
					continue
				}
				q := &PathQ{c: c, Fn: sfn, CutIn: notIf}
				q.noDescend = true
				if _, ok := q.Reach(from, 0, isInstr(in)); !ok {
					continue
				}
				s := siteOf(in)
				if _, ok := q.Reach(Site{s.B, s.I + 1}, 0, isInstr(target)); ok {
					return true
				}
			}
		}
		return false
	}
	ifSite := siteOf(f.If)
	if !crossFn {
		return segment(fn, Site{ifSite.B, ifSite.I + 1}, use)
	}
	// fact established at the call site of an inlined helper (possibly several levels up):
	// check the caller segment from the test to the call, then each helper from its entry on
	var chain []ssa.CallInstruction
	cur := fn
	for i := 0; i < 6 && cur != f.If.Parent(); i++ {
		site := c.activeSite(cur)
		if site == nil {
			return true
		}
		chain = append([]ssa.CallInstruction{site}, chain...)
		cur = site.Parent()
	}
	if cur != f.If.Parent() || len(chain) == 0 {
		return true
	}
	if segment(cur, Site{ifSite.B, ifSite.I + 1}, chain[0]) {
		return true
	}
	for i, site := range chain {
		callee := site.Common().StaticCallee()
		if callee == nil {
			return true
		}
		var target ssa.Instruction = use
		if i+1 < len(chain) {
			target = chain[i+1]
		}
		if segment(callee, entrySite(callee), target) {
			return true
		}
	}
	return false
}

// npAt builds the constraint context for a use site from the plain
// (non-disjunctive) dominating facts plus the extra assumptions given.
func (c *Ctx) npAtWith(use ssa.Instruction, fx *Facts, extra []DomFact) (*npCtx, []DomFact) {
	n := &npCtx{c: c, fn: use.Parent(), edges: map[string]map[string]int64{}, atoms: map[string]ssa.Value{}, use: use, fx: fx}
	facts := c.domFacts(use.Block())
	var live []DomFact
	for _, f := range facts {
		if f.Alts != nil {
			live = append(live, f)
			continue
		}
		if c.factClobbered(f, use, fx) {
			continue
		}
		live = append(live, f)
	}
	for _, f := range extra {
		if f.If == nil || !c.factClobbered(f, use, fx) {
			live = append(live, f)
		}
	}
	// three passes so that NEQ facts can use bounds from other facts
	for pass := 0; pass < 3; pass++ {
		for _, f := range live {
			if f.Alts == nil {
				n.assume(f.Cond, f.Pos)
			}
		}
	}
	return n, live
}

func (c *Ctx) npAt(use ssa.Instruction, fx *Facts) (*npCtx, []DomFact) {
	return c.npAtWith(use, fx, nil)
}

// npProve evaluates query under the dominating facts; when it fails and a
// disjunctive fact is available, it must hold under every alternative.
func (c *Ctx) npProve(use ssa.Instruction, fx *Facts, query func(n *npCtx) bool) bool {
	n, live := c.npAt(use, fx)
	if query(n) {
		return true
	}
	if os.Getenv("GF_NPDEBUG") != "" && strings.Contains(c.ipos(use), os.Getenv("GF_NPDEBUG")) {
		fmt.Fprintf(os.Stderr, "NPDEBUG %s in %s: %d live facts\n", c.ipos(use), c.fname(use.Parent()), len(live))
		for _, f := range live {
			fmt.Fprintf(os.Stderr, "   fact pos=%v alts=%d %s\n", f.Pos, len(f.Alts), trunc(c.term(f.Cond), 120))
		}
		for y, m := range n.edges {
			for x, w := range m {
				fmt.Fprintf(os.Stderr, "   %s - %s <= %d\n", trunc(x, 60), trunc(y, 60), w)
			}
		}
	}
	for _, f := range live {
		if f.Alts == nil {
			continue
		}
		all := true
		for _, a := range f.Alts {
			na, _ := c.npAtWith(use, fx, []DomFact{a})
			if !query(na) {
				all = false
				break
			}
		}
		if all {
			return true
		}
	}
	return false
}

// ---- site enumeration --------------------------------------------------------------

func isArrayPtr(t types.Type) (*types.Array, bool) {
	if p, ok := t.Underlying().(*types.Pointer); ok {
		if a, ok := p.Elem().Underlying().(*types.Array); ok {
			return a, true
		}
	}
	if a, ok := t.Underlying().(*types.Array); ok {
		return a, true
	}
	return nil, false
}

func (c *Ctx) npSites(fn *ssa.Function) []npSite {
	var out []npSite
	for _, b := range fn.Blocks {
		for _, in := range b.Instrs {
			switch x := in.(type) {
			case *ssa.IndexAddr:
				if a, ok := isArrayPtr(x.X.Type()); ok {
					if k, isC := constInt(x.Index); isC && k >= 0 && k < a.Len() {
						if _, isAlloc := x.X.(*ssa.Alloc); isAlloc {
							continue // variadic packing / array literal
						}
					}
				}
				out = append(out, npSite{fn, in, "index", "index " + c.term(x.X) + "[" + c.term(x.Index) + "]"})
			case *ssa.Index:
				if a, ok := isArrayPtr(x.X.Type()); ok {
					if k, isC := constInt(x.Index); isC && k >= 0 && k < a.Len() {
						continue
					}
				}
				out = append(out, npSite{fn, in, "index", "index " + c.term(x.X) + "[" + c.term(x.Index) + "]"})
			case *ssa.Lookup:
				if _, isMap := x.X.Type().Underlying().(*types.Map); !isMap {
					out = append(out, npSite{fn, in, "index", "index " + c.term(x.X) + "[" + c.term(x.Index) + "]"})
				}
			case *ssa.Slice:
				if _, isAlloc := x.X.(*ssa.Alloc); isAlloc && x.Low == nil && x.High == nil {
					continue
				}
				if x.Low == nil && x.High == nil && x.Max == nil {
					continue // x[:] never panics (nil array pointer aside: locals only)
				}
				out = append(out, npSite{fn, in, "slice", "slice " + c.term(x.X) + "[" + c.term(x.Low) + ":" + c.term(x.High) + "]"})
			case *ssa.TypeAssert:
				if !x.CommaOk {
					out = append(out, npSite{fn, in, "assert", "assert " + c.term(x.X) + ".(" + relType(c, x.AssertedType) + ")"})
				}
			case *ssa.Panic:
				out = append(out, npSite{fn, in, "panic", "panic(" + c.term(x.X) + ")"})
			case *ssa.BinOp:
				if x.Op == token.QUO || x.Op == token.REM {
					if bt, ok := x.X.Type().Underlying().(*types.Basic); ok && bt.Info()&types.IsInteger != 0 {
						if k, isC := constInt(x.Y); isC && k != 0 {
							continue
						}
						out = append(out, npSite{fn, in, "div", "divide " + c.term(x.X) + " by " + c.term(x.Y)})
					}
				}
			case *ssa.MakeSlice:
				if _, isC := constInt(x.Len); !isC {
					if _, isLen := isLenCall(c.resolve(x.Len)); !isLen {
						out = append(out, npSite{fn, in, "make", "make slice len " + c.term(x.Len)})
					}
				}
			case ssa.CallInstruction:
				name := c.calleeName(x.Common())
				if _, ok := npContracts[name]; ok {
					recv := ""
					if len(x.Common().Args) > 0 {
						recv = c.term(x.Common().Args[0])
					}
					out = append(out, npSite{fn, in, "contract", "call " + name + "(" + trunc(recv, 100) + ")"})
				}
			}
		}
	}
	return out
}

// ---- discharge ----------------------------------------------------------------------

type npResult struct {
	ok  bool
	by  string
	why string
}

// sortContract: indices handed to Less/Swap by package sort (and to the less
// closure of sort.Slice) are in range of the sorted slice.
func (c *Ctx) sortContract(s npSite) (string, bool) {
	fn := s.fn
	var X, I ssa.Value
	switch x := s.in.(type) {
	case *ssa.IndexAddr:
		X, I = x.X, x.Index
	case *ssa.Index:
		X, I = x.X, x.Index
	default:
		return "", false
	}
	p, ok := c.resolve(I).(*ssa.Parameter)
	if !ok {
		return "", false
	}
	if recv := fn.Signature.Recv(); recv != nil && (fn.Name() == "Less" || fn.Name() == "Swap") {
		// receiver must be the indexed slice, and Len must return len(receiver)
		if c.resolve(X) != ssa.Value(fn.Params[0]) || (p != fn.Params[1] && p != fn.Params[2]) {
			return "", false
		}
		ms := c.Prog.MethodSets.MethodSet(recv.Type())
		for k := 0; k < ms.Len(); k++ {
			if ms.At(k).Obj().Name() == "Len" {
				lf := c.Prog.MethodValue(ms.At(k))
				if lf != nil && len(lf.Blocks) == 1 {
					if ret, ok := lf.Blocks[0].Instrs[len(lf.Blocks[0].Instrs)-1].(*ssa.Return); ok && c.term(ret.Results[0]) == "len(P0)" {
						return "sort.Interface contract: " + fn.Name() + " receives 0 ≤ i,j < Len() and Len returns len(receiver)", true
					}
				}
			}
		}
		return "", false
	}
	// closure passed (only) to sort.Slice / sort.SliceStable on the indexed slice
	mc := c.closureSite[fn]
	if mc == nil || mc.Referrers() == nil {
		return "", false
	}
	for _, r := range *mc.Referrers() {
		ci, ok := r.(ssa.CallInstruction)
		if !ok {
			return "", false
		}
		n := c.calleeName(ci.Common())
		if n != "sort.Slice" && n != "sort.SliceStable" {
			return "", false
		}
		// same slice: the closure indexes the captured variable that is passed as arg 0
		a0 := c.resolve(ci.Common().Args[0])
		xs := c.resolve(X)
		same := a0 == xs || c.term(a0) == c.term(xs)
		if !same {
			if u1, ok := a0.(*ssa.UnOp); ok {
				if u2, ok := xs.(*ssa.UnOp); ok {
					r1, ok1 := c.cellRoot(u1.X)
					r2, ok2 := c.cellRoot(u2.X)
					same = ok1 && ok2 && r1 == r2
				}
			}
		}
		if !same {
			return "", false
		}
	}
	return "sort.Slice contract: the less function receives 0 ≤ i,j < len(slice) of the slice being sorted", true
}

func (c *Ctx) npDischarge(s npSite, fx *Facts) npResult {
	if s.kind == "index" {
		if by, ok := c.sortContract(s); ok {
			return npResult{ok: true, by: by}
		}
	}
	switch s.kind {
	case "index":
		var X, I ssa.Value
		switch x := s.in.(type) {
		case *ssa.IndexAddr:
			X, I = x.X, x.Index
		case *ssa.Index:
			X, I = x.X, x.Index
		case *ssa.Lookup:
			X, I = x.X, x.Index
		}
		var lo, up bool
		var desc string
		ok := c.npProve(s.in, fx, func(n *npCtx) bool {
			idx := n.linOf(I)
			var hi lin
			if a, ok := isArrayPtr(X.Type()); ok {
				hi = lin{"", a.Len()}
			} else {
				hi = lin{n.lenAtom(X), 0}
			}
			n.searchAxioms()
			lo = n.provesLe(lin{"", 0}, idx)
			up = n.provesLe(lin{idx.sym, idx.k + 1}, hi)
			desc = fmt.Sprintf("index=%s length=%s", linStr(idx), linStr(hi))
			return lo && up
		})
		if ok {
			return npResult{ok: true, by: "0 ≤ index < length from dominating conditions: " + desc}
		}
		return npResult{why: fmt.Sprintf("cannot prove 0 ≤ index (%v) and index < length (%v): %s", lo, up, desc)}
	case "slice":
		x := s.in.(*ssa.Slice)
		var a, b, d bool
		var desc string
		ok := c.npProve(s.in, fx, func(n *npCtx) bool {
			var capv lin
			if arr, ok := isArrayPtr(x.X.Type()); ok {
				capv = lin{"", arr.Len()}
			} else {
				capv = lin{n.lenAtom(x.X), 0} // len ≤ cap; proving against len is sufficient
			}
			lo := lin{"", 0}
			if x.Low != nil {
				lo = n.linOf(x.Low)
			}
			hi := capv
			if x.High != nil {
				hi = n.linOf(x.High)
			}
			n.searchAxioms()
			a = n.provesLe(lin{"", 0}, lo)
			b = n.provesLe(lo, hi)
			d = n.provesLe(hi, capv)
			desc = fmt.Sprintf("low=%s high=%s len=%s", linStr(lo), linStr(hi), linStr(capv))
			return a && b && d
		})
		if ok {
			return npResult{ok: true, by: "0 ≤ low ≤ high ≤ len from dominating conditions: " + desc}
		}
		return npResult{why: fmt.Sprintf("cannot prove 0 ≤ low (%v), low ≤ high (%v), high ≤ len (%v): %s", a, b, d, desc)}
	case "contract":
		return c.npContract(s, fx)
	case "make":
		x := s.in.(*ssa.MakeSlice)
		n, _ := c.npAt(s.in, fx)
		l := n.linOf(x.Len)
		n.searchAxioms()
		if n.provesLe(lin{"", 0}, l) {
			return npResult{ok: true, by: "length is non-negative: " + linStr(l)}
		}
		return npResult{why: "cannot prove make length ≥ 0: " + linStr(l)}
	}
	return npResult{why: "no discharge rule for " + s.kind}
}

// searchAxioms: conditional axioms that need bounds already present.
func (n *npCtx) searchAxioms() {
	for a, v := range n.atoms {
		call, ok := v.(*ssa.Call)
		if !ok {
			continue
		}
		name := n.c.calleeName(call.Common())
		switch name {
		case "strings.Index", "strings.LastIndex":
			// r >= 0  ⇒  r + len(sep) <= len(x)
			if n.provesLe(lin{"", 0}, lin{a, 0}) {
				if sep, ok := constStr(call.Call.Args[1]); ok {
					n.addLe(lin{a, int64(len(sep))}, lin{n.lenAtom(call.Call.Args[0]), 0})
				}
			}
		case "strings.IndexRune", "strings.IndexByte", "strings.LastIndexByte":
			if n.provesLe(lin{"", 0}, lin{a, 0}) {
				n.addLe(lin{a, 1}, lin{n.lenAtom(call.Call.Args[0]), 0})
			}
		}
	}
}

func linStr(l lin) string {
	if l.sym == "" {
		return fmt.Sprint(l.k)
	}
	s := trunc(l.sym, 70)
	if l.k > 0 {
		return fmt.Sprintf("%s+%d", s, l.k)
	}
	if l.k < 0 {
		return fmt.Sprintf("%s%d", s, l.k)
	}
	return s
}

// ---- allow-list -----------------------------------------------------------------------

type npAllow struct {
	Func      string
	Construct string // prefix match on the site construct
	Max       int    // expected multiplicity
	Reason    string
	used      int
}

// runNP runs the prover over the given scope and records obligations under rule.
func (c *Ctx) runNP(r *Report, rule string, scope map[*ssa.Function]bool, allow []*npAllow) {
	var fns []*ssa.Function
	for f := range scope {
		fns = append(fns, f)
	}
	sort.Slice(fns, func(i, j int) bool { return c.fname(fns[i]) < c.fname(fns[j]) })
	for _, a := range allow {
		a.used = 0
	}
	for _, fn := range fns {
		if fn.Blocks == nil {
			continue
		}
		r.Funcs[c.fname(fn)] = true
		fx := c.newFacts(fn)
		sites := c.npSites(fn)
		sites = append(sites, c.nilSites(fn)...)
		// a new helper with several call sites is analysed once per call site; an obligation
		// is discharged only if it is discharged in every context
		var contexts []ssa.CallInstruction
		if c.isNew(fn) && c.inlineSite(fn) == nil {
			if cs, asV := c.callersOf(fn); len(asV) == 0 && len(cs) >= 2 && len(cs) <= 4 {
				for _, x := range cs {
					contexts = append(contexts, x.Call)
				}
			}
		}
		for _, s := range sites {
			r.Sites++
			fname := c.fname(fn)
			var res npResult
			eval := func() npResult {
				if s.kind == "nil" {
					return c.npNil(s, fx)
				}
				return c.npDischarge(s, fx)
			}
			if len(contexts) == 0 {
				res = eval()
			} else {
				res = npResult{ok: true}
				for _, site := range contexts {
					c.frames = append(c.frames, site)
					one := eval()
					c.frames = c.frames[:len(c.frames)-1]
					if !one.ok {
						res = one
						res.why += " [in the context of the call at " + c.ipos(site) + "]"
						break
					}
					res.by = one.by + fmt.Sprintf(" (in each of %d call contexts)", len(contexts))
				}
			}
			if res.ok {
				r.OK(rule, fname, s.construct, c.ipos(s.in), res.by)
				continue
			}
			allowed := false
			for _, a := range allow {
				if a.Func == fname && strings.HasPrefix(s.construct, a.Construct) && a.used < a.Max {
					a.used++
					r.Allow(rule, fname, s.construct, c.ipos(s.in), a.Reason)
					allowed = true
					break
				}
			}
			if !allowed && c.isNew(s.fn) {
				// code moved out of a function into a helper takes the function's reviewed exceptions with it
				for _, o := range c.ownerNames(s.fn) {
					for _, a := range allow {
						if !allowed && a.Func == o && strings.HasPrefix(s.construct, a.Construct) && a.used < a.Max {
							a.used++
							r.Allow(rule, fname, s.construct, c.ipos(s.in), a.Reason+" (exception reviewed for "+o+", from which this helper was extracted)")
							allowed = true
						}
					}
				}
			}
			if !allowed {
				r.Fail(rule, fname, s.construct, c.ipos(s.in), res.why)
			}
		}
	}
	var stale []string
	for _, a := range allow {
		if a.used == 0 && scopeHas(c, scope, a.Func) {
			stale = append(stale, a.Func+": "+a.Construct)
		}
	}
	if len(stale) > 0 {
		r.Notef("STALE allow-list entries (construct no longer present or now discharged): %s", strings.Join(stale, " | "))
	}
}

func scopeHas(c *Ctx, scope map[*ssa.Function]bool, name string) bool {
	for f := range scope {
		if c.fname(f) == name {
			return true
		}
	}
	return false
}

// phiLowerBound: inductive lower bound of an integer phi: the minimum m of its
// constant edges, provided every other edge is ≥ m assuming the phi is ≥ m
// (edges built from the phi itself, other phis, and additions of non-negative constants).
func phiLowerBound(p *ssa.Phi) (int64, bool) {
	var m int64
	have := false
	var collect func(v ssa.Value, seen map[ssa.Value]bool)
	collect = func(v ssa.Value, seen map[ssa.Value]bool) {
		if seen[v] {
			return
		}
		seen[v] = true
		switch x := v.(type) {
		case *ssa.Phi:
			for _, e := range x.Edges {
				collect(e, seen)
			}
		case *ssa.BinOp:
			if x.Op == token.ADD {
				collect(x.X, seen)
			}
		case *ssa.Const:
			if k, ok := constInt(x); ok {
				if !have || k < m {
					m = k
				}
				have = true
			}
		}
	}
	collect(p, map[ssa.Value]bool{})
	if !have {
		return 0, false
	}
	var lb func(v ssa.Value, seen map[ssa.Value]bool) (int64, bool)
	lb = func(v ssa.Value, seen map[ssa.Value]bool) (int64, bool) {
		if v == ssa.Value(p) || seen[v] {
			return m, true // inductive hypothesis
		}
		seen[v] = true
		defer delete(seen, v)
		switch x := v.(type) {
		case *ssa.Const:
			return constInt(x)
		case *ssa.BinOp:
			if x.Op == token.ADD {
				if k, ok := constInt(x.Y); ok && k >= 0 {
					if b, ok := lb(x.X, seen); ok {
						return b + k, true
					}
				}
				// adding a quantity that is never negative (a decoded rune's width, a length)
				if nonNegByConstruction(x.Y) {
					if b, ok := lb(x.X, seen); ok {
						return b, true
					}
				}
			}
			return 0, false
		case *ssa.Phi:
			var mm int64
			first := true
			for _, e := range x.Edges {
				b, ok := lb(e, seen)
				if !ok {
					return 0, false
				}
				if first || b < mm {
					mm = b
				}
				first = false
			}
			return mm, !first
		}
		return 0, false
	}
	for _, e := range p.Edges {
		b, ok := lb(e, map[ssa.Value]bool{})
		if !ok || b < m {
			return 0, false
		}
	}
	return m, true
}

// errGuardedResult: x is result #0 (an int) of a package function returning
// (int, error). If the use site is dominated by `err == nil` for the same
// call, x lies within the bounds that hold on every return of the callee whose
// error operand is the constant nil.
func (n *npCtx) errGuardedResult(a string, x *ssa.Extract, call *ssa.Call) {
	c := n.c
	cal := call.Common().StaticCallee()
	if cal == nil || cal.Blocks == nil || cal.Pkg != c.Pkg || x.Index != 0 || n.use == nil {
		return
	}
	res := cal.Signature.Results()
	if res.Len() != 2 || !isErrorType(res.At(1).Type()) {
		return
	}
	if bt, ok := res.At(0).Type().Underlying().(*types.Basic); !ok || bt.Info()&types.IsInteger == 0 {
		return
	}
	// err == nil dominates the use?
	guarded := false
	for _, f := range c.domFacts(n.use.Block()) {
		if f.Alts != nil {
			continue
		}
		if bo, isB := c.resolve(f.Cond).(*ssa.BinOp); isB && (isConstNil(bo.X) || isConstNil(bo.Y)) {
			other := bo.X
			if isConstNil(bo.X) {
				other = bo.Y
			}
			if e, isE := c.resolve(other).(*ssa.Extract); isE && e.Tuple == x.Tuple && e.Index == 1 {
				if (bo.Op == token.EQL && f.Pos) || (bo.Op == token.NEQ && !f.Pos) {
					guarded = true
				}
			}
		}
	}
	if !guarded {
		return
	}
	if n.depth > 2 {
		return
	}
	var lo, hi int64
	first := true
	fx := c.newFacts(cal)
	for _, ret := range returnsOf(cal) {
		if e := c.resolve(ret.Results[1]); !isConstNil(e) {
			// a return is out of the picture only when its error cannot be nil; an error value that may be nil at
			// run time (`return n, err` after a call) can reach the guarded use just as well
			nonNil := false
			switch y := e.(type) {
			case *ssa.MakeInterface:
				nonNil = true // an interface holding a typed value
			case *ssa.Call:
				name := c.calleeName(y.Common())
				nonNil = name == "fmt.Errorf" || name == "errors.New" || c.neverNilError(y.Common().StaticCallee(), 0)
			}
			if !nonNil {
				// … or the return stands under a test that found this very value non-nil (`if err != nil { return 0, err }`)
				for _, f := range c.domFacts(ret.Block()) {
					if f.Alts != nil {
						continue
					}
					if bo, isB := c.resolve(f.Cond).(*ssa.BinOp); isB && (isConstNil(bo.X) || isConstNil(bo.Y)) {
						other := bo.X
						if isConstNil(bo.X) {
							other = bo.Y
						}
						if c.resolve(other) == e && ((bo.Op == token.NEQ && f.Pos) || (bo.Op == token.EQL && !f.Pos)) {
							nonNil = true
						}
					}
				}
			}
			if nonNil {
				continue
			}
		}
		m, _ := c.npAt(ret, fx)
		m.depth = n.depth + 1
		v := m.linOf(ret.Results[0])
		m.searchAxioms()
		l, okL := m.constLower(v)
		h, okH := m.constUpper(v)
		if !okL || !okH {
			return
		}
		if first || l < lo {
			lo = l
		}
		if first || h > hi {
			hi = h
		}
		first = false
	}
	if first {
		return
	}
	n.addLe(lin{"", lo}, lin{a, 0})
	n.addLe(lin{a, 0}, lin{"", hi})
}

// constLower / constUpper: best constant bounds of a linear form.
func (n *npCtx) constLower(v lin) (int64, bool) {
	if v.sym == "" {
		return v.k, true
	}
	// 0 - sym <= d  ⇒ sym >= -d
	if d, ok := n.shortest(v.sym, "0"); ok {
		return -d + v.k, true
	}
	return 0, false
}
func (n *npCtx) constUpper(v lin) (int64, bool) {
	if v.sym == "" {
		return v.k, true
	}
	if d, ok := n.shortest("0", v.sym); ok {
		return d + v.k, true
	}
	return 0, false
}

// npAtEdge: constraint context for control flowing along pred→succ.
func (c *Ctx) npAtEdge(pred, succ *ssa.BasicBlock, fx *Facts) (*npCtx, []DomFact) {
	last := pred.Instrs[len(pred.Instrs)-1]
	var extra []DomFact
	if iff, ok := last.(*ssa.If); ok && pred.Succs[0] != pred.Succs[1] {
		for si, s := range pred.Succs {
			if s == succ {
				extra = append(extra, DomFact{Cond: iff.Cond, Pos: si == 0})
			}
		}
	}
	return c.npAtWith(last, fx, extra)
}

// lockstep: x and q are integer phis of the same loop header; on every entry
// edge both are constants (x0, q0 with the same difference d = x0 - q0) and on
// every back edge each is itself plus the same constant step. Then x - q = d
// whenever the header is reached.
func lockstep(x, q *ssa.Phi) (int64, bool) {
	if x.Block() != q.Block() || len(x.Edges) != len(q.Edges) {
		return 0, false
	}
	if b, ok := q.Type().Underlying().(*types.Basic); !ok || b.Info()&types.IsInteger == 0 {
		return 0, false
	}
	hdr := x.Block()
	var d int64
	haveD, haveBack := false, false
	for i, pred := range hdr.Preds {
		if hdr.Dominates(pred) {
			sx, okx := selfStep(x, x.Edges[i])
			sq, okq := selfStep(q, q.Edges[i])
			if !okx || !okq || sx != sq {
				return 0, false
			}
			haveBack = true
			continue
		}
		kx, okx := constInt(x.Edges[i])
		kq, okq := constInt(q.Edges[i])
		if !okx || !okq {
			return 0, false
		}
		if haveD && kx-kq != d {
			return 0, false
		}
		d, haveD = kx-kq, true
	}
	return d, haveD && haveBack
}

// selfStep: v is p + k (k constant), possibly computed in several steps.
func selfStep(p *ssa.Phi, v ssa.Value) (int64, bool) {
	var k int64
	for i := 0; i < 4; i++ {
		if v == ssa.Value(p) {
			return k, true
		}
		bo, ok := v.(*ssa.BinOp)
		if !ok || (bo.Op != token.ADD && bo.Op != token.SUB) {
			return 0, false
		}
		c, ok := constInt(bo.Y)
		if !ok {
			return 0, false
		}
		if bo.Op == token.SUB {
			c = -c
		}
		k += c
		v = bo.X
	}
	return 0, false
}

// vfact: a branch condition of a callee with the polarity it had.
type vfact struct {
	cond ssa.Value
	pos  bool
}

// verdictOrigins: for a boolean function, every way it can answer `verdict` — a return of that constant,
// or a non-constant answer (directly or through a phi edge) — with the branch conditions that necessarily
// held there. ok=false when the function is not a plain boolean predicate.
func (c *Ctx) verdictOrigins(cal *ssa.Function, verdict bool) ([][]vfact, bool) {
	res := cal.Signature.Results()
	if res.Len() != 1 || cal.Blocks == nil {
		return nil, false
	}
	if bt, ok := res.At(0).Type().Underlying().(*types.Basic); !ok || bt.Info()&types.IsBoolean == 0 {
		return nil, false
	}
	var out [][]vfact
	factsAt := func(b *ssa.BasicBlock) []vfact {
		var fs []vfact
		for _, d := range c.domFacts(b) {
			if d.Alts == nil && d.If != nil && d.If.Parent() == cal {
				fs = append(fs, vfact{d.Cond, d.Pos})
			}
		}
		return fs
	}
	var origin func(v ssa.Value, b *ssa.BasicBlock, extra []vfact, depth int)
	origin = func(v ssa.Value, b *ssa.BasicBlock, extra []vfact, depth int) {
		if k, ok := v.(*ssa.Const); ok && k.Value != nil {
			if constantBool(k) != verdict {
				return
			}
			out = append(out, append(factsAt(b), extra...))
			return
		}
		if ph, ok := v.(*ssa.Phi); ok && depth < 4 {
			for i, e := range ph.Edges {
				pred := ph.Block().Preds[i]
				ex := append([]vfact{}, extra...)
				if iff, ok := pred.Instrs[len(pred.Instrs)-1].(*ssa.If); ok {
					ex = append(ex, vfact{iff.Cond, pred.Succs[0] == ph.Block()})
				}
				origin(e, pred, ex, depth+1)
			}
			return
		}
		out = append(out, append(append(factsAt(b), extra...), vfact{v, verdict}))
	}
	for _, ret := range returnsOf(cal) {
		origin(ret.Results[0], ret.Block(), nil, 0)
	}
	return out, true
}

// nonNegField: an unexported integer field of a package type that holds a non-negative value at all times:
// its zero value is 0, every store to it anywhere in the package is proven ≥ 0 (assuming the invariant for
// the loads those proofs use — induction over the writers), and its address is used only to load and store.
func (c *Ctx) nonNegField(fld *types.Var) bool {
	if c.nonNegMemo == nil {
		c.nonNegMemo = map[*types.Var]int{}
	}
	switch c.nonNegMemo[fld] {
	case 1, 3:
		return true // proven, or being proven (inductive hypothesis)
	case 2:
		return false
	}
	bt, ok := fld.Type().Underlying().(*types.Basic)
	if !ok || bt.Info()&types.IsInteger == 0 || bt.Info()&types.IsUnsigned != 0 || fld.Exported() || fld.Pkg() != c.Types {
		c.nonNegMemo[fld] = 2
		return false
	}
	c.nonNegMemo[fld] = 3
	okAll := true
	c.eachInstr(func(fn *ssa.Function, in ssa.Instruction) {
		fa, isFA := in.(*ssa.FieldAddr)
		if !isFA || !okAll || fieldObj(fa.X.Type(), fa.Field) != fld {
			return
		}
		refs := fa.Referrers()
		if refs == nil {
			return
		}
		for _, r := range *refs {
			switch x := r.(type) {
			case *ssa.UnOp, *ssa.DebugRef:
			case *ssa.Store:
				if x.Addr != ssa.Value(fa) {
					okAll = false // the address itself is stored
					return
				}
				if k, isC := constInt(x.Val); isC {
					if k < 0 {
						okAll = false
					}
					continue
				}
				st := x
				if !c.npProve(st, c.newFacts(fn), func(n *npCtx) bool { return n.provesLe(lin{"", 0}, n.linOf(st.Val)) }) {
					okAll = false
				}
			default:
				okAll = false // the address escapes
			}
		}
	})
	if okAll {
		c.nonNegMemo[fld] = 1
	} else {
		c.nonNegMemo[fld] = 2
	}
	return okAll
}

// nonNegByConstruction: the width result of utf8.DecodeRune*/DecodeLastRune*, or a len().
func nonNegByConstruction(v ssa.Value) bool {
	if _, ok := isLenCall(v); ok {
		return true
	}
	if e, ok := v.(*ssa.Extract); ok && e.Index == 1 {
		if call, ok := e.Tuple.(*ssa.Call); ok {
			if cal := call.Common().StaticCallee(); cal != nil && cal.Pkg != nil && cal.Pkg.Pkg.Path() == "unicode/utf8" {
				switch cal.Name() {
				case "DecodeRuneInString", "DecodeRune", "DecodeLastRuneInString", "DecodeLastRune":
					return true
				}
			}
		}
	}
	return false
}
