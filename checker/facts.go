package main

// facts.go — path sensitivity for PATH rules: along a path, the truth of every
// branch condition whose normalised term occurs in more than one If of the
// function is remembered, and edges contradicting a remembered fact are not
// taken. Facts are dropped conservatively: a fact whose term mentions a field
// is dropped by any store to that field and by any call that may
// (transitively) store it or is dynamic; a fact mentioning a call result is
// dropped by any store and any impure call; a fact on a pure SSA value is
// dropped when its defining instruction is executed again (next iteration).

import (
	"go/token"
	"go/types"

	"golang.org/x/tools/go/ssa"
)

type factInfo struct {
	term     string
	fields   map[*types.Var]bool
	hasCall  bool // depends on a call result or other opaque memory
	volatile bool // depends on memory at all
	defs     map[ssa.Instruction]bool
}

type Facts struct {
	c        *Ctx
	fn       *ssa.Function
	infos    []*factInfo
	idx      map[string]int
	mayStore map[*types.Var]map[*ssa.Function]bool
	ord      *ordA // for purity
	clearAt  map[ssa.Instruction][]int
}

func (c *Ctx) newFacts(fn *ssa.Function) *Facts {
	f := &Facts{c: c, fn: fn, idx: map[string]int{}, mayStore: map[*types.Var]map[*ssa.Function]bool{}, clearAt: map[ssa.Instruction][]int{}}
	f.ord = &ordA{c: c, retTainted: map[*ssa.Function]bool{}, pureMemo: map[*ssa.Function]int{}}
	count := map[string]int{}
	conds := map[string][]ssa.Value{}
	for _, b := range c.blocks(fn) {
		if len(b.Instrs) == 0 {
			continue
		}
		if iff, ok := b.Instrs[len(b.Instrs)-1].(*ssa.If); ok {
			l := c.cond(iff.Cond)
			count[l.Term]++
			conds[l.Term] = append(conds[l.Term], iff.Cond)
		}
		// conditions folded into a named boolean (x := a || b) are branch conditions too
		for _, in := range b.Instrs {
			ph, ok := in.(*ssa.Phi)
			if !ok {
				break
			}
			if bt, ok := ph.Type().Underlying().(*types.Basic); !ok || bt.Info()&types.IsBoolean == 0 {
				continue
			}
			for _, e := range ph.Edges {
				if _, isC := e.(*ssa.Const); isC {
					continue
				}
				if _, isP := e.(*ssa.Phi); isP {
					continue
				}
				l := c.cond(e)
				count[l.Term]++
				conds[l.Term] = append(conds[l.Term], e)
			}
		}
	}
	for _, b := range c.blocks(fn) {
		if len(b.Instrs) == 0 {
			continue
		}
		iff, ok := b.Instrs[len(b.Instrs)-1].(*ssa.If)
		if !ok {
			continue
		}
		l := c.cond(iff.Cond)
		if count[l.Term] < 2 {
			continue
		}
		if _, dup := f.idx[l.Term]; dup {
			continue
		}
		if len(f.infos) >= 30 {
			break
		}
		fi := &factInfo{term: l.Term, fields: map[*types.Var]bool{}, defs: map[ssa.Instruction]bool{}}
		for _, cv := range conds[l.Term] {
			f.deps(cv, fi, map[ssa.Value]bool{})
		}
		f.idx[l.Term] = len(f.infos)
		f.infos = append(f.infos, fi)
	}
	for i, fi := range f.infos {
		for in := range fi.defs {
			f.clearAt[in] = append(f.clearAt[in], i)
		}
		for fld := range fi.fields {
			if f.mayStore[fld] == nil {
				f.mayStore[fld] = c.mayStoreFns(fld)
			}
		}
	}
	return f
}

func (f *Facts) deps(v ssa.Value, fi *factInfo, seen map[ssa.Value]bool) {
	if v == nil || seen[v] {
		return
	}
	seen[v] = true
	switch x := v.(type) {
	case *ssa.Const, *ssa.Parameter, *ssa.Function, *ssa.Builtin, *ssa.Global:
		return
	case *ssa.FreeVar:
		return
	case *ssa.Alloc:
		return
	case *ssa.UnOp:
		if x.Op == token.MUL {
			fi.volatile = true
			switch a := x.X.(type) {
			case *ssa.FieldAddr:
				if fo := fieldObj(a.X.Type(), a.Field); fo != nil {
					fi.fields[fo] = true
				}
				f.deps(a.X, fi, seen)
				return
			case *ssa.Alloc, *ssa.FreeVar:
				// variable cell: treated like opaque memory unless single-store
				if r := f.c.resolve(x); r != ssa.Value(x) {
					f.deps(r, fi, seen)
					return
				}
				fi.hasCall = true
				return
			default:
				fi.hasCall = true
				f.deps(x.X, fi, seen)
				return
			}
		}
	case *ssa.Call:
		fi.volatile = true
		if !f.ord.pureCall(x) || true {
			// even pure calls read memory: their result may change after any store
			fi.hasCall = true
		}
	case *ssa.Phi:
		// value differs per path; identity of the SSA value is what matters
		fi.defs[x] = true
		return
	case *ssa.Lookup, *ssa.Index, *ssa.IndexAddr, *ssa.Next, *ssa.TypeAssert:
		if _, isLookup := x.(*ssa.Lookup); isLookup {
			fi.volatile = true
			fi.hasCall = true
		}
	}
	if _, isNext := v.(*ssa.Next); isNext {
		fi.defs[v.(ssa.Instruction)] = true
	}
	if in, ok := v.(ssa.Instruction); ok {
		for _, op := range in.Operands(nil) {
			if *op != nil {
				f.deps(*op, fi, seen)
			}
		}
	}
}

func (f *Facts) get(state uint64, i int) int { return int((state >> (2 * uint(i))) & 3) }
func (f *Facts) set(state uint64, i int, v int) uint64 {
	return (state &^ (3 << (2 * uint(i)))) | (uint64(v) << (2 * uint(i)))
}

// step: effect of executing one instruction on the fact state.
func (f *Facts) step(in ssa.Instruction, state uint64) uint64 {
	if state == 0 {
		return 0
	}
	for _, i := range f.clearAt[in] {
		state = f.set(state, i, 0)
	}
	switch x := in.(type) {
	case *ssa.Store:
		var fld *types.Var
		if fa, ok := x.Addr.(*ssa.FieldAddr); ok {
			fld = fieldObj(fa.X.Type(), fa.Field)
		}
		if al := rootAlloc(x.Addr); al != nil && fld == nil {
			// store to a local variable / temporary: affects only cell-dependent facts
			for i, fi := range f.infos {
				if fi.hasCall {
					state = f.set(state, i, 0)
				}
			}
			return state
		}
		for i, fi := range f.infos {
			if fi.hasCall || (fld != nil && fi.fields[fld]) || (fld == nil && fi.volatile) {
				state = f.set(state, i, 0)
			}
		}
	case *ssa.MapUpdate:
		for i, fi := range f.infos {
			if fi.hasCall {
				state = f.set(state, i, 0)
			}
		}
	case ssa.CallInstruction:
		cc := x.Common()
		if _, isB := cc.Value.(*ssa.Builtin); isB {
			return state
		}
		cal := cc.StaticCallee()
		if cal == nil {
			// dynamic / interface: anything may happen
			for i, fi := range f.infos {
				if fi.volatile {
					state = f.set(state, i, 0)
				}
			}
			return state
		}
		internal := cal.Blocks != nil && (cal.Pkg == f.c.Pkg || cal.Parent() != nil)
		if !internal {
			if f.ord.pure(cal) {
				return state
			}
			for i, fi := range f.infos {
				if fi.hasCall {
					state = f.set(state, i, 0)
				}
			}
			return state
		}
		pure := f.ord.pure(cal)
		// closures passed as arguments may run inside the callee
		var fns []*ssa.Function
		fns = append(fns, cal)
		for _, a := range cc.Args {
			if mc, ok := a.(*ssa.MakeClosure); ok {
				if fn, ok := mc.Fn.(*ssa.Function); ok {
					fns = append(fns, fn)
					if !f.ord.pure(fn) {
						pure = false
					}
				}
			}
		}
		for i, fi := range f.infos {
			if !fi.volatile {
				continue
			}
			drop := false
			if fi.hasCall && !pure {
				drop = true
			}
			for fld := range fi.fields {
				for _, g := range fns {
					if f.mayStore[fld][g] {
						drop = true
					}
				}
			}
			if drop {
				state = f.set(state, i, 0)
			}
		}
	}
	return state
}

// edge: taking successor succ of b.
func (f *Facts) edge(b *ssa.BasicBlock, succ int, state uint64) (uint64, bool) {
	l, ok := f.c.edgeLit(b, succ)
	if !ok {
		return state, true
	}
	i, ok := f.idx[l.Term]
	if !ok {
		return state, true
	}
	want := 1
	if !l.Pos {
		want = 2
	}
	cur := f.get(state, i)
	if cur != 0 && cur != want {
		return state, false
	}
	return f.set(state, i, want), true
}

// lit: the path has just witnessed literal l (possibly through a named boolean).
func (f *Facts) lit(l Lit, state uint64) (uint64, bool) {
	i, ok := f.idx[l.Term]
	if !ok {
		return state, true
	}
	want := 1
	if !l.Pos {
		want = 2
	}
	cur := f.get(state, i)
	if cur != 0 && cur != want {
		return state, false
	}
	return f.set(state, i, want), true
}
