package main

import (
	"fmt"
	"go/token"
	"go/types"
	"sort"
	"strings"

	"golang.org/x/tools/go/ssa"
)

func init() {
	register(&Property{
		Meta: PropMeta{
			ID:          "C04",
			Level:       "other",
			Explanation: "Structural necessary conditions of 'total, contained and typed', decided on the SSA of /repo for all paths. (NP) every instruction of the 100+ package functions reachable from ParseArgs outside completion and help generation that can raise a run-time panic — index, slice, nil dereference of a may-be-nil value, single-result type assertion, explicit panic, integer division, negative make, and calls whose trusted contract has a precondition (reflect kind-restricted methods, strings.Repeat, strconv.Format*) — is enumerated and discharged from dominating branch conditions by a difference-logic bound engine, kind guards (also established by all callers), nil guards and (value, err) result correlation, or is allow-listed by function+construct with a written reason; (OUT) the process streams are referenced only by printError, whose writes require PrintErrors and route ErrHelp to stdout and everything else to stderr, ParseArgs calls it at most once and on every failing return, os.Exit and direct printing exist only in the completion branch; (TYPED) every error stored to parseState.err or returned by the parse functions originates from nil, a typed constructor, user code or the ok-edge of err.(*Error), and each constructor site carries the documented ErrorType; (PROGRESS) the two token-consuming loops shrink their sequence on every iteration.",
			NotDecided:  "stack/heap exhaustion, termination in general, panics inside user callbacks and inside the standard library on inputs satisfying its documented preconditions, settability of reflect values registered through AddOption, the help-generation subtree (decided under C17), message wording.",
			Trusted:     []string{"go/ssa lowering", "go/types", "documented preconditions of reflect/strings/strconv encoded in the contract table", "package sort calls Less/Swap with indices in range", "reflect law V.Field(i).Kind() == V.Type().Field(i).Type.Kind()"},
			Assumptions: []string{"user callbacks are opaque and may return any error", "the slice returned by an UnknownOptionHandler is what is parsed next (progress then depends on user code)"},
		},
		Run:      runC04,
		Controls: []string{"np-index", "np-slice", "np-nil", "np-kind", "path-req", "path-mpt", "path-nt"},
	})
}

const reasonStructParam = "the reflect.Value handed to scanStruct and to its scan handlers is always a struct: scanType panics on anything but a pointer to struct, and the recursive calls are guarded by kind == Struct (or pointer to Struct, dereferenced first)"

// parseAllow: constructs on the parse path the prover cannot discharge; each was read and is safe for the stated reason.
var parseAllow = []*npAllow{
	{Func: "(*Command).addHelpGroup", Construct: "field access through call:(*Command).AddGroup(P0, \"Help Options\"", Max: 1, Reason: "AddGroup fails only for a malformed tag or a duplicate flag in the scanned struct; here the struct is the local literal `help` with one fixed, well-formed tag"},
	{Func: "(*Command).makeLookup", Construct: "index phi{append(phi↺, slice(new:[1]*Command", Max: 1, Reason: "i starts at len(parents)-1, only decreases and the loop header tests i >= 0"},
	{Func: "(*Command).scanSubcommandHandler$1", Construct: "call (reflect.Value).Field(P0)", Max: 1, Reason: reasonStructParam},
	{Func: "(*Command).scanSubcommandHandler$1", Construct: "call invoke:Type.Field(", Max: 1, Reason: reasonStructParam},
	{Func: "(*Command).scanSubcommandHandler$1", Construct: "call invoke:Type.NumField()", Max: 1, Reason: reasonStructParam},
	{Func: "(*Group).scanStruct", Construct: "call (reflect.Value).Field(P1)", Max: 3, Reason: reasonStructParam},
	{Func: "(*Group).scanStruct", Construct: "call invoke:Type.Field(", Max: 1, Reason: reasonStructParam},
	{Func: "(*Group).scanStruct", Construct: "call invoke:Type.NumField()", Max: 1, Reason: reasonStructParam},
	{Func: "(*Group).scanStruct", Construct: "call (reflect.Value).IsNil(call:(reflect.Value).Field(P1", Max: 1, Reason: "guarded by kind == Ptr where kind is the Kind of the same field's StructField.Type: reflect guarantees V.Field(i).Kind() == V.Type().Field(i).Type.Kind()"},
	{Func: "(*Group).scanStruct", Construct: "call invoke:Type.Elem()", Max: 1, Reason: "fld.Type() of a field whose StructField.Type.Kind() was tested == Ptr (same reflect law)"},
	{Func: "(*Group).scanType", Construct: "panic(global:ErrNotPointerToStruct)", Max: 2, Reason: "documented API misuse (data that is not a pointer to struct), not one of the causes the property lists; on the parse path it is reached only through addHelpGroup, whose data is the address of a local struct"},
	{Func: "(*Option).String", Construct: "make slice len call:unicode/utf8.RuneLen(Option.ShortName", Max: 1, Reason: "ShortName comes from utf8.DecodeRuneInString, which never returns an invalid rune (RuneLen ≥ 1); a programmatic Option with an invalid rune is outside the property's quantifier"},
	{Func: "(*Option).call", Construct: "assert call:(reflect.Value).Interface(idx(phi{call:(reflect.Value).Call(", Max: 1, Reason: "guarded by retval[0].Type() == error type and Interface() != nil two lines above"},
	{Func: "(*multiTag).Get", Construct: "index lookup(call:(*multiTag).cached(P0), P1)#0[(len(", Max: 1, Reason: "slices in the tag cache are built by append in scan or as one-element literals in Set, hence non-empty when present; SetMany has no caller in the package"},
	{Func: "(*multiTag).scan", Construct: "slice phi{multiTag.value(P0) | slice(", Max: 1, Reason: "i is incremented only under the test i < len(v), hence i ≤ len(v) at v[i:]"},
	{Func: "(*parseState).checkRequired", Construct: "index phi{append(phi↺, slice(new:[1]string, _, _)) | makeslice[[]string](0)}[(len(", Max: 1, Reason: "names receives one entry per element of required and this code runs only when len(required) != 0"},
	{Func: "(*parseState).checkRequired", Construct: "slice phi{append(phi↺, slice(new:[1]string, _, _)) | makeslice[[]string](0)}[_:(len(", Max: 1, Reason: "names receives one entry per element of required and this code runs only when len(required) != 0"},
	{Func: "closestChoice", Construct: "index P1[phi{", Max: 1, Reason: "choices is non-empty (tested at entry), so the first iteration sets mincmd = 0 and later iterations set it to a range index"},
	{Func: "convert", Construct: "call (reflect.Value).SetInt(P1)", Max: 1, Reason: "reached only when retval's type equals time.Duration (tested), an int64 kind"},
	{Func: "convertToString", Construct: "assert call:(reflect.Value).Interface(P0).(fmt.Stringer)", Max: 1, Reason: "reached only when the value's type equals time.Duration (tested), which implements fmt.Stringer"},
	{Func: "convertUnmarshal", Construct: "assert call:(reflect.Value).Interface(P1).(Unmarshaler)", Max: 1, Reason: "retval was just asserted to implement Unmarshaler and now holds a fresh non-nil pointer of the same type"},
}

func parseScope(c *Ctx, r *Report) map[*ssa.Function]bool {
	pa := c.mustFn(r, "(*Parser).ParseArgs")
	if pa == nil {
		return nil
	}
	set, _ := c.reach([]*ssa.Function{pa}, func(f *ssa.Function) bool {
		n := c.fname(f)
		// completion is excluded by the statement; help generation is decided under C17
		return strings.HasPrefix(n, "(*completion).") || n == "(*Parser).WriteHelp"
	})
	return set
}

func runC04(c *Ctx, r *Report, tier string) {
	r.Rule("NP", "no instruction reachable from ParseArgs (outside completion; help generation is decided under C17) can raise a run-time panic: every index/slice/nil-dereference/type-assertion/division/contract site is discharged by dominating conditions or allow-listed with a reason", 150)
	r.Rule("OUT-who", "the process streams are referenced only by printError; fmt.Print*/print/println/log.* only by completion.print; os.Exit only in ParseArgs' completion branch; printError and completion.print are called only by ParseArgs", 6)
	r.Rule("OUT-gate", "in printError every write is REQ(PrintErrors set ∧ err != nil); stdout REQ(*Error ∧ Type == ErrHelp), stderr its complement", 4)
	r.Rule("OUT-once", "in ParseArgs printError is called at most once per path and every return of a possibly non-nil error passes it", 2)
	r.Rule("OUT-buffer", "showBuiltinHelp renders into a local buffer", 1)
	r.Rule("TYPED", "every error stored to parseState.err or returned from the parse functions originates from nil, a typed constructor, parseState.err, Parser.internalError or user code; foreign errors only through marshalError/wrapError or the ok-edge of err.(*Error)", 8)
	r.Rule("TYPE-table", "each *Error constructor site on the parse path carries the documented ErrorType for its cause", 10)
	r.Rule("FIELD", "Option.field: only .Name is read outside the Field() accessor; stored only by the scan", 4)
	r.Rule("ERR-kept", "a package-internal error obtained in a loop is tested before the call is repeated", 3)
	r.Rule("VALID", "in convert / convertUnmarshal every reflect.Value.Elem() is REQ(¬IsNil) or follows a Set of the same value", 3)
	r.Rule("PROGRESS", "the token-consuming loops make progress on every iteration", 2)
	scope := parseScope(c, r)
	if scope == nil {
		return
	}
	r.Extra["scope"] = c.names(scope)
	c.runNP(r, "NP", scope, parseAllow)
	c.outputRules(r)
	c.typedRules(r, scope)
	c.progressRules(r)
}

func (c *Ctx) outputRules(r *Report) {
	pa := c.mustFn(r, "(*Parser).ParseArgs")
	pe := c.mustFn(r, "(*Parser).printError")
	if pa == nil || pe == nil {
		return
	}
	// who references the process streams
	n := 0
	c.eachInstr(func(fn *ssa.Function, in ssa.Instruction) {
		for _, op := range in.Operands(nil) {
			g, ok := (*op).(*ssa.Global)
			if !ok || g.Pkg == nil || g.Pkg.Pkg.Path() != "os" || (g.Name() != "Stdout" && g.Name() != "Stderr") {
				continue
			}
			n++
			r.Check(c.actsFor(fn, pe), "OUT-who", c.fname(fn), "reference to os."+g.Name(), c.ipos(in), "inside printError", "the process stream os."+g.Name()+" is referenced outside printError")
		}
		if ci, ok := in.(ssa.CallInstruction); ok {
			name := c.calleeName(ci.Common())
			switch {
			case name == "fmt.Print" || name == "fmt.Printf" || name == "fmt.Println" || name == "print" || name == "println" || strings.HasPrefix(name, "log."):
				n++
				r.Check(c.fname(fn) == "(*completion).print", "OUT-who", c.fname(fn), "call "+name, c.ipos(in), "inside completion.print", "direct write to the process streams outside completion.print")
			case name == "os.Exit":
				n++
				ok := c.actsFor(fn, pa)
				if ok {
					_, a := c.Requires(pa, isInstr(in), litHas(true, litCompletionEnv), nil)
					_, b := c.Requires(pa, isInstr(in), litHas(false, "nonnil(Parser.CompletionHandler("), nil)
					ok = a && b
				}
				r.Check(ok, "OUT-who", c.fname(fn), "call os.Exit", c.ipos(in), "in ParseArgs, REQ(GO_FLAGS_COMPLETION set ∧ CompletionHandler == nil)", "os.Exit reachable outside the completion branch")
			case name == "(*completion).print":
				n++
				ok := c.actsFor(fn, pa)
				if ok {
					_, ok = c.Requires(pa, isInstr(in), litHas(true, litCompletionEnv), nil)
				}
				r.Check(ok, "OUT-who", c.fname(fn), "call completion.print", c.ipos(in), "in ParseArgs' completion branch", "completion.print called outside the completion branch")
			case name == "(*Parser).printError":
				n++
				r.Check(c.actsFor(fn, pa), "OUT-who", c.fname(fn), "call printError", c.ipos(in), "called from ParseArgs", "printError called from "+c.fname(fn))
			}
		}
	})
	r.Sites += n
	// printError gating
	for _, in := range c.instrs(pe, c.isCallTo("fmt.Fprintln", "fmt.Fprintf", "fmt.Fprint")) {
		ci := in.(ssa.CallInstruction)
		w := c.term(ci.Common().Args[0])
		what := "write to " + w
		_, a := c.Requires(pe, isInstr(in), litHas(true, "nonzero((Parser.Options(P0) & PrintErrors))"), nil)
		_, b := c.Requires(pe, isInstr(in), litHas(true, "nonnil(P1)"), nil)
		r.Check(a && b, "OUT-gate", c.fname(pe), what+" REQ(PrintErrors ∧ err != nil)", c.ipos(in), "both edges necessary", fmt.Sprintf("PrintErrors necessary=%v, err!=nil necessary=%v", a, b))
		isHelpT := litHas(true, "eq(ErrHelp, Error.Type(assert[*Error](P1)")
		isErrT := litHas(true, "assert[*Error](P1)#1")
		notHelp := anyLit(litHas(false, "assert[*Error](P1)#1"), litHas(false, "eq(ErrHelp, Error.Type(assert[*Error](P1)"))
		// the stream written to: each way it can be chosen (directly, or through a local picked beforehand)
		for _, o := range c.originsOf(ci.Common().Args[0], in) {
			ot := o.Term
			switch {
			case strings.Contains(ot, "Stdout"):
				x, y := c.reqAt(pe, o, isErrT), c.reqAt(pe, o, isHelpT)
				r.Check(x && y, "OUT-gate", c.fname(pe), "stdout only for ErrHelp", c.ipos(in), "REQ(err is *Error) ∧ REQ(Type == ErrHelp)", fmt.Sprintf("*Error necessary=%v, ErrHelp necessary=%v", x, y))
			case strings.Contains(ot, "Stderr"):
				r.Check(c.reqAt(pe, o, notHelp), "OUT-gate", c.fname(pe), "stderr only for non-help errors", c.ipos(in), "REQ(¬*Error ∨ Type != ErrHelp)", "stderr reachable for a help error")
			default:
				r.Fail("OUT-gate", c.fname(pe), what, c.ipos(in), "printError writes to something other than os.Stdout/os.Stderr: "+trunc(ot, 60))
			}
		}
		// the text written is the error's text: a printf-style write takes a constant format (the error text
		// echoes user tokens, so used as a format its `%` sequences are re-interpreted), and the error (or its
		// Error() text) is among the operands written
		if c.calleeName(ci.Common()) == "fmt.Fprintf" && len(ci.Common().Args) > 1 {
			_, isConst := ci.Common().Args[1].(*ssa.Const)
			r.Check(isConst, "OUT-gate", c.fname(pe), "format string of the write is a constant", c.ipos(in), "constant format", "the format is "+trunc(c.term(ci.Common().Args[1]), 80)+": the error text echoes command-line tokens, so any `%` in it is mangled")
		}
		if ops, ok := varargOperands(c, ci.Common().Args[len(ci.Common().Args)-1]); ok {
			found := false
			for _, o := range ops {
				if o == "P1" || strings.HasPrefix(o, "call:invoke:error.Error(P1") || strings.HasPrefix(o, "call:(*Error).Error(") {
					found = true
				}
			}
			r.Check(found, "OUT-gate", c.fname(pe), "the error is among the operands written", c.ipos(in), "err or err.Error() is written", "operands written: "+trunc(strings.Join(ops, ", "), 100))
		}
	}
	// wrapError turns a foreign error into ErrUnknown: it is reserved for the errors of option parsing in the
	// argument loop (already typed there); every other conversion failure is typed ErrMarshal by marshalError
	if we := c.Fn("wrapError"); we != nil {
		sites, _ := c.callersOf(we)
		for _, s := range sites {
			t := c.term(s.Call.Common().Args[0])
			ok := (c.actsFor(s.Fn, pa) || c.actsFor(s.Fn, pa)) && (strings.Contains(t, "call:(*Parser).parseLong(") || strings.Contains(t, "call:(*Parser).parseShort("))
			r.Check(ok, "TYPED", c.fname(s.Fn), "wrapError applied to the option parsers' error only", c.ipos(s.Call), "in ParseArgs, on the result of parseLong/parseShort", "wrapError("+trunc(t, 60)+") in "+c.fname(s.Fn)+": a foreign error would surface as ErrUnknown instead of its documented type")
		}
	}
	// once, and on every failing return
	isPE := c.isCallTo("(*Parser).printError")
	if d, ok := c.NeverTwice(pa, isPE, false, c.newFacts(pa)); ok {
		r.OK("OUT-once", c.fname(pa), "printError at most once", c.pos(pa.Pos()), "no path from a printError call reaches another")
	} else {
		r.Fail("OUT-once", c.fname(pa), "printError at most once", c.pos(pa.Pos()), d)
	}
	for _, ret := range returnsOf(pa) {
		e := c.resolve(ret.Results[1])
		if isConstNil(e) {
			continue
		}
		c.mptRule(r, "OUT-once", pa, ret, "failing return passes printError", isPE, "call printError", nil)
	}
	if sh := c.mustFn(r, "(*Parser).showBuiltinHelp"); sh != nil {
		for _, in := range c.instrs(sh, c.isCallTo("(*Parser).WriteHelp")) {
			a := c.term(in.(ssa.CallInstruction).Common().Args[1])
			r.Check(a == "new:bytes.Buffer" || a == "new:strings.Builder", "OUT-buffer", c.fname(sh), "WriteHelp target", c.ipos(in), "a local bytes.Buffer / strings.Builder", "built-in help is written to "+a)
		}
	}
}

// errOrigins classifies where an error value comes from.
func (c *Ctx) errOrigins(v ssa.Value, at *ssa.BasicBlock, depth int, seen map[ssa.Value]bool, out map[string]bool) {
	v0 := v
	v = c.resolve(v)
	if seen[v] {
		return
	}
	if isConstNil(v) {
		out["nil"] = true
		return
	}
	// at a place reached only after `v.(*Error)` succeeded the value is one of the package's typed errors
	if at != nil && c.typedAt(v0, at) {
		out["typed(ok-edge of .(*Error))"] = true
		return
	}
	seen[v] = true
	switch x := v.(type) {
	case *ssa.Phi:
		for i, e := range x.Edges {
			// an edge taken only after `e.(*Error)` succeeded carries a typed error
			if c.typedOnEdge(e, x.Block().Preds[i], x.Block()) {
				out["typed(ok-edge of .(*Error))"] = true
				continue
			}
			if c.nilAt(e, x.Block().Preds[i], x.Block()) {
				out["nil"] = true
				continue
			}
			c.errOrigins(e, x.Block().Preds[i], depth, seen, out)
		}
		return
	case *ssa.Call:
		cc := x.Common()
		name := c.calleeName(cc)
		switch name {
		case "newError", "newErrorf", "(*Parser).marshalError", "wrapError":
			out["typed("+name+")"] = true
			return
		case "(*parseState).addArgs":
			out["positional"] = true
			return
		}
		if cc.IsInvoke() || cc.StaticCallee() == nil {
			t := c.term(x)
			switch {
			case strings.HasPrefix(t, "invoke:Commander.Execute"), strings.HasPrefix(t, "dyncall(Parser.CommandHandler("):
				out["user"] = true
			default:
				out["foreign:"+trunc(t, 60)] = true
			}
			return
		}
		cal := cc.StaticCallee()
		if c.isNew(cal) && depth < 4 && cal.Signature.Results().Len() == 1 {
			// a helper extracted around a constructor (returns *Error or error): its returns are the origins
			c.frames = append(c.frames, x)
			for _, ret := range returnsOf(cal) {
				c.errOrigins(ret.Results[0], ret.Block(), depth+1, seen, out)
			}
			c.frames = c.frames[:len(c.frames)-1]
			return
		}
		if cal.Blocks != nil && cal.Pkg == c.Pkg && depth < 4 && isErrorType(cal.Signature.Results().At(cal.Signature.Results().Len()-1).Type()) {
			switch name {
			case "convert", "convertUnmarshal", "(*Option).call", "unquoteIfPossible", "(*Option).isValidValue", "getBase", "getFormatBase":
				out["foreign:"+name] = true
				return
			}
			for _, ret := range returnsOf(cal) {
				c.errOrigins(errResult(ret), ret.Block(), depth+1, seen, out)
			}
			return
		}
		out["foreign:"+name] = true
		return
	case *ssa.Extract:
		if call, ok := x.Tuple.(*ssa.Call); ok {
			t := c.term(call)
			if strings.HasPrefix(t, "dyncall(Parser.UnknownOptionHandler(") {
				out["user"] = true
				return
			}
			if cal := call.Common().StaticCallee(); cal != nil && c.isNew(cal) && depth < 4 {
				for _, ret := range returnsOf(cal) {
					if x.Index < len(ret.Results) {
						c.errOrigins(ret.Results[x.Index], ret.Block(), depth+1, seen, out)
					}
				}
				return
			}
			out["foreign:"+trunc(c.calleeName(call.Common()), 60)] = true
			return
		}
	case *ssa.UnOp:
		t := c.term(x)
		switch {
		case strings.HasPrefix(t, "parseState.err("):
			out["state"] = true
			return
		case strings.HasPrefix(t, "Parser.internalError("):
			out["internal"] = true
			return
		}
		if _, isCell := c.cellRoot(x.X); isCell {
			// a named result / captured variable: all stores
			root, _ := c.cellRoot(x.X)
			stores, _ := c.cellStores(root)
			if len(stores) == 0 {
				out["nil"] = true
			}
			for _, st := range stores {
				if c.typedAt(st.Val, st.Block()) {
					out["typed(ok-edge of .(*Error))"] = true
					continue
				}
				c.errOrigins(st.Val, st.Block(), depth, seen, out)
			}
			return
		}
	case *ssa.Parameter:
		out["param"] = true
		return
	}
	_ = v0
	out["unknown:"+trunc(c.term(v), 60)] = true
}

// typedAt: value v is known to be a *Error at block b (b is dominated by the
// true edge of `_, ok := v.(*Error)`), or is a *Error-typed value.
func (c *Ctx) typedAt(v ssa.Value, b *ssa.BasicBlock) bool {
	if mi, ok := v.(*ssa.MakeInterface); ok {
		if typeName(mi.X.Type()) == "Error" {
			if _, isPtr := mi.X.Type().(*types.Pointer); isPtr {
				return true
			}
		}
	}
	rv := c.resolve(v)
	facts := c.domFacts(b)
	// the block itself may be the ok-successor: include facts established by its single predecessor edge
	for _, f := range facts {
		if f.Alts != nil {
			continue
		}
		e1, ok := c.resolve(f.Cond).(*ssa.Extract)
		if !ok || e1.Index != 1 || !f.Pos {
			continue
		}
		ta, ok := e1.Tuple.(*ssa.TypeAssert)
		if !ok || typeName(ta.AssertedType) != "Error" {
			continue
		}
		if c.resolve(ta.X) == rv || c.term(ta.X) == c.term(rv) {
			return true
		}
	}
	return false
}

func (c *Ctx) typedRules(r *Report, scope map[*ssa.Function]bool) {
	errField := c.mustField(r, "parseState", "err")
	if errField == nil {
		return
	}
	allowed := func(o string) bool {
		// "positional": the raw conversion error of a positional argument, recorded by addArgs (TYPED allow-list entry there)
		return o == "nil" || strings.HasPrefix(o, "typed(") || o == "state" || o == "user" || o == "positional"
	}
	check := func(fn *ssa.Function, v ssa.Value, at ssa.Instruction, what string) {
		out := map[string]bool{}
		c.errOrigins(v, at.Block(), 0, map[ssa.Value]bool{}, out)
		var bad []string
		for o := range out {
			if !allowed(o) {
				bad = append(bad, o)
			}
		}
		sort.Strings(bad)
		fname := c.fname(fn)
		if len(bad) == 0 {
			r.OK("TYPED", fname, what, c.ipos(at), "origins: "+strings.Join(sortedKeys(out), ", "))
			return
		}
		// documented exceptions
		if aa := c.Fn("(*parseState).addArgs"); aa != nil && c.actsFor(fn, aa) && len(bad) == 1 && bad[0] == "foreign:convert" {
			r.Allow("TYPED", fname, what, c.ipos(at), "the positional-argument conversion error is stored raw; positional conversion is not among the causes whose Type the property fixes")
			return
		}
		if fname == "(*Parser).ParseArgs" && len(bad) == 1 && bad[0] == "internal" {
			r.OK("TYPED", fname, what, c.ipos(at), "replay of the declaration error recorded at setup (typed there: C19)")
			return
		}
		r.Fail("TYPED", fname, what, c.ipos(at), "untyped (foreign) error reaches this sink: "+strings.Join(bad, ", "))
	}
	for _, s := range c.storesTo(errField) {
		if !scope[s.Fn] {
			continue
		}
		check(s.Fn, s.Store.Val, s.Store, "store to parseState.err")
	}
	for _, name := range []string{"(*Parser).ParseArgs", "(*Parser).parseOption", "(*Parser).parseLong", "(*Parser).parseShort", "(*parseState).checkRequired", "(*parseState).estimateCommand", "(*Parser).parseNonOption"} {
		fn := c.mustFn(r, name)
		if fn == nil {
			continue
		}
		for _, ret := range returnsOf(fn) {
			e := errResult(ret)
			if name == "(*Parser).ParseArgs" {
				// the returned error is printError(x): classify x
				if call, ok := c.resolve(e).(*ssa.Call); ok && c.calleeName(call.Common()) == "(*Parser).printError" {
					e = call.Call.Args[1]
				}
			}
			check(fn, e, ret, "returned error")
		}
	}
	// cause → type table
	want := map[string][]string{
		"(*Parser).parseLong":               {"ErrUnknownFlag"},
		"(*Parser).parseShort":              {"ErrUnknownFlag"},
		"(*Parser).parseOption":             {"ErrNoArgumentForBool", "ErrExpectedArgument"},
		"(*Parser).marshalError":            {"ErrMarshal"},
		"(*Parser).parseNonOption":          {"ErrUnknownCommand"},
		"(*parseState).checkRequired":       {"ErrRequired"},
		"(*parseState).estimateCommand":     {"ErrUnknownCommand", "ErrCommandRequired"},
		"(*Option).Set":                     {"ErrInvalidChoice"},
		"(*Option).call":                    {"ErrNoArgumentForBool"},
		"(*Parser).showBuiltinHelp":         {"ErrHelp"},
		"wrapError":                         {"ErrUnknown"},
		"(*multiTag).scan":                  {"ErrTag"},
		"(*Group).scanStruct":               {"ErrShortNameTooLong", "ErrInvalidTag"},
		"(*Group).checkForDuplicateFlags$1": {"ErrDuplicatedFlag"},
	}
	for fn := range scope {
		if n := c.fname(fn); n == "newErrorf" || n == "newError" {
			continue
		}
		for _, in := range c.instrs(fn, c.isCallTo("newError", "newErrorf")) {
			ci := in.(ssa.CallInstruction)
			tt := c.term(ci.Common().Args[0])
			fname := c.fname(fn)
			var types_ []string
			if strings.HasPrefix(tt, "phi{") {
				types_ = strings.Split(strings.TrimSuffix(strings.TrimPrefix(tt, "phi{"), "}"), " | ")
			} else {
				types_ = []string{tt}
			}
			// a helper extracted from a known function inherits that function's documented types
			var w []string
			known := false
			for _, owner := range c.ownerNames(fn) {
				if ww, k := want[owner]; k {
					known = true
					w = append(w, ww...)
				}
			}
			if host := in.Parent(); c.Fn("(*Parser).marshalError") == nil && c.isNew(host) {
				fn := host
				// marshalError replaced by a differently shaped helper: it is recognised by being called exactly
				// from where conversion failures surface (the tail of parseOption, the defaults pass)
				onlyThere := true
				for _, owner := range c.ownerNames(fn) {
					if owner != "(*Parser).parseOption" && !strings.HasPrefix(owner, "(*Parser).ParseArgs") && owner != c.fname(fn) {
						onlyThere = false
					}
				}
				if onlyThere {
					known = true
					w = append(w, "ErrMarshal")
				}
			}
			ok := known
			for _, t := range types_ {
				f := false
				for _, x := range w {
					if x == t {
						f = true
					}
				}
				if !f {
					ok = false
				}
			}
			r.Check(ok, "TYPE-table", fname, "constructor site "+strings.Join(types_, "|"), c.ipos(in), "type is the documented one for this function's cause", fmt.Sprintf("constructor carries %v, documented for %s: %v", types_, fname, w))
		}
	}
	// specific cause guards
	if pl := c.Fn("(*Parser).parseOption"); pl != nil {
		for _, in := range c.instrs(pl, c.isCallTo("newErrorf")) {
			ci := in.(ssa.CallInstruction)
			if c.term(ci.Common().Args[0]) == "ErrNoArgumentForBool" {
				_, a := c.Requires(pl, isInstr(in), litHas(false, "call:(*Option).canArgument(P3)"), nil)
				_, b := c.Requires(pl, isInstr(in), litHas(true, "nonnil(P5)"), nil)
				r.Check(a && b, "TYPE-table", c.fname(pl), "ErrNoArgumentForBool REQ(¬canArgument ∧ argument != nil)", c.ipos(in), "both edges necessary", fmt.Sprintf("¬canArgument=%v argument!=nil=%v", a, b))
			}
		}
	}
	if ec := c.Fn("(*parseState).estimateCommand"); ec != nil {
		for _, in := range c.instrs(ec, c.isCallTo("newError")) {
			ci := in.(ssa.CallInstruction)
			if p, ok := ci.Common().Args[0].(*ssa.Phi); ok {
				good := true
				for i, e := range p.Edges {
					pred := p.Block().Preds[i]
					_, viaNonEmpty := c.Requires(ec, func(x ssa.Instruction) bool { return x == pred.Instrs[len(pred.Instrs)-1] }, litHas(true, "nonempty(parseState.retargs(P0))"), nil)
					t := c.term(e)
					if (t == "ErrUnknownCommand") != viaNonEmpty {
						good = false
					}
				}
				r.Check(good, "TYPE-table", c.fname(ec), "ErrUnknownCommand iff a word was given", c.ipos(in), "type is ErrUnknownCommand exactly on the len(retargs) != 0 side", "type/guard mismatch in estimateCommand")
			}
		}
	}
}

func (c *Ctx) progressRules(r *Report) {
	pa := c.mustFn(r, "(*Parser).ParseArgs")
	aa := c.mustFn(r, "(*parseState).addArgs")
	if pa == nil || aa == nil {
		return
	}
	// FIELD: Option.field is the zero StructField for options added programmatically (AddOption): on the parse path
	// only its Name (a string) may be read; its Type is a nil interface there
	if of := c.mustField(r, "Option", "field"); of != nil {
		nF := 0
		for _, fn := range c.Funcs {
			for _, b := range fn.Blocks {
				for _, in := range b.Instrs {
					fa, ok := in.(*ssa.FieldAddr)
					if !ok || fieldObj(fa.X.Type(), fa.Field) != of || fa.Referrers() == nil {
						continue
					}
					for _, ref := range *fa.Referrers() {
						okUse, what := false, ""
						switch u := ref.(type) {
						case *ssa.DebugRef:
							continue
						case *ssa.FieldAddr:
							what = fieldVarName(fieldObj(u.X.Type(), u.Field))
							okUse = what == "Name"
						case *ssa.UnOp:
							what = "the whole StructField"
							okUse = c.fname(fn) == "(*Option).Field"
						case *ssa.Store:
							what = "store"
							okUse = u.Addr == ssa.Value(fa) && setupFn(c, fn)
						default:
							what = fmt.Sprintf("%T", ref)
						}
						nF++
						r.Check(okUse, "FIELD", c.fname(fn), "use of Option.field", c.ipos(ref), "only field.Name is read (the Field() accessor returns the struct; the scan stores it)", "Option.field."+what+" is used in "+c.fname(fn)+": for an option added with AddOption the struct field is the zero value (Type is nil), so this panics or misbehaves")
					}
				}
			}
		}
		r.Check(nF >= 3, "FIELD", "package", "uses of Option.field found", "", "≥ 3", fmt.Sprintf("%d", nF))
	}
	// ERR-kept: an error obtained inside a loop is not overwritten by the next iteration: from a call whose error
	// result is used, the same call is reached again only through the nil edge of a test of that very error
	{
		flowCtx = c
		nK := 0
		for _, fn := range c.Funcs {
			loops := loopsOf(fn)
			if len(loops) == 0 {
				continue
			}
			for _, b := range fn.Blocks {
				if innermost(loops, b) == nil {
					continue
				}
				for i, in := range b.Instrs {
					call, ok := in.(*ssa.Call)
					if !ok {
						continue
					}
					evs := errValuesOfCall(call)
					if len(evs) == 0 {
						continue
					}
					cal := call.Common().StaticCallee()
					if cal == nil || cal.Pkg != c.Pkg {
						continue // package-internal error producers only
					}
					flows := map[ssa.Value]bool{}
					for _, ev := range evs {
						for v := range flowsTo(ev) {
							flows[v] = true
						}
					}
					used := false
					for _, ev := range evs {
						if ev.Referrers() != nil {
							for _, ref := range *ev.Referrers() {
								if _, dbg := ref.(*ssa.DebugRef); !dbg {
									used = true
								}
							}
						}
					}
					if !used {
						continue // a deliberately dropped error is another matter
					}
					lp := innermost(loops, b)
					tested := false
					for lb := range lp.Blocks {
						iff, ok := lb.Instrs[len(lb.Instrs)-1].(*ssa.If)
						if !ok {
							continue
						}
						if bo, ok := iff.Cond.(*ssa.BinOp); ok && (isConstNil(bo.X) || isConstNil(bo.Y)) {
							v := bo.X
							if isConstNil(bo.X) {
								v = bo.Y
							}
							if flows[v] {
								tested = true
							}
						}
					}
					// (an error handed straight to a return or to another call inside the loop is looked at there)
					for v := range flows {
						if v.Referrers() == nil {
							continue
						}
						for _, ref := range *v.Referrers() {
							switch u := ref.(type) {
							case *ssa.Return:
								if lp.Blocks[u.Block()] {
									tested = true
								}
							case ssa.CallInstruction:
								if lp.Blocks[u.Block()] && ref != ssa.Instruction(call) {
									tested = true
								}
							case *ssa.Store:
								if lp.Blocks[u.Block()] {
									tested = true
								}
							}
						}
					}
					found := !tested
					var path []string
					_ = i
					nK++
					r.Check(!found, "ERR-kept", c.fname(fn), "an error from "+c.calleeName(call.Common())+" is not overwritten by the next iteration", c.ipos(in), "the error is tested (or returned, stored or passed on) inside the loop", "the loop goes round without looking at the error: an earlier failure is overwritten by a later success"+pathStr(path))
				}
			}
		}
		r.Check(nK >= 2, "ERR-kept", "package", "error-producing calls in loops found", "", "≥ 2", fmt.Sprintf("%d", nK))
	}
	// VALID: convert and convertUnmarshal start with retval.Type(): the zero Value (Elem of a nil interface/pointer) must not reach them
	nValid := 0
	for _, name := range []string{"convert", "convertUnmarshal"} {
		root := c.mustFn(r, name)
		if root == nil {
			continue
		}
		for _, fn := range c.Funcs {
			if !c.actsFor(fn, root) {
				continue
			}
			for _, in := range c.instrs(fn, c.isCallTo("(reflect.Value).Elem")) {
				call := in.(ssa.CallInstruction)
				x := call.Common().Args[0]
				xt := c.term(x)
				nValid++
				if nc, ok := c.resolve(x).(*ssa.Call); ok && c.calleeName(nc.Common()) == "reflect.New" {
					r.OK("VALID", c.fname(fn), "Elem() only of a value known not to be nil", c.ipos(in), "the receiver is the result of reflect.New: a non-nil pointer")
					continue
				}
				setX := func(i ssa.Instruction) bool {
					ci, ok := i.(ssa.CallInstruction)
					return ok && c.calleeName(ci.Common()) == "(reflect.Value).Set" && c.term(ci.Common().Args[0]) == xt
				}
				path, ok := c.MustPass(fn, isInstr(in), setX, litIs("call:(reflect.Value).IsNil("+xt+")", false), nil)
				r.Check(ok, "VALID", c.fname(fn), "Elem() only of a value known not to be nil", c.ipos(in), "REQ(¬IsNil(x)) or MPT(x.Set(…))", "Elem() of a possibly nil interface/pointer yields the zero Value, and the next convert/convertUnmarshal panics in Type(): "+pathStr(path))
			}
		}
	}
	r.Check(nValid >= 2, "VALID", "convert", "Elem() sites found", "", "≥ 2", fmt.Sprintf("%d", nValid))
	argsField := c.mustField(r, "parseState", "args")
	loop := c.loopContaining(pa, c.isCallTo("(*parseState).pop"))
	if loop != nil && argsField != nil {
		shrink := orPred(c.isCallTo("(*parseState).pop"), c.isStoreTo(argsField))
		q := &PathQ{c: c, Fn: pa, CutIn: shrink}
		var body *ssa.BasicBlock
		for _, s := range loop.Header.Succs {
			if loop.Blocks[s] {
				body = s
			}
		}
		_, found := q.Reach(Site{body, 0}, 0, func(x ssa.Instruction) bool { return x == loop.Header.Instrs[0] })
		r.Check(!found, "PROGRESS", c.fname(pa), "argument loop consumes a token per iteration", c.ipos(loop.Header.Instrs[0]), "every path from the loop body back to the header passes pop() or a store of the handler's slice (user-controlled: assumption)", "a path returns to the loop header without consuming a token")
		// pop itself shrinks
		if pop := c.Fn("(*parseState).pop"); pop != nil {
			ok := false
			for _, st := range c.instrs(pop, c.isStoreTo(argsField)) {
				if strings.HasPrefix(c.term(st.(*ssa.Store).Val), "slice(parseState.args(P0), 1, _)") {
					ok = true
				}
			}
			r.Check(ok, "PROGRESS", c.fname(pop), "pop stores args[1:]", c.pos(pop.Pos()), "args = args[1:]", "pop does not shrink parseState.args by one")
		}
	} else {
		r.Fail("PROGRESS", c.fname(pa), "argument loop", "", "loop not found")
	}
	ok := false
	for _, l := range c.loopsDeep(aa) {
		for _, in := range l.Header.Instrs {
			p, isPhi := in.(*ssa.Phi)
			if !isPhi {
				break
			}
			if relType(c, p.Type()) == "int" {
				// counter form: every back edge carries counter+k (k ≥ 1) and the loop is left when counter ≥ len(args)
				inc := true
				for i, e := range p.Edges {
					if !l.Blocks[l.Header.Preds[i]] {
						continue
					}
					bo, isB := e.(*ssa.BinOp)
					if !isB || bo.Op != token.ADD || bo.X != ssa.Value(p) {
						inc = false
						continue
					}
					if k, isC := constInt(bo.Y); !isC || k < 1 {
						inc = false
					}
				}
				bounded := false
				for b := range l.Blocks {
					if iff, isIf := b.Instrs[len(b.Instrs)-1].(*ssa.If); isIf {
						lt := c.cond(iff.Cond)
						if (lt.Term == "lt("+c.term(p)+", len(P1))" || lt.Term == "lt(("+c.term(p)+" + 1), len(P1))") && !l.Blocks[b.Succs[1]] {
							bounded = true
						}
					}
				}
				if inc && bounded {
					ok = true
				}
				continue
			}
			if !isSliceT(p.Type()) || typeName(p.Type()) != "[]string" {
				continue
			}
			all := true
			for i, e := range p.Edges {
				if !l.Blocks[l.Header.Preds[i]] {
					continue
				}
				sl, isS := e.(*ssa.Slice)
				if !isS || sl.X != ssa.Value(p) {
					all = false
					continue
				}
				if k, isC := constInt(sl.Low); !isC || k < 1 {
					all = false
				}
			}
			if all {
				ok = true
			}
		}
	}
	r.Check(ok, "PROGRESS", c.fname(aa), "positional fill loop drops a token per iteration", c.pos(aa.Pos()), "every back edge carries args[1:] (or advances the token index, bounded by len(args))", "a back edge of the fill loop does not shrink args")
}

// nilAt: the value flowing along the edge pred→succ is known nil: pred (or the
// edge itself) is dominated by the nil edge of a test of that very value.
func (c *Ctx) nilAt(v ssa.Value, pred, succ *ssa.BasicBlock) bool {
	rv := c.resolve(v)
	isNilFact := func(cond ssa.Value, pos bool) bool {
		bo, ok := c.resolve(cond).(*ssa.BinOp)
		if !ok || !(isConstNil(bo.X) || isConstNil(bo.Y)) {
			return false
		}
		other := bo.X
		if isConstNil(bo.X) {
			other = bo.Y
		}
		if c.resolve(other) != rv {
			return false
		}
		return (bo.Op == token.EQL && pos) || (bo.Op == token.NEQ && !pos)
	}
	for _, f := range c.domFacts(pred) {
		if f.Alts == nil && isNilFact(f.Cond, f.Pos) {
			return true
		}
	}
	// the edge itself
	if iff, ok := pred.Instrs[len(pred.Instrs)-1].(*ssa.If); ok && pred.Succs[0] != pred.Succs[1] {
		for si, s := range pred.Succs {
			if s == succ && isNilFact(iff.Cond, si == 0) {
				return true
			}
		}
	}
	return false
}

// edgeFacts: facts that hold when control flows along pred→succ.
func (c *Ctx) edgeFacts(pred, succ *ssa.BasicBlock) []DomFact {
	out := c.domFacts(pred)
	if iff, ok := pred.Instrs[len(pred.Instrs)-1].(*ssa.If); ok && pred.Succs[0] != pred.Succs[1] {
		for si, s := range pred.Succs {
			if s == succ {
				out = append(out, DomFact{Cond: iff.Cond, Pos: si == 0, If: iff})
			}
		}
	}
	return out
}

func (c *Ctx) typedOnEdge(v ssa.Value, pred, succ *ssa.BasicBlock) bool {
	if c.typedAt(v, pred) {
		return true
	}
	rv := c.resolve(v)
	for _, f := range c.edgeFacts(pred, succ) {
		if f.Alts != nil {
			continue
		}
		e1, ok := c.resolve(f.Cond).(*ssa.Extract)
		if !ok || e1.Index != 1 || !f.Pos {
			continue
		}
		ta, ok := e1.Tuple.(*ssa.TypeAssert)
		if !ok || typeName(ta.AssertedType) != "Error" {
			continue
		}
		if c.resolve(ta.X) == rv {
			return true
		}
	}
	return false
}
