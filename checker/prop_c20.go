package main

import (
	"fmt"
	"go/token"
	"strings"

	"golang.org/x/tools/go/ssa"
)

func init() {
	register(&Property{
		Meta: PropMeta{
			ID:          "C20",
			Level:       "other",
			Explanation: "Structural necessary conditions of the unknown-command diagnosis, decided on the SSA of /repo for all paths: (VISIBLE) the candidate names in estimateCommand derive only from sortedVisibleCommands (hidden commands can be neither suggested nor enumerated) and the enumeration joins all of them; (THRESHOLD) the `did you mean` branch is guarded by the strict test distance/length < 0.5 (or the equivalent strict 2·distance < length) with the length counted in characters of the suggested name; (MINIMUM) closestChoice visits every candidate (no early exit) and replaces the best only on a strict `<`, so the first minimum in sorted order wins; (DP) levenshtein works on character slices, returns only len(t) / len(s) for an empty operand or the last table cell, initialises both borders over their full dimension, and every interior cell (i+1,j+1) is written with exactly the textbook candidates — the diagonal on equal characters, else diagonal+1, left+1 when left < current, up+1 when up < current; (NP) no instruction of closestChoice, levenshtein or estimateCommand can panic.",
			NotDecided:  "that the number computed is the Levenshtein distance for every pair of strings (a numeric result; the rules check the recurrence's shape, border initialisation and index arithmetic, not its values); the threshold constant's adequacy.",
			Trusted:     []string{"go/ssa lowering", "go/types", "the []rune conversion yields one element per character"},
		},
		Run:      runC20,
		Controls: []string{"np-index", "path-req"},
	})
}

func runC20(c *Ctx, r *Report, tier string) {
	r.Rule("VISIBLE", "candidates of estimateCommand derive only from sortedVisibleCommands; the enumeration lists all of them", 3)
	r.Rule("THRESHOLD", "suggestion REQ(distance/characters(name) < 0.5), strict", 2)
	r.Rule("MINIMUM", "closestChoice: no early exit, strict improvement, result is choices[best]", 3)
	r.Rule("DP", "levenshtein: character slices, returns, full border initialisation, textbook interior recurrence", 8)
	r.Rule("NP", "closestChoice, levenshtein and estimateCommand cannot panic", 15)
	r.Rule("TEXT", "the diagnostic reaches the error as composed: constant formats in estimateCommand and in the error constructors; the enumeration order is plain string order of the names", 2)

	ec := c.mustFn(r, "(*parseState).estimateCommand")
	cc := c.mustFn(r, "closestChoice")
	lv := c.mustFn(r, "levenshtein")
	if ec == nil || cc == nil || lv == nil {
		return
	}
	c.runNP(r, "NP", map[*ssa.Function]bool{ec: true, cc: true, lv: true}, []*npAllow{
		{Func: "closestChoice", Construct: "index P1[phi{", Max: 1, Reason: "choices is non-empty (tested at entry), so the first iteration sets the best index to 0 and later iterations set it to a range index"},
	})

	// ---- VISIBLE
	en := c.fname(ec)
	collected := "" // term of the candidate list when it is built by append
	for _, in := range c.instrs(ec, c.isCallTo("closestChoice")) {
		func() {
			call := in.(*ssa.Call)
			names := c.resolve(call.Call.Args[1])
			if hc, ok := names.(*ssa.Call); ok {
				// the list built in a new helper: examined in that helper's frame
				if h := hc.Call.StaticCallee(); h != nil && c.isNew(h) {
					if rets := returnsOf(h); len(rets) == 1 && len(rets[0].Results) == 1 {
						c.frames = append(c.frames, hc)
						defer func(n int) { c.frames = c.frames[:n] }(len(c.frames) - 1)
						names = c.resolve(rets[0].Results[0])
					}
				}
			}
			visT := "call:(*Command).sortedVisibleCommands(parseState.command(P0))"
			if ph, isPhi := names.(*ssa.Phi); isPhi {
				// built by collecting: one Command.Name per element of the visible list, no filter
				y, elem, _, okC := collectIdiom(c, ph)
				okProv := okC && c.term(y) == visT && strings.HasPrefix(c.term(elem), "Command.Name(idx("+visT+", ")
				r.Check(okProv, "VISIBLE", en, "candidate list handed to closestChoice", c.ipos(in), "names of sortedVisibleCommands(), one per element", "candidates are "+trunc(c.term(names), 140))
				r.Check(strings.HasPrefix(c.term(call.Call.Args[0]), "idx(parseState.retargs(P0), 0)"), "VISIBLE", en, "word compared", c.ipos(in), "the first remaining argument", "compares "+trunc(c.term(call.Call.Args[0]), 80))
				collected = c.term(ph)
				return
			}
			ms, ok := names.(*ssa.MakeSlice)
			okProv := ok && c.term(ms.Len) == "len(call:(*Command).sortedVisibleCommands(parseState.command(P0)))"
			// every store into the names slice stores Command.Name of an element of that list
			if okProv {
				for _, ref := range *ms.Referrers() {
					if ia, isIA := ref.(*ssa.IndexAddr); isIA {
						for _, r2 := range *ia.Referrers() {
							if st, isSt := r2.(*ssa.Store); isSt {
								if !strings.HasPrefix(c.term(st.Val), "Command.Name(idx(call:(*Command).sortedVisibleCommands(parseState.command(P0)), ") {
									okProv = false
								}
							}
						}
					}
				}
			}
			r.Check(okProv, "VISIBLE", en, "candidate list handed to closestChoice", c.ipos(in), "names of sortedVisibleCommands(), one per element", "candidates are "+trunc(c.term(names), 140))
			r.Check(strings.HasPrefix(c.term(call.Call.Args[0]), "idx(parseState.retargs(P0), 0)"), "VISIBLE", en, "word compared", c.ipos(in), "the first remaining argument", "compares "+trunc(c.term(call.Call.Args[0]), 80))
		}()
	}
	nJoin := 0
	for _, ci := range c.instrsCtx(ec, c.isCallTo("strings.Join")) {
		call := ci.In.(*ssa.Call)
		var t string
		c.within(ci.Frames, func() { t = c.term(call.Call.Args[0]) })
		nJoin++
		r.Check(strings.HasPrefix(t, "slice(makeslice[[]string](len(call:(*Command).sortedVisibleCommands(") || collected != "" && strings.HasPrefix(t, "slice("+collected+", "), "VISIBLE", en, "enumeration source", c.ipos(ci.In), "all names but the last are joined, the last is appended separately", "enumeration joins "+trunc(t, 120))
	}
	// (two sites, or one site whose text both messages use)
	r.Check(nJoin >= 1, "VISIBLE", en, "enumeration sites", c.pos(ec.Pos()), "the messages enumerate the visible names", fmt.Sprintf("%d enumeration sites", nJoin))
	if len(c.instrs(ec, func(in ssa.Instruction) bool {
		u, ok := in.(*ssa.UnOp)
		return ok && strings.HasPrefix(c.term(u), "Command.commands(")
	})) > 0 {
		r.Fail("VISIBLE", en, "direct read of Command.commands", "", "estimateCommand reads the unfiltered command list")
	}

	// ---- THRESHOLD
	nTh := 0
	// the suggestion: a "did you mean" text built by fmt.Sprintf or by string concatenation
	type sugSite struct {
		in    ssa.Instruction
		names []ssa.Value // the values printed with it
	}
	var sugSites []sugSite
	for _, in := range c.instrs(ec, c.isCallTo("fmt.Sprintf")) {
		call := in.(*ssa.Call)
		if f, ok := constStr(call.Call.Args[0]); ok && strings.Contains(f, "did you mean") {
			sugSites = append(sugSites, sugSite{in, sliceLitElems(call.Call.Args[1])})
		}
	}
	for _, in := range c.instrs(ec, func(in ssa.Instruction) bool { bo, ok := in.(*ssa.BinOp); return ok && bo.Op == token.ADD }) {
		bo := in.(*ssa.BinOp)
		if s, ok := constStr(bo.X); ok && strings.Contains(s, "did you mean") {
			sugSites = append(sugSites, sugSite{in, []ssa.Value{bo.Y}})
		} else if l, ok := bo.X.(*ssa.BinOp); ok && l.Op == token.ADD {
			if s, ok := constStr(l.Y); ok && strings.Contains(s, "did you mean") {
				sugSites = append(sugSites, sugSite{in, []ssa.Value{bo.Y}})
			}
		}
	}
	for _, ss := range sugSites {
		in := ss.in
		nTh++
		cName := "call:closestChoice("
		okLit := func(l Lit) bool {
			if !l.Pos || !strings.HasPrefix(l.Term, "lt(") {
				return false
			}
			t := l.Term
			// lt((float(l) / float(RuneCount(c))), 0.5)
			if strings.Contains(t, "conv[float32]("+cName) || strings.Contains(t, "conv[float64]("+cName) {
				return strings.Contains(t, "/ conv[float") && strings.Contains(t, "](call:unicode/utf8.RuneCountInString("+cName) && (strings.HasSuffix(t, ", 1/2)") || strings.HasSuffix(t, ", 0.5)"))
			}
			// lt((2 * l), RuneCount(c))
			return strings.HasPrefix(t, "lt(("+cName) && strings.Contains(t, "#1 * 2), call:unicode/utf8.RuneCountInString("+cName) ||
				strings.HasPrefix(t, "lt((2 * "+cName) && strings.Contains(t, "#1), call:unicode/utf8.RuneCountInString("+cName)
		}
		_, ok := c.Requires(ec, isInstr(in), okLit, nil)
		r.Check(ok, "THRESHOLD", en, "`did you mean` guard", c.ipos(in), "REQ(distance / characters(suggested name) < 0.5), strict", "the suggestion is reachable without the strict test distance/characters(name) < 0.5")
		// …and is made whenever the test holds: no other condition (number of commands, …) decides about it
		var extra []string
		for _, l := range c.depsOf(ec, in) {
			switch {
			case okLit(l):
			case strings.HasPrefix(l.Term, "nonempty(parseState.retargs(") || strings.HasPrefix(l.Term, "lt(0, len(parseState.retargs("): // a word was given (unknown command, not a missing one)
			default:
				extra = append(extra, l.String())
			}
		}
		r.Check(len(extra) == 0, "THRESHOLD", en, "`did you mean` has no other guard", c.ipos(in), "CD(suggestion) ⊆ {a word was given, distance/characters < 0.5}", "the suggestion is withheld by "+strings.Join(extra, " ∧ ")+" although the closest command is near enough")
		// suggested name is closestChoice's
		sug := false
		for _, e := range ss.names {
			if strings.HasPrefix(c.term(e), cName) && strings.HasSuffix(c.term(e), "#0") {
				sug = true
			}
		}
		r.Check(sug, "THRESHOLD", en, "suggested name", c.ipos(in), "the name returned by closestChoice", "the message does not print closestChoice's result")
	}
	r.Check(nTh == 1, "THRESHOLD", en, "suggestion sites", c.pos(ec.Pos()), "one", fmt.Sprintf("%d", nTh))

	// ---- MINIMUM
	cn := c.fname(cc)
	var cl *Loop
	for _, l := range c.loopsDeep(cc) {
		cl = l
	}
	if cl == nil {
		r.Fail("MINIMUM", cn, "candidate loop", "", "no loop in closestChoice")
	} else {
		okExit := true
		for _, e := range cl.exits() {
			if e.B != cl.Header {
				okExit = false
			}
		}
		r.Check(okExit, "MINIMUM", cn, "visits every candidate", c.ipos(cl.Header.Instrs[0]), "the loop is left only by exhausting the range", "early exit from the candidate loop")
		// the best-so-far distance: a loop-carried value whose in-loop origins are levenshtein results,
		// each selected only on a strict improvement (or while there is no candidate yet)
		improve := func(l Lit) bool {
			if !l.Pos || !strings.HasPrefix(l.Term, "lt(") {
				return false
			}
			return strings.HasPrefix(l.Term, "lt(call:levenshtein(P0, idx(P1, ") && strings.Contains(l.Term, "), phi{") || strings.HasPrefix(l.Term, "lt(phi{") && strings.HasSuffix(l.Term, ", 0)")
		}
		nUpd := 0
		firstFromInit := false
		for _, in := range cl.Header.Instrs {
			p, ok := in.(*ssa.Phi)
			if !ok {
				break
			}
			if relType(c, p.Type()) != "int" {
				continue
			}
			for _, o := range c.originsOf(p, in) {
				call, isCall := o.Val.(*ssa.Call)
				if !isCall || c.calleeName(call.Common()) != "levenshtein" {
					continue
				}
				if !cl.Blocks[call.Block()] {
					// initial value computed before the loop: the first candidate
					if o.Term == "call:levenshtein(P0, idx(P1, 0))" {
						firstFromInit = true
					}
					continue
				}
				nUpd++
				r.Check(c.reqAt(cc, o, improve), "MINIMUM", cn, "update only on strict improvement (or first candidate)", c.ipos(o.At), "REQ(best < 0 ∨ distance < best distance), strict", "the best candidate can be replaced without a strict improvement")
			}
		}
		if nUpd == 0 {
			r.Fail("MINIMUM", cn, "best-so-far update", "", "no loop-carried minimum updated with levenshtein's result found")
		}
		// the first candidate always becomes the minimum: the running minimum starts from the first candidate's distance,
		// or from a sentinel together with a first-candidate test in the loop — never from a made-up finite bound
		firstTest := false
		for b := range cl.Blocks {
			if iff, ok := b.Instrs[len(b.Instrs)-1].(*ssa.If); ok {
				l := c.cond(iff.Cond)
				if strings.HasPrefix(l.Term, "lt(phi{") && strings.HasSuffix(l.Term, ", 0)") || strings.HasPrefix(l.Term, "eq(0, phi{") || strings.HasPrefix(l.Term, "eq(0, rangeindex") || l.Term == "nonzero(phi{(phi↺ + 1) | 0})" {
					firstTest = true
				}
			}
		}
		for _, in := range cl.Header.Instrs {
			p, ok := in.(*ssa.Phi)
			if !ok {
				break
			}
			isMin := false
			for _, o := range c.originsOf(p, in) {
				if call, isCall := o.Val.(*ssa.Call); isCall && c.calleeName(call.Common()) == "levenshtein" && cl.Blocks[call.Block()] {
					isMin = true
				}
			}
			if !isMin || relType(c, p.Type()) != "int" {
				continue
			}
			for i, e := range p.Edges {
				if cl.Blocks[p.Block().Preds[i]] {
					continue
				}
				t := c.term(e)
				_, isConst := e.(*ssa.Const)
				okInit := t == "call:levenshtein(P0, idx(P1, 0))" || (isConst && firstTest)
				r.Check(okInit, "MINIMUM", cn, "the first candidate always becomes the running minimum", c.ipos(p), "initial minimum = distance of choices[0], or a sentinel with a first-candidate test in the loop", "the running minimum starts at "+trunc(t, 60)+" without a first-candidate test: when every candidate is farther than that, choices[0] is returned with a made-up distance")
			}
		}
		// every candidate is examined: the index runs over all of choices (from 0, or from 1 when
		// the first candidate initialises the minimum)
		okIdx := false
		for _, in := range cl.Header.Instrs {
			p, ok := in.(*ssa.Phi)
			if !ok {
				break
			}
			switch c.term(p) {
			case "phi{(phi↺ + 1) | -1}", "phi{(phi↺ + 1) | 0}":
				okIdx = true
			case "phi{(phi↺ + 1) | 1}":
				okIdx = firstFromInit
			}
		}
		r.Check(okIdx, "MINIMUM", cn, "candidate index covers all choices", c.ipos(cl.Header.Instrs[0]), "the index starts at the first candidate not yet examined and advances by one", "the candidate loop does not start at the first unexamined candidate")
		for _, ret := range returnsOf(cc) {
			t := c.term(ret.Results[0])
			if t == `""` {
				continue
			}
			okRes := strings.HasPrefix(t, "idx(P1, phi{")
			if sp, isPhi := c.resolve(ret.Results[0]).(*ssa.Phi); !okRes && isPhi && sp.Block() == cl.Header {
				// equivalent form: the best candidate itself is remembered, updated on exactly the edges that update the minimum
				upd := func(p *ssa.Phi) string {
					var s []string
					for i, e := range p.Edges {
						if cl.Blocks[p.Block().Preds[i]] && c.resolve(e) != ssa.Value(p) {
							s = append(s, fmt.Sprintf("b%d", p.Block().Preds[i].Index))
						}
					}
					return strings.Join(s, ",")
				}
				okRes = true
				// the candidate measured in the loop
				measured := map[string]bool{"idx(P1, phi{(phi↺ + 1) | 0})": true}
				for lb := range cl.Blocks {
					for _, in := range lb.Instrs {
						if call, ok := in.(*ssa.Call); ok && c.calleeName(&call.Call) == "levenshtein" && len(call.Call.Args) == 2 {
							measured[c.term(call.Call.Args[1])] = true
						}
					}
				}
				for i, e := range sp.Edges {
					if cl.Blocks[sp.Block().Preds[i]] && c.resolve(e) != ssa.Value(sp) && !measured[c.term(e)] {
						okRes = false
					}
				}
				same := false
				for _, in := range cl.Header.Instrs {
					if dp, ok := in.(*ssa.Phi); ok && relType(c, dp.Type()) == "int" && dp != sp && strings.Contains(c.term(dp), "call:levenshtein(") && upd(dp) == upd(sp) && upd(sp) != "" {
						same = true
						// seeded from the first candidate: the candidate remembered initially is the one whose distance seeds the minimum
						for i, e := range dp.Edges {
							if !cl.Blocks[dp.Block().Preds[i]] {
								if call, ok := c.resolve(e).(*ssa.Call); ok && c.calleeName(&call.Call) == "levenshtein" && len(call.Call.Args) == 2 {
									if c.term(sp.Edges[i]) != c.term(call.Call.Args[1]) {
										same = false
									}
								}
							}
						}
					}
				}
				okRes = okRes && same
			}
			r.Check(okRes, "MINIMUM", cn, "result is choices[best]", c.ipos(ret), "returns the candidate at the best index (or the candidate remembered together with the minimum)", "returns "+trunc(t, 80))
		}
	}

	// ---- TEXT
	nT := c.constFormatsIn(r, "TEXT", func(fn *ssa.Function) bool {
		return c.actsFor(fn, ec) || strings.HasPrefix(c.pos(fn.Pos()), "error.go:")
	})
	r.Check(nT >= 1, "TEXT", c.fname(ec), "printf-style sites found", c.pos(ec.Pos()), "≥ 1 (the constructors' own)", fmt.Sprintf("%d", nT))
	if less := c.mustFn(r, "(commandList).Less"); less != nil {
		for _, ret := range returnsOf(less) {
			t := c.term(ret.Results[0])
			r.Check(t == "(Command.Name(idx(P0, P1)) < Command.Name(idx(P0, P2)))", "TEXT", c.fname(less), "`sorted order` is the order of the names as strings", c.ipos(ret), "Less(i, j) = c[i].Name < c[j].Name", "Less returns "+trunc(t, 100)+": the enumeration (and the first of several equally near names) is not in sorted order of the names")
		}
	}

	// ---- DP
	c.dpRules(r, lv)
}

func (c *Ctx) dpRules(r *Report, lv *ssa.Function) {
	ln := c.fname(lv)
	// table
	var table *ssa.MakeSlice
	for _, b := range c.blocks(lv) {
		for _, in := range b.Instrs {
			if ms, ok := in.(*ssa.MakeSlice); ok && relType(c, ms.Type()) == "[][]int" {
				table = ms
			}
		}
	}
	if table == nil {
		r.Fail("DP", ln, "distance table", "", "no [][]int table allocated")
		return
	}
	S, T := "conv[[]rune](P0)", "conv[[]rune](P1)"
	r.Check(c.term(table.Len) == "(len("+S+") + 1)", "DP", ln, "table rows", c.ipos(table), "len(characters of s)+1 rows", "table has "+c.term(table.Len)+" rows")
	// no range over a string (byte offsets as indices)
	for _, b := range c.blocks(lv) {
		for _, in := range b.Instrs {
			if nx, ok := in.(*ssa.Next); ok && nx.IsString {
				r.Fail("DP", ln, "range over a string", c.ipos(in), "U3a: ranging over a string yields byte offsets; the table is indexed by characters")
			}
		}
	}
	// returns
	for _, ret := range returnsOf(lv) {
		t := c.term(ret.Results[0])
		switch t {
		case "len(" + T + ")":
			_, ok := c.Requires(lv, isInstr(ret), litHas(false, "nonempty("+S+")"), nil)
			r.Check(ok, "DP", ln, "return len(t)", c.ipos(ret), "only when s is empty", "len(t) returned although s may be non-empty")
		case "len(" + S + ")":
			_, ok := c.Requires(lv, isInstr(ret), litHas(false, "nonempty("+T+")"), nil)
			r.Check(ok, "DP", ln, "return len(s)", c.ipos(ret), "only when t is empty", "len(s) returned although t may be non-empty")
		case "0":
			_, ok := c.Requires(lv, isInstr(ret), litEq("P0", "P1", true), nil)
			r.Check(ok, "DP", ln, "return 0", c.ipos(ret), "only for equal strings", "0 returned although the strings may differ")
		case "idx(idx(makeslice[[][]int]((len(" + S + ") + 1)), len(" + S + ")), len(" + T + "))":
			r.OK("DP", ln, "return last cell", c.ipos(ret), "dists[len(s)][len(t)]")
		default:
			r.Fail("DP", ln, "return", c.ipos(ret), "returns "+trunc(t, 120)+" — not the last table cell nor an empty-operand length")
		}
	}
	// cell address: (row index value, column index value)
	cellOf := func(addr ssa.Value) (row, col ssa.Value, ok bool) {
		ia, isIA := addr.(*ssa.IndexAddr)
		if !isIA {
			return nil, nil, false
		}
		u, isU := ia.X.(*ssa.UnOp)
		if !isU {
			return nil, nil, false
		}
		ra, isRA := u.X.(*ssa.IndexAddr)
		if !isRA || c.resolve(ra.X) != ssa.Value(table) {
			return nil, nil, false
		}
		return ra.Index, ia.Index, true
	}
	// index values of the double loop: the values used to index s and t
	var iVal, jVal ssa.Value
	for _, b := range c.blocks(lv) {
		for _, in := range b.Instrs {
			if ia, ok := in.(*ssa.IndexAddr); ok {
				switch c.term(ia.X) {
				case S:
					iVal = ia.Index
				case T:
					jVal = ia.Index
				}
			}
		}
	}
	n := &npCtx{c: c, fn: lv, edges: map[string]map[string]int64{}, atoms: map[string]ssa.Value{}}
	rel := func(v, base ssa.Value) (int64, bool) {
		if base == nil {
			return 0, false
		}
		a, b := n.linOf(v), n.linOf(base)
		if a.sym != b.sym {
			return 0, false
		}
		return a.k - b.k, true
	}
	desc := func(v ssa.Value) string {
		// describe a value as cell(di,dj)[+k]
		v = c.resolve(v)
		k := int64(0)
		if bo, ok := v.(*ssa.BinOp); ok && bo.Op == token.ADD {
			if kk, isC := constInt(bo.Y); isC {
				k = kk
				v = c.resolve(bo.X)
			}
		}
		u, ok := v.(*ssa.UnOp)
		if !ok {
			return "?" + trunc(c.term(v), 40)
		}
		row, col, ok := cellOf(u.X)
		if !ok {
			return "?" + trunc(c.term(v), 40)
		}
		di, ok1 := rel(row, iVal)
		dj, ok2 := rel(col, jVal)
		if !ok1 || !ok2 {
			return "?" + trunc(c.term(v), 40)
		}
		s := fmt.Sprintf("cell(i%+d,j%+d)", di, dj)
		if k != 0 {
			s += fmt.Sprintf("%+d", k)
		}
		return s
	}
	var interior []*ssa.Store
	borderRow, borderCol := false, false
	for _, b := range c.blocks(lv) {
		for _, in := range b.Instrs {
			st, ok := in.(*ssa.Store)
			if !ok {
				continue
			}
			row, col, ok := cellOf(st.Addr)
			if !ok {
				continue
			}
			// border stores: dists[x][0] = x  and dists[0][y] = y
			if k, isC := constInt(col); isC && k == 0 {
				lp := innermost(c.loopsDeep(lv), b)
				okB := lp != nil && c.resolve(st.Val) == c.resolve(row) && strings.HasPrefix(c.term(lp.Header.Instrs[len(lp.Header.Instrs)-1].(*ssa.If).Cond), "(phi{(phi↺ + 1) | 0} < len(makeslice[[][]int]")
				r.Check(okB, "DP", ln, "column 0 initialised over all rows", c.ipos(st), "dists[i][0] = i for every row of the table", "column-0 initialisation does not cover the whole table")
				borderCol = true
				continue
			}
			if k, isC := constInt(row); isC && k == 0 {
				lp := innermost(c.loopsDeep(lv), b)
				cond := ""
				if lp != nil {
					cond = c.term(lp.Header.Instrs[len(lp.Header.Instrs)-1].(*ssa.If).Cond)
				}
				okB := lp != nil && c.resolve(st.Val) == c.resolve(col) &&
					(strings.Contains(cond, "< len(idx(makeslice[[][]int]") || strings.Contains(cond, "< (len("+T+") + 1)") || strings.Contains(cond, "<= len("+T+")"))
				r.Check(okB, "DP", ln, "row 0 initialised over the full width", c.ipos(st), "dists[0][j] = j for j = 0 … len(t) (U4: trip count is the row's length, not len(t))", "row-0 initialisation is bounded by "+trunc(cond, 120)+": the last cell stays 0")
				borderRow = true
				continue
			}
			di, ok1 := rel(row, iVal)
			dj, ok2 := rel(col, jVal)
			if !ok1 || !ok2 || di != 1 || dj != 1 {
				r.Fail("DP", ln, "interior store target", c.ipos(st), fmt.Sprintf("a cell other than (i+1, j+1) is written: row %s col %s", c.term(row), c.term(col)))
				continue
			}
			interior = append(interior, st)
		}
	}
	r.Check(borderCol, "DP", ln, "column border", c.pos(lv.Pos()), "initialised", "dists[i][0] is never initialised")
	r.Check(borderRow, "DP", ln, "row border", c.pos(lv.Pos()), "initialised", "dists[0][j] is never initialised")
	// interior recurrence: the content of cell (i+1, j+1) after one trip around the inner loop, in gated normal form
	if len(interior) == 0 {
		r.Fail("DP", ln, "interior recurrence", c.pos(lv.Pos()), "no store to cell (i+1, j+1) found")
		return
	}
	lvLoops := c.loopsDeep(lv)
	inner := innermost(lvLoops, interior[0].Block())
	for _, st := range interior {
		if innermost(lvLoops, st.Block()) != inner {
			inner = nil
		}
	}
	if inner == nil {
		r.Fail("DP", ln, "interior recurrence", c.ipos(interior[0]), "the interior cell is not written inside one innermost loop")
		return
	}
	g := &gamma{c: c, loop: inner}
	g.isCell = func(addr ssa.Value) bool {
		row, col, ok := cellOf(addr)
		if !ok {
			return false
		}
		di, ok1 := rel(row, iVal)
		dj, ok2 := rel(col, jVal)
		return ok1 && ok2 && di == 1 && dj == 1
	}
	g.leaf = func(v ssa.Value) string { return desc(v) }
	g.eqLeaf = func(a, b ssa.Value) string {
		ta, tb := c.term(a), c.term(b)
		if strings.HasPrefix(ta, "idx("+S) && strings.HasPrefix(tb, "idx("+T) || strings.HasPrefix(ta, "idx("+T) && strings.HasPrefix(tb, "idx("+S) {
			return "eq"
		}
		return ""
	}
	got := g.final().String()
	want := "ite(eq, cell(i+0,j+0), min(cell(i+0,j+0)+1, cell(i+0,j+1)+1, cell(i+1,j+0)+1))"
	r.Check(got == want && g.bad == "", "DP", ln, "interior recurrence", c.pos(lv.Pos()), "after each inner iteration cell(i+1,j+1) = diagonal on equal characters, else 1 + min(diagonal, left, up): "+got, "after an inner iteration cell(i+1,j+1) = "+got+", expected "+want)
}
