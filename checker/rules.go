package main

// rules.go — shared helpers for the per-property rule files.

import (
	"fmt"
	"go/token"
	"go/types"
	"os"
	"strconv"
	"strings"

	"golang.org/x/tools/go/ssa"
)

type InstrPred func(ssa.Instruction) bool

// mustFn resolves an anchor function; a missing anchor is a failure.
func (c *Ctx) mustFn(r *Report, name string) *ssa.Function {
	f := c.Fn(name)
	if f == nil {
		r.Fatalf("unresolved anchor: function %s not found in package (a renamed or removed anchor fails the check rather than passing silently)", name)
	}
	return f
}

func (c *Ctx) mustField(r *Report, typ, field string) *types.Var {
	f := c.Field(typ, field)
	if f == nil {
		r.Fatalf("unresolved anchor: field %s.%s not found", typ, field)
	}
	return f
}

func (c *Ctx) isCallTo(names ...string) InstrPred {
	return func(in ssa.Instruction) bool {
		ci, ok := in.(ssa.CallInstruction)
		if !ok {
			return false
		}
		n := c.calleeName(ci.Common())
		for _, x := range names {
			if n == x {
				return true
			}
		}
		return false
	}
}

// isDynCallVia: dynamic call whose function value's term has the prefix.
func (c *Ctx) isDynCallVia(prefix string) InstrPred {
	return func(in ssa.Instruction) bool {
		ci, ok := in.(ssa.CallInstruction)
		if !ok {
			return false
		}
		cc := ci.Common()
		if cc.IsInvoke() || cc.StaticCallee() != nil {
			return false
		}
		if _, isB := cc.Value.(*ssa.Builtin); isB {
			return false
		}
		return strings.HasPrefix(c.term(cc.Value), prefix)
	}
}

func (c *Ctx) isInvoke(iface, method string) InstrPred {
	return func(in ssa.Instruction) bool {
		ci, ok := in.(ssa.CallInstruction)
		if !ok {
			return false
		}
		cc := ci.Common()
		return cc.IsInvoke() && cc.Method.Name() == method && typeName(cc.Value.Type()) == iface
	}
}

func orPred(ps ...InstrPred) InstrPred {
	return func(in ssa.Instruction) bool {
		for _, p := range ps {
			if p(in) {
				return true
			}
		}
		return false
	}
}

func isInstr(x ssa.Instruction) InstrPred { return func(in ssa.Instruction) bool { return in == x } }

func (c *Ctx) isStoreTo(f *types.Var) InstrPred {
	return func(in ssa.Instruction) bool {
		st, ok := in.(*ssa.Store)
		if !ok {
			return false
		}
		fa, ok := st.Addr.(*ssa.FieldAddr)
		return ok && fieldObj(fa.X.Type(), fa.Field) == f
	}
}

// instrs returns the instructions of fn (or the whole package when fn == nil) matching p.
func (c *Ctx) instrs(fn *ssa.Function, p InstrPred) []ssa.Instruction {
	var out []ssa.Instruction
	visit := func(f *ssa.Function) {
		for _, b := range f.Blocks {
			for _, in := range b.Instrs {
				if p(in) {
					out = append(out, in)
				}
			}
		}
	}
	if fn != nil {
		c.anchorHint = fn
		visit(fn)
		// helpers extracted from fn (functions not in the frozen list) are searched as part of fn
		for _, h := range c.newCallees(fn) {
			visit(h)
		}
	} else {
		for _, f := range c.Funcs {
			visit(f)
		}
	}
	return out
}

// closureArgs returns the closures (anonymous functions) passed as arguments of call.
func closureArgs(ci ssa.CallInstruction) []*ssa.Function {
	var out []*ssa.Function
	for _, a := range ci.Common().Args {
		switch x := a.(type) {
		case *ssa.MakeClosure:
			if fn, ok := x.Fn.(*ssa.Function); ok {
				out = append(out, fn)
			}
		case *ssa.Function:
			out = append(out, x)
		}
	}
	return out
}

// isCallPassingClosureThat: call to callee with a closure argument whose body satisfies inner somewhere.
func (c *Ctx) isCallPassingClosureThat(callee string, inner InstrPred) InstrPred {
	return func(in ssa.Instruction) bool {
		ci, ok := in.(ssa.CallInstruction)
		if !ok || c.calleeName(ci.Common()) != callee {
			return false
		}
		for _, fn := range closureArgs(ci) {
			if len(c.instrs(fn, inner)) > 0 {
				return true
			}
		}
		return false
	}
}

func pathStr(p []string) string {
	if len(p) > 8 && os.Getenv("GF_FULLPATH") == "" {
		p = append(append([]string{}, p[:3]...), append([]string{"…"}, p[len(p)-4:]...)...)
	}
	return strings.Join(p, " → ")
}

// reqRule records REQ(target; m): every path from entry to target witnesses m.
func (c *Ctx) reqRule(r *Report, rule string, fn *ssa.Function, target ssa.Instruction, what string, m LitMatch, mdesc string, facts *Facts) bool {
	path, ok := c.Requires(fn, isInstr(target), m, facts)
	if ok {
		r.OK(rule, c.fname(fn), what, c.ipos(target), "unreachable from entry once every edge witnessing "+mdesc+" is deleted")
	} else {
		r.Fail(rule, c.fname(fn), what, c.ipos(target), "reachable without "+mdesc+": "+pathStr(path))
	}
	return ok
}

// mptRule records MPT(target; via).
func (c *Ctx) mptRule(r *Report, rule string, fn *ssa.Function, target ssa.Instruction, what string, via InstrPred, viaDesc string, facts *Facts) bool {
	n := len(c.instrs(fn, via))
	if n == 0 {
		r.Fail(rule, c.fname(fn), what, c.ipos(target), "no instruction matching "+viaDesc+" exists in "+c.fname(fn))
		return false
	}
	path, ok := c.MustPass(fn, isInstr(target), via, nil, facts)
	if ok {
		r.OK(rule, c.fname(fn), what, c.ipos(target), "every path from entry passes "+viaDesc)
	} else {
		r.Fail(rule, c.fname(fn), what, c.ipos(target), "reachable without passing "+viaDesc+": "+pathStr(path))
	}
	return ok
}

// returns lists the Return instructions of fn.
func returnsOf(fn *ssa.Function) []*ssa.Return {
	var out []*ssa.Return
	for _, b := range fn.Blocks {
		if len(b.Instrs) == 0 {
			continue
		}
		if r, ok := b.Instrs[len(b.Instrs)-1].(*ssa.Return); ok {
			out = append(out, r)
		}
	}
	return out
}

// errResult returns the last result of a Return if the function's last result type is error.
func errResult(ret *ssa.Return) ssa.Value {
	fn := ret.Parent()
	res := fn.Signature.Results()
	if res.Len() == 0 {
		return nil
	}
	last := res.At(res.Len() - 1).Type()
	if !isErrorType(last) {
		return nil
	}
	return ret.Results[len(ret.Results)-1]
}

func isErrorType(t types.Type) bool {
	if nt, ok := t.(*types.Named); ok && nt.Obj().Pkg() == nil && nt.Obj().Name() == "error" {
		return true
	}
	return false
}

// callReturnsError reports whether the call's (last) result is of type error,
// and returns the SSA value holding it (the call, or nil for tuples — use extracts).
func errValuesOfCall(ci ssa.CallInstruction) []ssa.Value {
	v := ci.Value()
	if v == nil {
		return nil
	}
	sig := ci.Common().Signature()
	res := sig.Results()
	if res.Len() == 0 || !isErrorType(res.At(res.Len()-1).Type()) {
		return nil
	}
	if res.Len() == 1 {
		return []ssa.Value{v}
	}
	var out []ssa.Value
	if refs := v.Referrers(); refs != nil {
		for _, r := range *refs {
			if e, ok := r.(*ssa.Extract); ok && e.Index == res.Len()-1 {
				out = append(out, e)
			}
		}
	}
	return out
}

// flowsTo: values reachable from v through Phi / ChangeType / MakeInterface (forward).
func flowsTo(v ssa.Value) map[ssa.Value]bool {
	out := map[ssa.Value]bool{v: true}
	work := []ssa.Value{v}
	for len(work) > 0 {
		x := work[len(work)-1]
		work = work[:len(work)-1]
		refs := x.Referrers()
		if refs == nil {
			continue
		}
		for _, r := range *refs {
			switch y := r.(type) {
			case *ssa.Phi:
				if !out[y] {
					out[y] = true
					work = append(work, y)
				}
			case *ssa.ChangeType:
				if !out[y] {
					out[y] = true
					work = append(work, y)
				}
			case *ssa.MakeInterface:
				if !out[y] {
					out[y] = true
					work = append(work, y)
				}
			case ssa.CallInstruction:
				// passed to a new helper: the value continues as the helper's parameter
				if flowCtx == nil {
					continue
				}
				cal := y.Common().StaticCallee()
				if cal == nil || !flowCtx.isNew(cal) {
					continue
				}
				for k, a := range y.Common().Args {
					if a == x && k < len(cal.Params) && !out[cal.Params[k]] {
						out[cal.Params[k]] = true
						work = append(work, cal.Params[k])
					}
				}
			case *ssa.Return:
				// returned by a new helper: the value continues at every call of the helper
				if flowCtx == nil || !flowCtx.isNew(y.Parent()) {
					continue
				}
				sites, _ := flowCtx.callersOf(y.Parent())
				for k, res := range y.Results {
					if res != x {
						continue
					}
					for _, s := range sites {
						cv, ok := s.Call.(ssa.Value)
						if !ok {
							continue
						}
						if len(y.Results) == 1 {
							if !out[cv] {
								out[cv] = true
								work = append(work, cv)
							}
							continue
						}
						if cv.Referrers() == nil {
							continue
						}
						for _, cr := range *cv.Referrers() {
							if ex, ok := cr.(*ssa.Extract); ok && ex.Index == k && !out[ex] {
								out[ex] = true
								work = append(work, ex)
							}
						}
					}
				}
			}
		}
	}
	return out
}

// flowCtx: set by the driver; lets flowsTo follow values through the results of new helpers.
var flowCtx *Ctx

func fmtN(n int, what string) string { return fmt.Sprintf("%d %s", n, what) }

func containsAll(s string, subs ...string) bool {
	for _, x := range subs {
		if !strings.Contains(s, x) {
			return false
		}
	}
	return true
}

// sliceLitElems: for `slice t[:]` of a `new [k]T` temporary (variadic packing or
// slice literal), the values stored into the array elements, in index order.
func sliceLitElems(v ssa.Value) []ssa.Value {
	sl, ok := v.(*ssa.Slice)
	if !ok {
		return nil
	}
	al, ok := sl.X.(*ssa.Alloc)
	if !ok || al.Referrers() == nil {
		return nil
	}
	var out []ssa.Value
	for _, ref := range *al.Referrers() {
		if ia, ok := ref.(*ssa.IndexAddr); ok && ia.Referrers() != nil {
			for _, r2 := range *ia.Referrers() {
				if st, ok := r2.(*ssa.Store); ok && st.Addr == ssa.Value(ia) {
					out = append(out, st.Val)
				}
			}
		}
	}
	return out
}

// kindsAt: the reflect kinds of `subject` (a kindFact subject such as "V:P1") for which
// instruction in is reachable, as established by the kind tests dominating it (nil: no kind test).
func (c *Ctx) kindsAt(in ssa.Instruction, subject string) []int64 {
	ks, _ := c.kindSetAt(in.Block(), subject, nil)
	return ks
}

// kindSetAt combines ALL dominating kind tests on subject: positive tests (kind ∈ S, possibly a disjunction
// of edges) intersect, failed equality tests (kind ≠ K, e.g. the cases a switch has already ruled out)
// exclude. ok=false when no kind test on the subject dominates the block. skip (optional) drops facts that
// cannot be relied on (clobbered).
func (c *Ctx) kindSetAt(b *ssa.BasicBlock, subject string, skip func(DomFact) bool) ([]int64, bool) {
	const nKinds = 27 // reflect.Invalid .. reflect.UnsafePointer
	in := make([]bool, nKinds)
	for i := range in {
		in[i] = true
	}
	any := false
	for _, f := range c.domFacts(b) {
		alts := f.Alts
		if alts == nil {
			alts = []DomFact{f}
		}
		// positive: every alternative is a kind test of the subject
		var union []int64
		okPos := true
		for _, a := range alts {
			sub, ks, isK := c.kindFact(a.Cond, a.Pos)
			if !isK || sub != subject || (skip != nil && a.If != nil && skip(a)) {
				okPos = false
				break
			}
			union = append(union, ks...)
		}
		if okPos {
			any = true
			keep := make([]bool, nKinds)
			for _, k := range union {
				if k >= 0 && k < nKinds {
					keep[k] = true
				}
			}
			for i := range in {
				in[i] = in[i] && keep[i]
			}
			continue
		}
		// negative: a single failed equality test
		if f.Alts == nil {
			if sub, ks, isK := c.kindFact(f.Cond, !f.Pos); isK && sub == subject && len(ks) == 1 && !(skip != nil && f.If != nil && skip(f)) {
				if _, isCall := c.resolve(f.Cond).(*ssa.Call); !isCall { // (a predicate helper's false verdict excludes nothing certain)
					if ks[0] >= 0 && ks[0] < nKinds {
						in[ks[0]] = false
					}
				}
			}
		}
	}
	if !any {
		return nil, false
	}
	var out []int64
	for i, v := range in {
		if v {
			out = append(out, int64(i))
		}
	}
	return out, true
}

// constFormats: every printf-style call in the functions declared in the given files passes a constant
// format string (user-controlled text used as a format is re-interpreted: `%` sequences are mangled).
func (c *Ctx) constFormats(r *Report, rule string, files ...string) int {
	return c.constFormatsIn(r, rule, func(fn *ssa.Function) bool {
		p := c.pos(fn.Pos())
		for _, f := range files {
			if strings.HasPrefix(p, f+":") {
				return true
			}
		}
		return false
	})
}

// constFormatsIn: the same over the functions selected by sel. A printf-style wrapper (a variadic function whose
// parameter before the variadic one is the format it hands on) may pass that parameter along.
func (c *Ctx) constFormatsIn(r *Report, rule string, sel func(*ssa.Function) bool) int {
	idx := map[string]int{"fmt.Fprintf": 1, "fmt.Sprintf": 0, "fmt.Errorf": 0, "fmt.Printf": 0, "newErrorf": 1}
	n := 0
	for _, fn := range c.Funcs {
		if !sel(fn) {
			continue
		}
		var ownFormat ssa.Value
		if sig := fn.Signature; sig.Variadic() && sig.Params().Len() >= 2 && len(fn.Params) >= 2 {
			k := len(fn.Params) - 2
			if bt, ok := fn.Params[k].Type().Underlying().(*types.Basic); ok && bt.Kind() == types.String {
				ownFormat = fn.Params[k]
			}
		}
		for _, b := range fn.Blocks {
			for _, x := range b.Instrs {
				ci, ok := x.(ssa.CallInstruction)
				if !ok {
					continue
				}
				i, ok := idx[c.calleeName(ci.Common())]
				if !ok || i >= len(ci.Common().Args) {
					continue
				}
				n++
				_, isConst := ci.Common().Args[i].(*ssa.Const)
				if !isConst && ownFormat != nil && ci.Common().Args[i] == ownFormat {
					isConst = true // handed on by a printf-style wrapper; its callers are checked where they are selected
				}
				r.Check(isConst, rule, c.fname(fn), "format string of "+c.calleeName(ci.Common())+" is a constant", c.ipos(x), "constant format", "the format is "+trunc(c.term(ci.Common().Args[i]), 100)+": text taken from values or declarations is interpreted as a format, so any `%` in it is mangled")
			}
		}
	}
	return n
}

// mustPassOrErr: every path of fn (and the new helpers it calls) to ret passes an instruction matching via, or
// an edge on which an error value that flows into ret's error result has just been found non-nil (then the
// return is not a nil-error return).
func (c *Ctx) mustPassOrErr(fn *ssa.Function, ret *ssa.Return, via InstrPred) ([]string, bool) {
	flowCtx = c
	target := map[ssa.Value]bool{}
	if e := errResult(ret); e != nil {
		target[e] = true
		target[c.resolve(e)] = true
	}
	reaches := map[ssa.Value]bool{}
	flowsIn := func(v ssa.Value) bool {
		if r, ok := reaches[v]; ok {
			return r
		}
		res := false
		for x := range flowsTo(v) {
			if target[x] {
				res = true
			}
		}
		reaches[v] = res
		return res
	}
	q := &PathQ{c: c, Fn: fn, CutIn: via, CutEdge: func(b *ssa.BasicBlock, si int) bool {
		iff, ok := b.Instrs[len(b.Instrs)-1].(*ssa.If)
		if !ok {
			return false
		}
		bo, ok := iff.Cond.(*ssa.BinOp)
		if !ok || !(isConstNil(bo.X) || isConstNil(bo.Y)) {
			return false
		}
		v := bo.X
		if isConstNil(bo.X) {
			v = bo.Y
		}
		if !isErrorType(v.Type()) {
			return false
		}
		nonNilSucc := 0
		if bo.Op == token.EQL {
			nonNilSucc = 1
		}
		return si == nonNilSucc && flowsIn(v)
	}}
	path, found := q.Reach(entrySite(fn), factUnknown, isInstr(ret))
	return path, !found
}

// neverNilError: a package function returning *Error all of whose returns are fresh errors: a call of a
// constructor (newError / newErrorf), of another such function, or the address of an Error literal.
func (c *Ctx) neverNilError(fn *ssa.Function, depth int) bool {
	if fn == nil || depth > 3 {
		return false
	}
	switch c.fname(fn) {
	case "newError", "newErrorf":
		return true
	}
	if fn.Blocks == nil || fn.Pkg != c.Pkg || fn.Signature.Results().Len() != 1 {
		return false
	}
	rets := returnsOf(fn)
	if len(rets) == 0 {
		return false
	}
	for _, ret := range rets {
		v := ret.Results[0]
		if mi, ok := v.(*ssa.MakeInterface); ok {
			v = mi.X
		}
		switch x := v.(type) {
		case *ssa.Call:
			if !c.neverNilError(x.Call.StaticCallee(), depth+1) {
				return false
			}
		case *ssa.Alloc:
		default:
			return false
		}
	}
	return true
}

// varargOperands: the terms stored into the array behind a variadic argument slice (`f(a, b...)` packs its
// operands into a fresh array); ok is false when v is not such a packed slice.
func varargOperands(c *Ctx, v ssa.Value) ([]string, bool) {
	sl, ok := v.(*ssa.Slice)
	if !ok {
		return nil, false
	}
	al, ok := sl.X.(*ssa.Alloc)
	if !ok || al.Referrers() == nil {
		return nil, false
	}
	var ops []string
	for _, ref := range *al.Referrers() {
		ia, ok := ref.(*ssa.IndexAddr)
		if !ok || ia.Referrers() == nil {
			continue
		}
		for _, r2 := range *ia.Referrers() {
			if st, ok := r2.(*ssa.Store); ok {
				ops = append(ops, c.term(st.Val))
			}
		}
	}
	return ops, true
}

// constIntTerm: the integer a normalised term denotes when it is a plain decimal literal.
func constIntTerm(t string) (int64, bool) {
	n, err := strconv.ParseInt(t, 10, 64)
	return n, err == nil
}

// argNamed: the operand a call hands to the parameter of that name of its (package) callee; nil when the callee
// cannot be resolved or has no parameter of that name (the parameter list was changed).
func (c *Ctx) argNamed(call ssa.CallInstruction, name string) ssa.Value {
	cal := call.Common().StaticCallee()
	if cal == nil {
		return nil
	}
	for i, p := range cal.Params {
		if p.Name() == name && i < len(call.Common().Args) {
			return call.Common().Args[i]
		}
	}
	return nil
}

// soleBoolParam: the index of fn's only boolean parameter (-1 when there is none or more than one).
func soleBoolParam(fn *ssa.Function) int {
	idx := -1
	for i, p := range fn.Params {
		if bt, ok := p.Type().Underlying().(*types.Basic); ok && bt.Kind() == types.Bool {
			if idx >= 0 {
				return -1
			}
			idx = i
		}
	}
	return idx
}
