package main

import (
	"fmt"
	"strings"

	"golang.org/x/tools/go/ssa"
)

func init() {
	register(&Property{
		Meta: PropMeta{
			ID:          "C08",
			Level:       "other",
			Explanation: "Structural necessary conditions of command selection and option scoping, decided on the SSA of /repo for all paths: (RESOLVE) in parseNonOption a command word is looked up — exactly, by the current token — in the command table of the current parse state, only with an empty positional queue, a current command that has subcommands and no remaining argument yet; on a hit Command.Active of the current command is stored and the hit's fillParseState runs before returning; Command.Active is stored nowhere else; (TABLE) fillLookup enters every subcommand under its Name and under each of its Aliases with the same *Command, only when not filling ancestors' options; (SCOPE) makeLookup builds a fresh table on every call (three new maps, no caching), fills it from the ancestors collected by walking .parent outward and visited from the outermost to the nearest, then from the command itself last (so inner declarations overwrite), passing onlyOptions = true for ancestors and false for the command; fillParseState stores that fresh table, the command and a copy of its positionals; (DIAGNOSE) the command-required diagnosis runs only when parseState.err == nil and the *current* command has subcommands that are not optional, with ErrUnknownCommand iff a word was given; an unknown word is an error only when subcommands are not optional and is otherwise an ordinary argument.",
			NotDecided:  "equivalence of `app -v add` and `app add -v` as outcomes (a relation between executions).",
			Trusted:     []string{"go/ssa lowering", "go/types", "Go map semantics"},
		},
		Run:      runC08,
		Controls: []string{"path-req", "path-mpt"},
	})
}

func runC08(c *Ctx, r *Report, tier string) {
	r.Rule("RESOLVE", "command lookup operands and guards; activation and state refill on a hit; who stores Command.Active", 5)
	r.Rule("TABLE", "names and aliases map to the same command, only for the innermost command", 3)
	r.Rule("SCOPE", "fresh lookup per call; ancestors outermost-first then the command; onlyOptions flags; fillParseState stores", 7)
	r.Rule("DIAGNOSE", "command-required diagnosis guards and types; unknown word policy", 5)

	pno := c.mustFn(r, "(*Parser).parseNonOption")
	fl := c.mustFn(r, "(*Command).fillLookup")
	ml := c.mustFn(r, "(*Command).makeLookup")
	fps := c.mustFn(r, "(*Command).fillParseState")
	pa := c.mustFn(r, "(*Parser).ParseArgs")
	ec := c.mustFn(r, "(*parseState).estimateCommand")
	if pno == nil || fl == nil || ml == nil || fps == nil || pa == nil || ec == nil {
		return
	}
	pn := c.fname(pno)

	// RESOLVE
	lk := "lookup(lookup.commands(&parseState.lookup(P1)), parseState.arg(P1))"
	var look ssa.Instruction
	for _, b := range c.blocks(pno) {
		for _, in := range b.Instrs {
			if v, ok := in.(*ssa.Lookup); ok && strings.HasPrefix(c.term(v.X), "lookup.commands(") {
				look = in
				r.Check(c.term(v) == lk, "RESOLVE", pn, "command lookup operands", c.ipos(in), "commands[current token] of the current parse state: exact, innermost table", "command resolved by "+trunc(c.term(v), 120))
			}
		}
	}
	if look == nil {
		r.Fail("RESOLVE", pn, "command lookup", "", "no lookup in lookup.commands found")
	} else {
		_, a := c.Requires(pno, isInstr(look), litIs("nonempty(parseState.positional(P1))", false), nil)
		_, b := c.Requires(pno, isInstr(look), litIs("nonempty(Command.commands(parseState.command(P1)))", true), nil)
		_, d := c.Requires(pno, isInstr(look), litIs("nonempty(parseState.retargs(P1))", false), nil)
		r.Check(a && b && d, "RESOLVE", pn, "lookup guards", c.ipos(look), "REQ(no pending positional) ∧ REQ(current command has subcommands) ∧ REQ(no remaining argument yet)", fmt.Sprintf("positional-empty=%v has-subcommands=%v retargs-empty=%v", a, b, d))
	}
	activeF := c.mustField(r, "Command", "Active")
	for _, s := range c.storesTo(activeF) {
		ok := c.actsFor(s.Fn, pno)
		if ok {
			fa := s.Store.Addr.(*ssa.FieldAddr)
			ok = c.term(fa.X) == "parseState.command(P1)" && c.term(s.Store.Val) == lk
			_, hit := c.Requires(pno, isInstr(s.Store), litIs("nonnil("+lk+")", true), nil)
			ok = ok && hit
		}
		r.Check(ok, "RESOLVE", c.fname(s.Fn), "store Command.Active", c.ipos(s.Store), "s.command.Active = the looked-up command, on the hit edge, in parseNonOption only", "Command.Active stored in "+c.fname(s.Fn)+" as "+trunc(c.term(s.Store.Val), 80))
		if c.actsFor(s.Fn, pno) {
			// fillParseState(hit) follows before the return
			okF := false
			for _, in := range c.instrs(pno, c.isCallTo("(*Command).fillParseState")) {
				call := in.(*ssa.Call)
				if c.term(call.Call.Args[0]) == lk && c.term(call.Call.Args[1]) == "P1" && instrDominates(s.Store, in) {
					okF = true
					for _, ret := range returnsOf(pno) {
						if in.Block() == ret.Block() && isConstNil(c.resolve(ret.Results[0])) {
							okF = okF && true
						}
					}
				}
			}
			r.Check(okF, "RESOLVE", pn, "state refilled from the selected command", c.ipos(s.Store), "cmd.fillParseState(s) after activation, before returning nil", "the parse state is not switched to the selected command")
		}
	}
	// PassAfterNonOption guard in ParseArgs consults the same table (shared with C03)
	for _, b := range c.blocks(pa) {
		for _, in := range b.Instrs {
			if v, ok := in.(*ssa.Lookup); ok && strings.HasPrefix(c.term(v.X), "lookup.commands(") {
				r.Check(strings.HasPrefix(c.term(v), "lookup(lookup.commands(&parseState.lookup(new:parseState)), call:(*parseState).pop("), "RESOLVE", c.fname(pa), "PassAfterNonOption consults the current command table", c.ipos(in), "commands[token] of the current parse state", "lookup is "+trunc(c.term(v), 100))
			}
		}
	}

	// TABLE
	fn := c.fname(fl)
	nName, nAlias := 0, 0
	for _, b := range c.blocks(fl) {
		for _, in := range b.Instrs {
			mu, ok := in.(*ssa.MapUpdate)
			if !ok || !strings.HasPrefix(c.term(mu.Map), "lookup.commands(") {
				continue
			}
			k, v := c.term(mu.Key), c.term(mu.Value)
			sub := "idx(Command.commands(P0), "
			switch {
			case strings.HasPrefix(k, "Command.Name("+sub) && strings.HasPrefix(v, sub):
				nName++
			case strings.HasPrefix(k, "idx(Command.Aliases("+sub) && strings.HasPrefix(v, sub):
				nAlias++
			default:
				r.Fail("TABLE", fn, "command table entry", c.ipos(in), "commands["+trunc(k, 60)+"] = "+trunc(v, 60))
			}
			c.reqRule(r, "TABLE", fl, in, "command entries only for the innermost command", litIs("P2", false), "¬onlyOptions", nil)
		}
	}
	r.Check(nName == 1 && nAlias == 1, "TABLE", fn, "names and aliases alike", c.pos(fl.Pos()), "commands[sub.Name] = sub and commands[alias] = sub for every alias", fmt.Sprintf("name entries=%d alias entries=%d", nName, nAlias))

	// SCOPE
	mn := c.fname(ml)
	var tbl *ssa.Alloc
	for _, ret := range returnsOf(ml) {
		if u, ok := ret.Results[0].(*ssa.UnOp); ok {
			if al, ok := u.X.(*ssa.Alloc); ok && al.Parent() == ml && typeName(al.Type()) == "lookup" {
				tbl = al
			}
		}
		r.Check(tbl != nil, "SCOPE", mn, "returns a table built in this call", c.ipos(ret), "the returned lookup is a local composite literal (no caching across calls)", "makeLookup returns "+trunc(c.term(ret.Results[0]), 100))
	}
	if tbl != nil {
		nMaps := 0
		for _, ref := range *tbl.Referrers() {
			if fa, ok := ref.(*ssa.FieldAddr); ok {
				for _, r2 := range *fa.Referrers() {
					if st, ok := r2.(*ssa.Store); ok {
						if _, isMk := st.Val.(*ssa.MakeMap); isMk {
							nMaps++
						}
					}
				}
			}
		}
		r.Check(nMaps == 3, "SCOPE", mn, "three fresh maps", c.ipos(tbl), "shortNames, longNames, commands are new maps", fmt.Sprintf("%d fresh maps", nMaps))
	}
	af := c.ancestorFill(ml)
	for _, pr := range af.problems {
		r.Fail("SCOPE", mn, pr.what, c.ipos(pr.at), pr.detail)
	}
	if af.self != nil {
		flag := c.term(af.self.(*ssa.Call).Call.Args[2])
		r.Check(flag == "false", "SCOPE", mn, "the command itself contributes options and subcommands", c.ipos(af.self), "fillLookup(&ret, false)", "onlyOptions = "+flag+" for the command itself")
	}
	if af.anc != nil {
		flag := c.term(af.anc.(*ssa.Call).Call.Args[2])
		r.Check(flag == "true", "SCOPE", mn, "ancestors contribute options only", c.ipos(af.anc), "fillLookup(&ret, true)", "onlyOptions = "+flag+" for an ancestor")
		if af.orderOK {
			r.OK("SCOPE", mn, "ancestors visited outermost first", c.ipos(af.anc), af.orderWhy)
		} else {
			r.Undec("SCOPE", mn, "ancestors visited outermost first", c.ipos(af.anc), af.orderWhy)
		}
	}
	if af.anc == nil || af.self == nil {
		r.Fail("SCOPE", mn, "fill calls", "", "expected fillLookup on ancestors and on the command itself")
	} else {
		entry := af.anc
		if af.ancEntry != nil {
			entry = af.ancEntry
		}
		r.Check(!c.reachableFrom(ml, af.self, isInstr(entry)), "SCOPE", mn, "the command's own declarations are entered last", c.ipos(af.self), "no ancestor fill is reachable after the command's own fill: inner declarations overwrite outer ones", "an ancestor can be filled after the command itself (outer names would win)")
	}
	// fillParseState stores
	fpn := c.fname(fps)
	want := map[string]string{"lookup": "call:(*Command).makeLookup(P0)", "command": "P0", "positional": "makeslice[[]*Arg](len(Command.args(P0)))"}
	got := map[string]bool{}
	for _, b := range c.blocks(fps) {
		for _, in := range b.Instrs {
			st, ok := in.(*ssa.Store)
			if !ok {
				continue
			}
			fa, ok := st.Addr.(*ssa.FieldAddr)
			if !ok || c.term(fa.X) != "P1" {
				continue
			}
			name := fieldVarName(fieldObj(fa.X.Type(), fa.Field))
			if w, ok := want[name]; ok {
				got[name] = true
				r.Check(strings.HasPrefix(c.term(st.Val), w), "SCOPE", fpn, "parseState."+name, c.ipos(st), "← "+w, "parseState."+name+" is "+trunc(c.term(st.Val), 100))
			}
		}
	}
	lkF := c.Field("parseState", "lookup")
	for _, ret := range returnsOf(fps) {
		c.mptRule(r, "SCOPE", fps, ret, "every state switch rebuilds the table", func(in ssa.Instruction) bool {
			st, ok := in.(*ssa.Store)
			return ok && c.isStoreTo(lkF)(in) && strings.HasPrefix(c.term(st.Val), "call:(*Command).makeLookup(P0)")
		}, "store parseState.lookup = c.makeLookup()", nil)
	}
	sitesFL, _ := c.callersOf(fl)
	for _, s := range sitesFL {
		r.Check(c.actsFor(s.Fn, ml) || af.helper != nil && s.Fn == af.helper, "SCOPE", c.fname(s.Fn), "caller of fillLookup", c.ipos(s.Call), "only makeLookup fills a table (always a fresh one)", "fillLookup called from "+c.fname(s.Fn)+": a table is extended in place, stale entries of outer commands survive")
	}
	r.Check(len(got) == 3, "SCOPE", fpn, "state fields switched", c.pos(fps.Pos()), "lookup, command and positional are all replaced", fmt.Sprintf("only %d of 3 stored", len(got)))

	// DIAGNOSE
	// the diagnosis always diagnoses: estimateCommand never answers nil
	if ec := c.mustFn(r, "(*parseState).estimateCommand"); ec != nil {
		for _, ret := range returnsOf(ec) {
			r.Check(!isConstNil(c.resolve(ret.Results[0])), "DIAGNOSE", c.fname(ec), "estimateCommand returns an error", c.ipos(ret), "every return is a constructed error", "estimateCommand can return nil: a missing or unknown required subcommand parses successfully")
		}
	}
	// a command is marked optional exactly by its tag, whatever else has been declared so far
	if h := c.Fn("(*Command).scanSubcommandHandler$1"); h != nil {
		for _, s := range c.storesTo(c.Field("Command", "SubcommandsOptional")) {
			if !c.actsFor(s.Fn, h) || c.term(s.Store.Val) != "true" {
				continue
			}
			// guards beyond those of the command's creation
			base := map[CtlDep]bool{}
			for _, in := range c.instrs(h, c.isCallTo("(*Command).AddCommand")) {
				for _, d := range c.controlDeps(h, in.Block()) {
					base[d] = true
				}
			}
			var extra []string
			for _, d := range c.controlDeps(h, s.Store.Block()) {
				if base[d] {
					continue
				}
				if l, ok := c.edgeLit(d.B, d.Succ); ok && !(l.Pos && strings.HasPrefix(l.Term, "nonempty(call:(*multiTag).Get(") && strings.HasSuffix(l.Term, `"subcommands-optional"))`)) {
					if l.Pos == false && strings.HasPrefix(l.Term, "nonnil(call:(*Command).AddCommand(") {
						continue // err == nil of the creation itself
					}
					extra = append(extra, l.String())
				}
			}
			r.Check(len(extra) == 0, "DIAGNOSE", c.fname(h), "subcommands-optional honoured whenever the tag is present", c.ipos(s.Store), "SubcommandsOptional = true under the tag test only", "the tag is honoured only under "+strings.Join(extra, "; "))
		}
	}
	facts := c.newFacts(pa)
	for _, in := range c.instrs(pa, c.dispatchPred()) {
		_, ok := c.Requires(pa, isInstr(in), anyLit(litHas(false, litCmdsNonEmpty), litHas(true, litSubOptional)), facts)
		r.Check(ok, "DIAGNOSE", c.fname(pa), "dispatch "+dispatchDesc(c, in)+" only when no subcommand is required", c.ipos(in), "REQ(no subcommands ∨ SubcommandsOptional): a missing required subcommand is diagnosed instead of running the command", "the command is run although it has required subcommands and none was given")
	}
	for _, in := range c.instrs(pa, c.isCallTo("(*parseState).estimateCommand")) {
		c.reqRule(r, "DIAGNOSE", pa, in, "diagnosis only without an earlier error", litHas(false, litErrNonNil), "parseState.err == nil", facts)
		c.reqRule(r, "DIAGNOSE", pa, in, "diagnosis only when the current command has subcommands", litHas(true, litCmdsNonEmpty), "len(s.command.commands) != 0", facts)
		c.reqRule(r, "DIAGNOSE", pa, in, "diagnosis only when the current command's subcommands are required", litHas(false, litSubOptional), "¬s.command.SubcommandsOptional", facts)
	}
	for _, in := range c.instrs(pno, c.isCallTo("newErrorf")) {
		if c.term(in.(*ssa.Call).Call.Args[0]) != "ErrUnknownCommand" {
			continue
		}
		_, a := c.Requires(pno, isInstr(in), litIs("Command.SubcommandsOptional(parseState.command(P1))", false), nil)
		_, b := c.Requires(pno, isInstr(in), litIs("nonnil("+lk+")", false), nil)
		r.Check(a && b, "DIAGNOSE", pn, "unknown word is an error only when subcommands are required", c.ipos(in), "REQ(lookup miss) ∧ REQ(¬SubcommandsOptional)", fmt.Sprintf("miss necessary=%v required necessary=%v", b, a))
	}
	// the unknown-command error stops the argument loop: the loop continues only on the nil edge of parseNonOption's
	// result (or, if every non-nil return of parseNonOption records parseState.err, on a test of that)
	if loop := c.loopContaining(pa, c.isCallTo("(*parseState).pop")); loop != nil {
		for _, in := range c.instrs(pa, c.isCallTo("(*Parser).parseNonOption")) {
			q := &PathQ{c: c, Fn: pa, CutLit: litHas(false, "nonnil(call:(*Parser).parseNonOption(")}
			path, found := q.Reach(Site{in.Block(), siteOf(in).I + 1}, factUnknown, isInstr(loop.Header.Instrs[0]))
			if found {
				if sum := c.storesErrSummaries(r); sum.ok[pno] {
					q2 := &PathQ{c: c, Fn: pa, CutLit: litHas(false, litErrNonNil)}
					path, found = q2.Reach(Site{in.Block(), siteOf(in).I + 1}, factUnknown, isInstr(loop.Header.Instrs[0]))
				}
			}
			r.Check(!found, "DIAGNOSE", c.fname(pa), "an unknown command word stops the argument loop", c.ipos(in), "the loop continues only on the nil edge of parseNonOption's result", "parsing goes on after parseNonOption returned an error, so a later token's error replaces ErrUnknownCommand: "+pathStr(path))
		}
	}
	// with optional subcommands the word goes to addArgs
	okOpt := false
	for _, in := range c.instrs(pno, c.isCallTo("(*parseState).addArgs")) {
		q := &PathQ{c: c, Fn: pno, CutEdge: c.cutEdges(litIs("Command.SubcommandsOptional(parseState.command(P1))", false))}
		if _, found := q.Reach(entrySite(pno), 0, isInstr(in)); found {
			if _, viaMiss := c.Requires(pno, isInstr(in), anyLit(litIs("nonnil("+lk+")", false), litIs("nonempty(parseState.positional(P1))", true), litIs("nonempty(Command.commands(parseState.command(P1)))", false), litIs("nonempty(parseState.retargs(P1))", true)), nil); viaMiss {
				okOpt = true
			}
		}
	}
	r.Check(okOpt, "DIAGNOSE", pn, "with optional subcommands an unknown word is an ordinary argument", c.pos(pno.Pos()), "addArgs(token) is reachable on the SubcommandsOptional edge", "an unknown word with optional subcommands does not reach addArgs")
}

// ancestorFill recognises how makeLookup enters the declarations of the
// ancestors of a command and of the command itself. Two forms are known:
// (loop) the parent chain is collected nearest-first into a slice that is then
// walked from its last element down to 0; (recursion) a helper h(c, tbl), used
// only by makeLookup and itself, takes a = c.parent.(*Command), returns when
// there is none, and calls h(a, tbl) before a.fillLookup(tbl, true).
type ancFill struct {
	anc, self ssa.Instruction // fillLookup on an ancestor / on the command itself
	ancEntry  ssa.Instruction // the instruction in makeLookup that starts the ancestor pass (recursion form)
	helper    *ssa.Function
	orderOK   bool
	orderWhy  string
	problems  []ancProblem
}
type ancProblem struct {
	what, detail string
	at           ssa.Instruction
}

func (c *Ctx) ancestorFill(ml *ssa.Function) *ancFill {
	af := &ancFill{}
	parentOf := "assert[*Command](Group.parent(Command.Group(P0)))#0"
	for _, b := range ml.Blocks {
		for _, in := range b.Instrs {
			call, ok := in.(*ssa.Call)
			if !ok {
				continue
			}
			cal := call.Common().StaticCallee()
			if cal == nil {
				continue
			}
			switch {
			case c.fname(cal) == "(*Command).fillLookup":
				recv := c.term(call.Call.Args[0])
				if recv == "P0" {
					af.self = in
					continue
				}
				af.anc = in
				idx := ""
				if u, ok := call.Call.Args[0].(*ssa.UnOp); ok {
					if ia, ok := u.X.(*ssa.IndexAddr); ok {
						idx = c.term(ia.Index)
					}
				}
				if !strings.HasPrefix(recv, "idx(phi{append(phi↺, slice(new:[1]*Command") {
					af.problems = append(af.problems, ancProblem{"fillLookup receiver", "lookup filled from " + trunc(recv, 100), in})
				}
				// every ancestor enters the chain: the append is guarded by nothing but `parent is a *Command`
				for _, b2 := range c.blocks(ml) { // (also where the walk was moved into a new helper)
					for _, in2 := range b2.Instrs {
						ap, ok := in2.(*ssa.Call)
						if !ok || c.calleeName(ap.Common()) != "append" || !strings.HasPrefix(c.term(ap), "append(phi{append(phi↺, slice(new:[1]*Command") {
							continue
						}
						for _, d := range c.controlDeps(b2.Parent(), b2) {
							l, ok := c.edgeLit(d.B, d.Succ)
							if !ok {
								continue
							}
							switch {
							case l.Pos && strings.HasPrefix(l.Term, "assert[*Command]("):
							case l.Pos && strings.HasPrefix(l.Term, "nonnil(phi{"):
							case l.Pos && strings.HasPrefix(l.Term, "phi{assert[*Command](Group.parent(Command.Group(P0)))#1 | assert[*Command](Group.parent(Command.Group(") && strings.HasSuffix(l.Term, "#1}"):
								// the ok flag of a comma-ok loop (every edge is the ok result of a parent.(*Command) assertion)
							default:
								af.problems = append(af.problems, ancProblem{"every ancestor is collected", "an ancestor enters the chain only under the additional condition " + trunc(l.String(), 100) + ": the walk stops there and outer options are lost", in2})
							}
						}
					}
				}
				af.orderOK = strings.HasPrefix(idx, "phi{(len(phi{append(") && strings.HasSuffix(idx, " - 1) | (phi↺ - 1)}") ||
					// counting form: for n := len(chain); n > 0; n-- { chain[n-1] }
					strings.HasPrefix(idx, "(phi{(phi↺ - 1) | len(phi{append(") && strings.HasSuffix(idx, "} - 1)")
				if af.orderOK {
					af.orderWhy = "the chain is collected nearest-first and walked from its last element down to 0"
				} else {
					af.orderWhy = "loop form not recognised: index evolves as " + trunc(idx, 120)
				}
			case c.isNewRecursive(cal):
				// recursion form
				h := cal
				if c.term(call.Call.Args[0]) != "P0" {
					af.problems = append(af.problems, ancProblem{"ancestor walk starts at the command", "the ancestor helper is started at " + trunc(c.term(call.Call.Args[0]), 80), in})
				}
				af.helper, af.ancEntry = h, in
				var rec, fill []ssa.Instruction
				for _, hb := range h.Blocks {
					for _, hin := range hb.Instrs {
						hc, ok := hin.(*ssa.Call)
						if !ok {
							continue
						}
						switch hc.Common().StaticCallee() {
						case h:
							rec = append(rec, hin)
						case c.Fn("(*Command).fillLookup"):
							fill = append(fill, hin)
						}
					}
				}
				if len(rec) != 1 || len(fill) != 1 {
					af.orderWhy = fmt.Sprintf("recursion form not recognised: %d recursive calls, %d fillLookup calls in %s", len(rec), len(fill), c.fname(h))
					if len(fill) > 0 {
						af.anc = fill[0]
					}
					continue
				}
				af.anc = fill[0]
				rc, fc := rec[0].(*ssa.Call), fill[0].(*ssa.Call)
				okRecv := c.term(rc.Call.Args[0]) == parentOf && c.term(fc.Call.Args[0]) == parentOf
				okTbl := len(h.Params) >= 2 && c.term(rc.Call.Args[1]) == "P1" && c.term(fc.Call.Args[1]) == "P1"
				_, okOrder := c.MustPass(h, isInstr(fill[0]), isInstr(rec[0]), nil, nil)
				_, okGuard := c.Requires(h, isInstr(fill[0]), litHas(true, "assert[*Command](Group.parent(Command.Group(P0)))#1"), nil)
				sites, asVal := c.callersOf(h)
				okWho := len(asVal) == 0
				for _, s := range sites {
					if !c.actsFor(s.Fn, ml) && !c.actsFor(s.Fn, h) {
						okWho = false
					}
				}
				if !okRecv {
					af.problems = append(af.problems, ancProblem{"fillLookup receiver", "lookup filled from " + trunc(c.term(fc.Call.Args[0]), 100) + ", recursion on " + trunc(c.term(rc.Call.Args[0]), 100), fill[0]})
				}
				af.orderOK = okRecv && okTbl && okOrder && okGuard && okWho
				if af.orderOK {
					af.orderWhy = "recursion on the parent command precedes the parent's own fill, into the same table"
				} else {
					af.orderWhy = fmt.Sprintf("recursion form: receivers=%v table=%v recursive-call-first=%v parent-guard=%v callers=%v", okRecv, okTbl, okOrder, okGuard, okWho)
				}
			}
		}
	}
	return af
}

// isNewRecursive: a non-frozen function that calls itself.
func (c *Ctx) isNewRecursive(fn *ssa.Function) bool {
	if fn == nil || fn.Blocks == nil || fn.Pkg != c.Pkg || c.allKnown || knownFuncs[c.fname(fn)] || fn.Parent() != nil {
		return false
	}
	for _, b := range fn.Blocks {
		for _, in := range b.Instrs {
			if ci, ok := in.(ssa.CallInstruction); ok && ci.Common().StaticCallee() == fn {
				return true
			}
		}
	}
	return false
}
