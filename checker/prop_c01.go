package main

import (
	"fmt"
	"reflect"
	"sort"
	"strings"

	"golang.org/x/tools/go/ssa"
)

func init() {
	register(&Property{
		Meta: PropMeta{
			ID:          "C01",
			Level:       "other",
			Explanation: "Structural necessary conditions of 'option fields hold what the command line denotes', decided on the SSA of /repo for all paths: (FUNNEL) every reflect mutator call in the package (Set, SetInt, SetUint, SetFloat, SetBool, SetString, SetMapIndex) acts on the conversion target handed down from Option.value / Arg.value, on a value freshly made with reflect.New / Indirect, or is one of the setup allocations of nil struct pointers; Option.value and Arg.value are stored only by the scans (and AddOption); (UNTOUCHED) a field becomes an option only if it is exported (or embedded) and carries a long, short or ini-name tag, and a struct pointer is written back only when it was allocated by the scan and something was declared inside; (ONCE) in parseOption every return that may carry a nil error has applied the occurrence (Set, or empty() for an optional argument), Set is not reachable twice outside the optional-value loop, parseShort applies one parseOption per rune, ParseArgs chooses exactly one of parseLong / parseShort per token, Option.call is reached only from Set and calls the callback once; (REARM) before the argument loop ParseArgs re-arms clearReferenceBeforeSet on every option of every command at every depth (eachOption → eachCommand with recurse = true, recursion passes true on) so the first occurrence of a parse replaces earlier contents and later ones accumulate; (STORE) slices append the converted element, maps insert the converted key/value split at the first colon, an argument-less occurrence stores true; (NAMES) the attached argument of a short option starts after the first rune's encoded width and the lookup tables are keyed by the declared names (shared with C02/C07).",
			NotDecided:  "that the stored value equals the value denoted (C11 covers the conversion's shape only); correctness of token classification on every vector.",
			Trusted:     []string{"go/ssa lowering", "go/types", "reflect Set*/Append semantics"},
		},
		Run:      runC01,
		Controls: []string{"path-req", "path-mpt", "path-nt"},
	})
}

func runC01(c *Ctx, r *Report, tier string) {
	r.Rule("FUNNEL", "receivers of reflect mutators; writers of Option.value / Arg.value", 12)
	r.Rule("UNTOUCHED", "only tagged exported fields become options; pointer write-back only for scan-allocated structs with declarations", 3)
	r.Rule("ONCE", "one application per occurrence", 7)
	r.Rule("REARM", "every option of every command is re-armed before the argument loop", 4)
	r.Rule("STORE", "slice append / map insert at the first colon / flag true", 4)
	r.Rule("NAMES", "attached short argument after the rune width; lookup keys are the declared names", 2)

	pa := c.mustFn(r, "(*Parser).ParseArgs")
	po := c.mustFn(r, "(*Parser).parseOption")
	ps := c.mustFn(r, "(*Parser).parseShort")
	ss := c.mustFn(r, "(*Group).scanStruct")
	cv := c.mustFn(r, "convert")
	eo := c.mustFn(r, "(*Command).eachOption")
	ecm := c.mustFn(r, "(*Command).eachCommand")
	ocall := c.mustFn(r, "(*Option).call")
	set := c.mustFn(r, "(*Option).Set")
	if pa == nil || po == nil || ps == nil || ss == nil || cv == nil || eo == nil || ecm == nil || ocall == nil || set == nil {
		return
	}

	// ---- FUNNEL
	mut := c.isCallTo("(reflect.Value).Set", "(reflect.Value).SetInt", "(reflect.Value).SetUint", "(reflect.Value).SetFloat", "(reflect.Value).SetBool", "(reflect.Value).SetString", "(reflect.Value).SetMapIndex")
	for _, fn := range c.Funcs {
		for _, in := range c.instrs(fn, mut) {
			call := in.(*ssa.Call)
			recv := c.term(call.Call.Args[0])
			fname := c.fname(fn)
			var ok bool
			var how string
			switch {
			case fname == "convert" && recv == "P1", fname == "convertUnmarshal" && recv == "P1":
				// the conversion target parameter: callers are checked below
				ok, how = true, "conversion target parameter"
			case isValueParam(fn, call.Call.Args[0]) && (actsForNamed(c, fn, "convert") || actsForNamed(c, fn, "convertUnmarshal")):
				// a helper split off the conversion, acting on the target it is handed
				ok, how = true, "conversion target parameter of a helper of convert"
			case strings.HasPrefix(recv, "Option.value(P0)") && (fname == "(*Option).empty"):
				ok, how = true, "the option's own value"
			case strings.HasPrefix(recv, "call:reflect.Indirect(call:reflect.New("), strings.HasPrefix(recv, "fresh("):
				ok, how = true, "fresh value"
			case setupFn(c, fn) && (strings.HasPrefix(recv, "call:(reflect.Value).Field(P") || (len(recv) == 2 && recv[0] == 'P') || strings.HasPrefix(recv, "phi{")):
				v := c.term(call.Call.Args[1])
				ok = strings.HasPrefix(v, "call:reflect.New(") || strings.HasPrefix(v, "phi{") && strings.Contains(v, "call:reflect.New(")
				how = "setup allocation of a nil struct pointer: stores reflect.New(…)"
			}
			r.Check(ok, "FUNNEL", fname, "reflect mutator "+strings.TrimPrefix(c.calleeName(call.Common()), "(reflect.Value).")+" on "+trunc(recv, 60), c.ipos(in), how, "a reflect store acts on "+trunc(recv, 100)+", which is neither the conversion target, a fresh value nor a setup allocation")
		}
	}
	// callers of convert / convertUnmarshal pass Option.value, Arg.value, or fresh
	for _, name := range []string{"convert", "convertUnmarshal"} {
		fn := c.Fn(name)
		sites, _ := c.callersOf(fn)
		for _, s := range sites {
			t := c.term(s.Call.Common().Args[1])
			ok := t == "Option.value(P0)" || strings.HasPrefix(t, "Arg.value(idx(parseState.positional(P0), 0))") || strings.HasPrefix(t, "fresh(") || strings.HasPrefix(t, "call:reflect.Indirect(") || strings.HasPrefix(t, "call:reflect.New(") ||
				strings.HasPrefix(t, "call:(reflect.Value).Addr(P1)") || strings.HasPrefix(t, "call:(reflect.Value).Elem(P1)") || t == "P1" || strings.HasPrefix(t, "call:reflect.Indirect(call:reflect.New(")
			r.Check(ok, "FUNNEL", c.fname(s.Fn), "target passed to "+name, c.ipos(s.Call), "Option.value / Arg.value / fresh / derived from the target: "+trunc(t, 60), "conversion writes into "+trunc(t, 100))
		}
	}
	c.whoStores(r, "FUNNEL", "Option", "value", map[string]string{"(*Group).scanStruct": "call:(reflect.Value).Field(P1, ", "(*Group).AddOption": "call:reflect.ValueOf(P2)"})
	c.whoStores(r, "FUNNEL", "Arg", "value", map[string]string{"(*Command).scanSubcommandHandler$1": "call:(reflect.Value).Field(P0, "})

	// ---- UNTOUCHED
	sn := c.fname(ss)
	var optLit *ssa.Alloc
	for _, b := range c.blocks(ss) {
		for _, in := range b.Instrs {
			if al, ok := in.(*ssa.Alloc); ok && al.Comment == "complit" && typeName(al.Type()) == "Option" {
				optLit = al
			}
		}
	}
	if optLit == nil {
		r.Fail("UNTOUCHED", sn, "Option literal", "", "not found")
	} else {
		get := func(k string) string { return `nonempty(call:(*multiTag).Get(new:multiTag, "` + k + `"))` }
		_, a := c.Requires(ss, isInstr(optLit), anyLit(litIs(get("long"), true), litIs(get("short"), true), litIs(get("ini-name"), true)), nil)
		_, b := c.Requires(ss, isInstr(optLit), anyLit(litIs("nonempty(StructField.PkgPath(new:reflect.StructField))", false), litIs("StructField.Anonymous(new:reflect.StructField)", true)), nil)
		r.Check(a, "UNTOUCHED", sn, "untagged fields never become options", c.ipos(optLit), "REQ(long ≠ \"\" ∨ short ≠ \"\" ∨ ini-name ≠ \"\")", "an Option can be built for a field without long, short or ini-name tag")
		r.Check(b, "UNTOUCHED", sn, "unexported fields never become options", c.ipos(optLit), "REQ(PkgPath == \"\" ∨ Anonymous)", "an Option can be built for an unexported, non-embedded field")
	}
	nWB := 0
	for _, in := range c.instrs(ss, c.isCallTo("(reflect.Value).Set")) {
		call := in.(*ssa.Call)
		if !strings.HasPrefix(c.term(call.Call.Args[0]), "call:(reflect.Value).Field(P1") {
			continue
		}
		nWB++
		_, a := c.Requires(ss, isInstr(in), func(l Lit) bool {
			return !l.Pos && strings.HasPrefix(l.Term, "eq(") && strings.Contains(l.Term, "len(Group.options(P0))") && strings.Contains(l.Term, "len(Group.groups(P0))")
		}, nil)
		_, b := c.Requires(ss, isInstr(in), func(l Lit) bool {
			return l.Pos && (strings.HasPrefix(l.Term, "phi{") || strings.HasPrefix(l.Term, "cell:bool"))
		}, nil)
		r.Check(a && b, "UNTOUCHED", sn, "struct pointer written back only when the scan allocated it and something was declared", c.ipos(in), "REQ(allocated) ∧ REQ(option/group count changed)", fmt.Sprintf("count-changed necessary=%v allocated necessary=%v", a, b))
	}
	r.Check(nWB == 1, "UNTOUCHED", sn, "pointer write-back site", c.pos(ss.Pos()), "one", fmt.Sprintf("%d", nWB))
	// the count the write-back compares against is taken for THIS field: inside the field loop, before the nested scan
	{
		var rec []ssa.Instruction
		for _, in := range c.instrs(ss, c.isCallTo("(*Group).scanStruct")) {
			if in.Parent() == ss || c.actsFor(in.Parent(), ss) {
				rec = append(rec, in)
			}
		}
		// the nested scan reached through a new helper (one that several sites share): the call of that helper in
		// scanStruct's own body is the point after which the count has changed
		for _, b := range ss.Blocks {
			for _, in := range b.Instrs {
				call, ok := in.(*ssa.Call)
				if !ok {
					continue
				}
				if h := call.Call.StaticCallee(); h != nil && c.isNew(h) && len(c.instrs(h, c.isCallTo("(*Group).scanStruct"))) > 0 {
					rec = append(rec, in)
				}
			}
		}
		loads := func(v ssa.Value) []ssa.Instruction {
			var out []ssa.Instruction
			var walk func(v ssa.Value, d int)
			walk = func(v ssa.Value, d int) {
				if d > 6 {
					return
				}
				switch x := v.(type) {
				case *ssa.BinOp:
					walk(x.X, d+1)
					walk(x.Y, d+1)
				case *ssa.Call:
					for _, a := range x.Call.Args {
						walk(a, d+1)
					}
				case *ssa.UnOp:
					out = append(out, x)
				}
			}
			walk(v, 0)
			return out
		}
		nCmp := 0
		for _, b := range c.blocks(ss) {
			iff, ok := b.Instrs[len(b.Instrs)-1].(*ssa.If)
			if !ok {
				continue
			}
			bo, ok := iff.Cond.(*ssa.BinOp)
			if !ok || !(strings.Contains(c.term(bo), "len(Group.options(P0))") && strings.Contains(c.term(bo), "len(Group.groups(P0))")) {
				continue
			}
			nCmp++
			var fieldLoop *Loop
			for _, l := range c.loopsDeep(ss) {
				if l.Blocks[b] && (fieldLoop == nil || len(l.Blocks) < len(fieldLoop.Blocks)) {
					fieldLoop = l
				}
			}
			after := func(ld ssa.Instruction) bool { // executed after a nested scan of the same iteration
				for _, rc := range rec {
					q := &PathQ{c: c, Fn: ss, NoBack: true}
					s := siteOf(rc)
					if _, found := q.Reach(Site{s.B, s.I + 1}, 0, isInstr(ld)); found {
						return true
					}
				}
				return false
			}
			nBefore, nAfter, okIn := 0, 0, true
			for _, side := range []ssa.Value{bo.X, bo.Y} {
				ls := loads(side)
				if len(ls) == 0 {
					continue
				}
				isAfter := false
				for _, ld := range ls {
					if after(ld) {
						isAfter = true
					}
				}
				if isAfter {
					nAfter++
					continue
				}
				nBefore++
				for _, ld := range ls {
					if fieldLoop == nil || !fieldLoop.Blocks[ld.Block()] {
						okIn = false
					}
				}
			}
			// the two sides count the same things (options and groups): read at different times they render alike
			r.Check(c.term(bo.X) == c.term(bo.Y), "UNTOUCHED", sn, "the count taken before the scan is the count compared after it", c.ipos(iff), "both sides are len(options) + len(groups)", "compares "+trunc(c.term(bo.X), 60)+" with "+trunc(c.term(bo.Y), 60)+": a declaration of the kind missing on one side makes an untagged struct pointer look used (or unused)")
			r.Check(nBefore == 1 && nAfter == 1 && okIn, "UNTOUCHED", sn, "declaration count compared with its value before this field's scan", c.ipos(iff), "one side is read after the nested scanStruct, the other before it in the same iteration of the field loop", fmt.Sprintf("sides read before the nested scan=%d, after=%d, the earlier one taken inside the field loop=%v: an untagged nil struct pointer can stay allocated because of declarations made by other fields", nBefore, nAfter, okIn))
		}
		if nCmp == 0 {
			r.Fail("UNTOUCHED", sn, "declaration count comparison", c.pos(ss.Pos()), "not found")
		}
	}

	// ---- ONCE
	pon := c.fname(po)
	apply := orPred(c.isCallTo("(*Option).Set"), c.isCallTo("(*Option).empty"))
	for _, ret := range returnsOf(po) {
		e := c.resolve(ret.Results[0])
		if mi, ok := ret.Results[0].(*ssa.MakeInterface); ok {
			if call, ok := mi.X.(*ssa.Call); ok && c.neverNilError(call.Common().StaticCallee(), 0) {
				continue // a constructor result: never nil
			}
		}
		_ = e
		// paths that skip Set: only through an edge that establishes a non-nil error
		// (a path through an error constructor carries a non-nil error: it is not a nil-error return)
		path, ok := c.mustPassOrErr(po, ret, orPred(apply, c.isCallTo("newErrorf", "newError")))
		r.Check(ok, "ONCE", pon, "a return without error has applied the occurrence", c.ipos(ret), "every path passes Option.Set / Option.empty or the `err != nil` edge", "a nil-error return is reachable without applying the option: "+pathStr(path))
	}
	// Set twice only through the optional-value loop
	sets := c.instrs(po, c.isCallTo("(*Option).Set"))
	loops := c.loopsDeep(po)
	for _, s := range sets {
		inLoop := innermost(loops, s.Block()) != nil
		q := &PathQ{c: c, Fn: po, NoBack: true}
		st := siteOf(s)
		_, again := q.Reach(Site{st.B, st.I + 1}, 0, c.isCallTo("(*Option).Set"))
		what := "Set not reachable twice"
		if inLoop {
			what += " (optional-value loop: once per declared optional value)"
		}
		r.Check(!again, "ONCE", pon, what, c.ipos(s), "no second Set on any path within one iteration", "Set can run twice for one occurrence")
	}
	psn := c.fname(ps)
	pcalls := c.instrs(ps, c.isCallTo("(*Parser).parseOption"))
	okOne := len(pcalls) == 1
	if okOne {
		_, twice := c.NeverTwice(ps, c.isCallTo("(*Parser).parseOption"), true, nil)
		okOne = twice
	}
	r.Check(okOne, "ONCE", psn, "one parseOption per rune of a cluster", c.pos(ps.Pos()), "a single call site, not reachable twice within one iteration", "parseOption can run twice for one rune")
	long := c.instrs(pa, c.isCallTo("(*Parser).parseLong"))
	short := c.instrs(pa, c.isCallTo("(*Parser).parseShort"))
	okX := len(long) == 1 && len(short) == 1
	if okX {
		okX = !c.reachableFromNoBack(pa, long[0], isInstr(short[0])) && !c.reachableFromNoBack(pa, short[0], isInstr(long[0]))
	}
	r.Check(okX, "ONCE", c.fname(pa), "parseLong and parseShort are mutually exclusive per token", c.pos(pa.Pos()), "one of them per iteration", "both can run for one token")
	sites, _ := c.callersOf(ocall)
	for _, s := range sites {
		r.Check(c.actsFor(s.Fn, set), "ONCE", c.fname(s.Fn), "caller of Option.call", c.ipos(s.Call), "Set only", "Option.call called from "+c.fname(s.Fn))
	}
	if d, ok := c.NeverTwice(ocall, c.isCallTo("(reflect.Value).Call"), false, nil); ok {
		r.OK("ONCE", c.fname(ocall), "callback invoked once per call", c.pos(ocall.Pos()), "no path runs two reflect Calls")
	} else {
		r.Fail("ONCE", c.fname(ocall), "callback invoked once per call", c.pos(ocall.Pos()), d)
	}

	// ---- REARM
	crbs := c.mustField(r, "Option", "clearReferenceBeforeSet")
	arm := c.isCallPassingClosureThat("(*Command).eachOption", func(in ssa.Instruction) bool {
		st, ok := in.(*ssa.Store)
		return ok && c.isStoreTo(crbs)(in) && c.term(st.Val) == "true"
	})
	loop := c.loopContaining(pa, c.isCallTo("(*parseState).pop"))
	if loop != nil {
		c.mptRule(r, "REARM", pa, loop.Header.Instrs[0], "arming precedes the argument loop", arm, "eachOption(closure storing clearReferenceBeforeSet = true)", nil)
		for _, a := range c.instrs(pa, arm) {
			r.Check(c.term(a.(*ssa.Call).Call.Args[0]) == "Parser.Command(P0)", "REARM", c.fname(pa), "arming starts at the root command", c.ipos(a), "p.eachOption", "arming starts at "+c.term(a.(*ssa.Call).Call.Args[0]))
		}
	}
	nTree := 0
	for _, in := range c.instrs(eo, c.isCallTo("(*Command).eachCommand")) {
		a := in.(*ssa.Call).Call.Args
		nTree++
		r.Check(c.term(a[2]) == "true" && c.term(a[0]) == "P0", "REARM", c.fname(eo), "eachOption visits the whole command tree", c.ipos(in), "eachCommand(f, recurse = true)", "eachOption calls eachCommand with recurse = "+c.term(a[2]))
	}
	for _, in := range c.instrs(eo, c.isCallTo("(*Command).eachOption")) {
		// the walk written as a direct recursion over the subcommands
		a := in.(*ssa.Call).Call.Args
		nTree++
		_, inLoop := c.Requires(eo, isInstr(in), func(l Lit) bool { return strings.Contains(l.Term, "len(Command.commands(P0))") }, nil)
		r.Check(strings.HasPrefix(c.term(a[0]), "idx(Command.commands(P0), ") && c.term(a[1]) == "P1" && inLoop, "REARM", c.fname(eo), "eachOption visits the whole command tree", c.ipos(in), "sub.eachOption(f) for each subcommand", "eachOption recurses into "+trunc(c.term(a[0]), 60))
	}
	r.Check(nTree > 0, "REARM", c.fname(eo), "eachOption reaches the subcommands", c.pos(eo.Pos()), "eachCommand(…, true) or a recursion over c.commands", "eachOption visits the receiver's own options only")
	okRec := false
	for _, in := range c.instrs(ecm, c.isCallTo("(*Command).eachCommand")) {
		a := in.(*ssa.Call).Call.Args
		_, req := c.Requires(ecm, isInstr(in), litIs("P2", true), nil)
		if c.term(a[2]) == "true" && strings.HasPrefix(c.term(a[0]), "idx(Command.commands(P0), ") && req {
			okRec = true
		}
	}
	r.Check(okRec, "REARM", c.fname(ecm), "recursion descends through every level", c.pos(ecm.Pos()), "cc.eachCommand(f, true) for each subcommand when recurse", "the recursive walk does not pass recurse = true on to the subcommands")
	// eachOption's inner closure visits every option of every nested group
	okIn := false
	for _, f := range c.Funcs {
		if strings.HasPrefix(c.fname(f), "(*Command).eachOption$") || f == eo {
			for _, in := range c.instrs(f, c.isCallTo("(*Group).eachGroup")) {
				_ = in
				okIn = true
			}
		}
	}
	r.Check(okIn, "REARM", c.fname(eo), "every nested group's options are visited", c.pos(eo.Pos()), "eachGroup inside the per-command closure", "eachOption does not descend into nested groups")

	// the first occurrence replaces the previous contents of slices AND maps: Set empties both kinds when armed
	if set := c.Fn("(*Option).Set"); set != nil {
		nE := 0
		for _, in := range c.instrs(set, c.isCallTo("(*Option).empty")) {
			nE++
			got := kindNames(c.kindsAt(in, "V:Option.value(P0)"))
			want := kindNames([]int64{int64(reflect.Map), int64(reflect.Slice)})
			_, armed := c.Requires(set, isInstr(in), litIs("Option.clearReferenceBeforeSet(P0)", true), nil)
			r.Check(got == want && armed, "REARM", c.fname(set), "armed Set empties maps and slices", c.ipos(in), "empty() reachable for exactly {"+want+"} under clearReferenceBeforeSet", "empty() is reached for kinds {"+got+"} (armed necessary="+fmt.Sprint(armed)+"): the previous contents of the other reference kind survive the first occurrence")
		}
		r.Check(nE == 1, "REARM", c.fname(set), "one emptying site in Set", c.pos(set.Pos()), "one", fmt.Sprintf("%d", nE))
	}

	// ---- STORE (shared shape rules)
	cn := c.fname(cv)
	for _, in := range c.instrs(cv, c.isCallTo("reflect.Append")) {
		a := in.(*ssa.Call).Call.Args
		es := sliceLitElems(a[len(a)-1])
		ok := c.term(a[0]) == "P1" && len(es) == 1 && strings.HasPrefix(c.term(es[0]), "fresh(invoke:Type.Elem(")
		r.Check(ok, "STORE", cn, "slice: append(current value, converted element)", c.ipos(in), "reflect.Append(retval, elem)", "append operands are "+trunc(c.term(a[0]), 40)+", …")
	}
	c.ruleMapSplit(r, "STORE", cv)
	okTrue := false
	for _, in := range c.instrs(cv, c.isCallTo("(reflect.Value).SetBool")) {
		if t := c.term(in.(*ssa.Call).Call.Args[1]); t == "true" || strings.HasPrefix(t, "phi{") && strings.Contains(t, "true") {
			okTrue = c.boolStoreOK(cv, in, in.(*ssa.Call).Call.Args[1])
		}
	}
	r.Check(okTrue, "STORE", cn, "flag without argument stores true", c.pos(cv.Pos()), "SetBool(true) exactly for the empty value", "an argument-less flag occurrence does not store true")

	// ---- NAMES
	c.ruleConcatSplit(r, "NAMES")
	var keys []string
	c.eachInstr(func(fn *ssa.Function, in ssa.Instruction) {
		if u, ok := in.(*ssa.MapUpdate); ok && strings.HasPrefix(c.term(u.Map), "lookup.") && !strings.HasPrefix(c.term(u.Map), "lookup.commands") {
			keys = append(keys, c.term(u.Key))
		}
	})
	sort.Strings(keys)
	okK := len(keys) == 2 && strings.HasPrefix(keys[0], "call:(*Option).LongNameWithNamespace(idx(Group.options(P0)") && strings.HasPrefix(keys[1], "conv[string](Option.ShortName(idx(Group.options(P0)")
	r.Check(okK, "NAMES", "(*Command).fillLookup$1", "lookup keys are the declared names", "", "longNames[LongNameWithNamespace()], shortNames[string(ShortName)]", "lookup keyed by "+strings.Join(keys, " ; "))
}

// reachableFromNoBack: can target be reached from just after `from` without taking a back edge?
func (c *Ctx) reachableFromNoBack(fn *ssa.Function, from ssa.Instruction, target func(ssa.Instruction) bool) bool {
	s := siteOf(from)
	q := &PathQ{c: c, Fn: fn, NoBack: true}
	_, found := q.Reach(Site{s.B, s.I + 1}, 0, target)
	return found
}

// ruleConcatSplit: splitShortConcatArg cuts after the first rune's encoded width.
func (c *Ctx) ruleConcatSplit(r *Report, rule string) {
	ps := c.mustFn(r, "(*Parser).parseShort")
	if ps == nil {
		return
	}
	cs := c.concatSplit(ps)
	if cs.split == nil {
		r.Fail(rule, c.fname(ps), "attached argument split", c.pos(ps.Pos()), cs.why)
		return
	}
	r.Check(len(cs.otherSlices) == 0, rule, c.fname(ps), "attached argument starts after the first rune", c.ipos(cs.split), "first = string(rune), argument = optname[width:]", "the attached argument is also cut at "+strings.Join(cs.otherSlices, ", "))
}

// setupFn: fn is one of the declaration-scan functions or a new helper extracted from them.
func setupFn(c *Ctx, fn *ssa.Function) bool {
	owners := c.ownerNames(fn)
	if len(owners) == 0 {
		return false
	}
	for _, o := range owners {
		if o != "(*Group).scanStruct" && o != "(*Group).scanSubGroupHandler" && o != "(*Command).scanSubcommandHandler$1" && o != "(*Command).scanSubcommandHandler" {
			return false
		}
	}
	return true
}

// actsForNamed: fn is the named pinned function or a new helper acting for it.
func actsForNamed(c *Ctx, fn *ssa.Function, name string) bool {
	o := c.Fn(name)
	return o != nil && c.actsFor(fn, o)
}

// isValueParam: v is (a resolved form of) one of fn's own reflect.Value parameters.
func isValueParam(fn *ssa.Function, v ssa.Value) bool {
	p, ok := v.(*ssa.Parameter)
	return ok && p.Parent() == fn && p.Type().String() == "reflect.Value"
}
