package main

// btable.go — truth tables of small pure predicates over a string parameter.
//
// A function such as argumentIsOption touches its argument only through
// comparisons of len(arg) with small constants and of arg[i] (i a small
// constant) with a few marker bytes. Its result is therefore a function of a
// finite predicate abstraction of the argument: the length class
// {0,1,2,3,≥4} and, for each of the first four bytes, which marker (if any)
// it is. The evaluator below computes that function from the SSA for every
// abstract argument — whatever shape the code has (nested ifs, early returns,
// boolean phis of && / ||, extracted helpers) — so that a rule can compare it
// with the documented table instead of matching one particular layout.
// Anything outside the fragment (other operations, other constants, loops)
// yields "undecided" for that abstract argument, never a guess.

import (
	"fmt"
	"go/constant"
	"go/token"
	"go/types"

	"golang.org/x/tools/go/ssa"
)

const btMaxLen = 4 // length classes 0..3 exact, 4 means "≥ 4"

type absStr struct {
	n  int            // length class
	ch [btMaxLen]byte // marker byte at position i (< n), or 'x' for "any other byte"
}

func (a absStr) String() string {
	s := ""
	for i := 0; i < a.n && i < btMaxLen; i++ {
		s += string(a.ch[i])
	}
	if a.n == btMaxLen {
		s += "…"
	}
	return fmt.Sprintf("%q", s)
}

// allAbsStr enumerates the abstract strings over the marker alphabet.
func allAbsStr(markers []byte) []absStr {
	alpha := append(append([]byte{}, markers...), 'x')
	var out []absStr
	var rec func(cur absStr, i int)
	rec = func(cur absStr, i int) {
		if i == cur.n {
			out = append(out, cur)
			return
		}
		for _, c := range alpha {
			cur.ch[i] = c
			rec(cur, i+1)
		}
	}
	for n := 0; n <= btMaxLen; n++ {
		rec(absStr{n: n}, 0)
	}
	return out
}

type avKind int

const (
	avUnknown avKind = iota
	avBool
	avInt  // exact
	avIntG // "≥ i"
	avChar // marker byte or 'x'
	avStr  // the abstract argument, or its suffix from byte offset off
	avCStr // a constant string
	avTuple
	avPanic
)

type aval struct {
	k   avKind
	b   bool
	i   int64
	ch  byte
	why string
	off int    // avStr: the suffix arg[off:]
	s   string // avCStr
	t   []aval // avTuple
}

func unk(why string) aval { return aval{k: avUnknown, why: why} }

type btEval struct {
	c       *Ctx
	s       absStr
	markers map[byte]bool
	steps   int
}

// evalFn evaluates fn on arguments args; returns its (single) result.
func (e *btEval) evalFn(fn *ssa.Function, args []aval, depth int) aval {
	if depth > 4 || fn.Blocks == nil {
		return unk("call depth")
	}
	env := map[ssa.Value]aval{}
	for i, p := range fn.Params {
		if i < len(args) {
			env[p] = args[i]
		}
	}
	var prev *ssa.BasicBlock
	b := fn.Blocks[0]
	for {
		e.steps++
		if e.steps > 4000 {
			return unk("step bound (loop?)")
		}
		var next *ssa.BasicBlock
		for _, in := range b.Instrs {
			switch x := in.(type) {
			case *ssa.Phi:
				for k, p := range b.Preds {
					if p == prev {
						env[x] = e.val(env, x.Edges[k], depth)
					}
				}
			case *ssa.If:
				cv := e.val(env, x.Cond, depth)
				if cv.k == avPanic {
					return cv
				}
				if cv.k != avBool {
					return unk("branch on " + e.c.term(x.Cond) + ": " + cv.why)
				}
				if cv.b {
					next = b.Succs[0]
				} else {
					next = b.Succs[1]
				}
			case *ssa.Jump:
				next = b.Succs[0]
			case *ssa.Return:
				if len(x.Results) == 1 {
					return e.val(env, x.Results[0], depth)
				}
				tup := aval{k: avTuple}
				for _, rv := range x.Results {
					tup.t = append(tup.t, e.val(env, rv, depth))
				}
				return tup
			case *ssa.DebugRef:
			case ssa.Value:
				v := e.val(env, x, depth)
				if v.k == avPanic {
					return v
				}
				env[x] = v
			default:
				return unk(fmt.Sprintf("instruction %T", in))
			}
		}
		if next == nil {
			return unk("fell off block")
		}
		prev, b = b, next
	}
}

func (e *btEval) val(env map[ssa.Value]aval, v ssa.Value, depth int) aval {
	if a, ok := env[v]; ok {
		return a
	}
	switch x := v.(type) {
	case *ssa.Const:
		if x.Value == nil {
			return unk("nil const")
		}
		switch x.Value.Kind() {
		case constant.Bool:
			return aval{k: avBool, b: constant.BoolVal(x.Value)}
		case constant.Int:
			n, _ := constant.Int64Val(x.Value)
			return aval{k: avInt, i: n}
		case constant.String:
			return aval{k: avCStr, s: constant.StringVal(x.Value)}
		}
		return unk("const kind")
	case *ssa.Call:
		cc := x.Common()
		if bi, ok := cc.Value.(*ssa.Builtin); ok && bi.Name() == "len" && len(cc.Args) == 1 {
			a := e.val(env, cc.Args[0], depth)
			if a.k == avCStr {
				return aval{k: avInt, i: int64(len(a.s))}
			}
			if a.k != avStr {
				return unk("len of non-argument")
			}
			if e.s.n == btMaxLen {
				return aval{k: avIntG, i: int64(btMaxLen - a.off)}
			}
			return aval{k: avInt, i: int64(e.s.n - a.off)}
		}
		if cal := cc.StaticCallee(); cal != nil && !cc.IsInvoke() {
			name := e.c.calleeName(cc)
			if name == "strings.HasPrefix" && len(cc.Args) == 2 {
				a := e.val(env, cc.Args[0], depth)
				k, isK := cc.Args[1].(*ssa.Const)
				if a.k == avStr && isK && k.Value != nil && k.Value.Kind() == constant.String {
					pre := constant.StringVal(k.Value)
					if a.off+len(pre) > btMaxLen {
						return unk("long prefix")
					}
					if a.off+len(pre) > e.s.n {
						return aval{k: avBool, b: false}
					}
					for i := 0; i < len(pre); i++ {
						if !e.markers[pre[i]] {
							return unk("prefix byte outside the marker alphabet")
						}
						if e.s.ch[a.off+i] != pre[i] {
							return aval{k: avBool, b: false}
						}
					}
					return aval{k: avBool, b: true}
				}
				return unk("HasPrefix operands")
			}
			if cal.Pkg == e.c.Pkg && cal.Blocks != nil {
				var args []aval
				for _, a := range cc.Args {
					args = append(args, e.val(env, a, depth))
				}
				return e.evalFn(cal, args, depth+1)
			}
			return unk("call " + name)
		}
		return unk("dynamic call")
	case *ssa.Lookup, *ssa.Index: // s[i] on a string
		var xs, xi ssa.Value
		if lk, ok := x.(*ssa.Lookup); ok {
			xs, xi = lk.X, lk.Index
		} else {
			xs, xi = x.(*ssa.Index).X, x.(*ssa.Index).Index
		}
		a := e.val(env, xs, depth)
		i := e.val(env, xi, depth)
		if a.k == avCStr && i.k == avInt {
			if i.i < 0 || i.i >= int64(len(a.s)) {
				return aval{k: avPanic, why: fmt.Sprintf("index %d out of range for constant %q", i.i, a.s)}
			}
			if !e.markers[a.s[i.i]] {
				return aval{k: avChar, ch: 'x'}
			}
			return aval{k: avChar, ch: a.s[i.i]}
		}
		if a.k != avStr || i.k != avInt {
			return unk("index operands")
		}
		i.i += int64(a.off)
		if i.i < int64(a.off) || (i.i >= int64(e.s.n) && !(e.s.n == btMaxLen && i.i < btMaxLen)) {
			if e.s.n == btMaxLen && i.i >= btMaxLen {
				return unk("index beyond the abstraction")
			}
			return aval{k: avPanic, why: fmt.Sprintf("index %d out of range for %s", i.i, e.s)}
		}
		return aval{k: avChar, ch: e.s.ch[i.i]}
	case *ssa.Extract:
		tv := e.val(env, x.Tuple, depth)
		if tv.k == avPanic {
			return tv
		}
		if tv.k != avTuple || x.Index >= len(tv.t) {
			return unk("extract of a non-tuple: " + tv.why)
		}
		return tv.t[x.Index]
	case *ssa.Slice:
		a := e.val(env, x.X, depth)
		if a.k != avStr || x.High != nil || x.Max != nil {
			return unk("slice form")
		}
		lo := aval{k: avInt}
		if x.Low != nil {
			lo = e.val(env, x.Low, depth)
		}
		if lo.k != avInt || lo.i < 0 {
			return unk("slice bound")
		}
		no := a.off + int(lo.i)
		if no > e.s.n {
			return aval{k: avPanic, why: fmt.Sprintf("slice [%d:] out of range for %s", no, e.s)}
		}
		if no > btMaxLen {
			return unk("slice beyond the abstraction")
		}
		return aval{k: avStr, off: no}
	case *ssa.UnOp:
		if x.Op == token.NOT {
			a := e.val(env, x.X, depth)
			if a.k == avBool {
				return aval{k: avBool, b: !a.b}
			}
			return a
		}
		return unk("unary " + x.Op.String())
	case *ssa.Convert:
		// byte/rune/int conversions keep the abstract value
		if bt, ok := x.Type().Underlying().(*types.Basic); ok && bt.Info()&types.IsInteger != 0 {
			return e.val(env, x.X, depth)
		}
		return unk("conversion")
	case *ssa.BinOp:
		l, r := e.val(env, x.X, depth), e.val(env, x.Y, depth)
		if l.k == avPanic {
			return l
		}
		if r.k == avPanic {
			return r
		}
		return e.binop(x.Op, l, r)
	}
	return unk(fmt.Sprintf("value %T", v))
}

func (e *btEval) binop(op token.Token, l, r aval) aval {
	// string comparisons: constants with constants; the argument (suffix) with ""
	if (l.k == avStr || l.k == avCStr) && (r.k == avStr || r.k == avCStr) && (op == token.EQL || op == token.NEQ) {
		if l.k == avCStr && r.k == avStr {
			l, r = r, l
		}
		var eq bool
		switch {
		case l.k == avCStr && r.k == avCStr:
			eq = l.s == r.s
		case l.k == avStr && r.k == avCStr:
			rem := e.s.n - l.off
			if r.s == "" {
				eq = rem == 0
			} else if e.s.n == btMaxLen {
				return unk("argument compared with a non-empty constant beyond the abstraction")
			} else if rem != len(r.s) {
				eq = false
			} else {
				eq = true
				for i := 0; i < len(r.s); i++ {
					if !e.markers[r.s[i]] {
						return unk("constant byte outside the marker alphabet")
					}
					if e.s.ch[l.off+i] != r.s[i] {
						eq = false
					}
				}
			}
		default:
			return unk("argument compared with itself")
		}
		return aval{k: avBool, b: eq == (op == token.EQL)}
	}
	// char vs int constant
	if l.k == avInt && r.k == avChar {
		l, r = r, l
		switch op {
		case token.LSS:
			op = token.GTR
		case token.GTR:
			op = token.LSS
		case token.LEQ:
			op = token.GEQ
		case token.GEQ:
			op = token.LEQ
		}
	}
	if l.k == avChar && r.k == avInt {
		if op != token.EQL && op != token.NEQ {
			return unk("ordered comparison of a byte")
		}
		if r.i < 0 || r.i > 255 || !e.markers[byte(r.i)] {
			return unk(fmt.Sprintf("byte compared with %d, outside the marker alphabet", r.i))
		}
		eq := l.ch == byte(r.i)
		return aval{k: avBool, b: eq == (op == token.EQL)}
	}
	if l.k == avChar && r.k == avChar {
		if l.ch == 'x' || r.ch == 'x' || (op != token.EQL && op != token.NEQ) {
			return unk("byte/byte comparison")
		}
		return aval{k: avBool, b: (l.ch == r.ch) == (op == token.EQL)}
	}
	isI := func(a aval) bool { return a.k == avInt || a.k == avIntG }
	if isI(l) && isI(r) {
		if l.k == avInt && r.k == avInt {
			var b bool
			switch op {
			case token.EQL:
				b = l.i == r.i
			case token.NEQ:
				b = l.i != r.i
			case token.LSS:
				b = l.i < r.i
			case token.LEQ:
				b = l.i <= r.i
			case token.GTR:
				b = l.i > r.i
			case token.GEQ:
				b = l.i >= r.i
			case token.ADD:
				return aval{k: avInt, i: l.i + r.i}
			case token.SUB:
				return aval{k: avInt, i: l.i - r.i}
			default:
				return unk("int op " + op.String())
			}
			return aval{k: avBool, b: b}
		}
		// one side is "≥ g"
		flip := false
		if r.k == avIntG {
			l, r = r, l
			flip = true
		}
		if r.k != avInt {
			return unk("two open ints")
		}
		g, k := l.i, r.i // value v ≥ g compared with k
		o := op
		if flip {
			switch op {
			case token.LSS:
				o = token.GTR
			case token.GTR:
				o = token.LSS
			case token.LEQ:
				o = token.GEQ
			case token.GEQ:
				o = token.LEQ
			}
		}
		switch o {
		case token.GTR: // v > k
			if g > k {
				return aval{k: avBool, b: true}
			}
		case token.GEQ:
			if g >= k {
				return aval{k: avBool, b: true}
			}
		case token.LSS: // v < k
			if g >= k {
				return aval{k: avBool, b: false}
			}
		case token.LEQ:
			if g > k {
				return aval{k: avBool, b: false}
			}
		case token.EQL:
			if g > k {
				return aval{k: avBool, b: false}
			}
		case token.NEQ:
			if g > k {
				return aval{k: avBool, b: true}
			}
		}
		return unk(fmt.Sprintf("length compared with %d, beyond the abstraction", k))
	}
	if l.k == avBool && r.k == avBool {
		switch op {
		case token.EQL:
			return aval{k: avBool, b: l.b == r.b}
		case token.NEQ:
			return aval{k: avBool, b: l.b != r.b}
		}
	}
	why := "operands"
	if l.k == avUnknown {
		why = l.why
	} else if r.k == avUnknown {
		why = r.why
	}
	return unk(why)
}

// boolTable compares the predicate fn(arg string) bool with the documented
// function spec over every abstract argument. Returns the first disagreement.
func (c *Ctx) boolTable(fn *ssa.Function, markers []byte, spec func(absStr) bool) (n int, bad string, undecided string) {
	mk := map[byte]bool{}
	for _, m := range markers {
		mk[m] = true
	}
	for _, s := range allAbsStr(markers) {
		e := &btEval{c: c, s: s, markers: mk}
		got := e.evalFn(fn, []aval{{k: avStr}}, 0)
		n++
		switch got.k {
		case avBool:
			if got.b != spec(s) && bad == "" {
				bad = fmt.Sprintf("for an argument of the form %s the function answers %v, documented %v", s, got.b, spec(s))
			}
		case avPanic:
			if bad == "" {
				bad = fmt.Sprintf("for an argument of the form %s: %s", s, got.why)
			}
		default:
			if undecided == "" {
				undecided = fmt.Sprintf("for an argument of the form %s: %s", s, got.why)
			}
		}
	}
	return
}
