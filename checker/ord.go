package main

// ord.go — ORD: order-taint analysis. Every source of incidental order (map
// iteration, reflect MapKeys, ...) must be sorted before it escapes (O1) or be
// consumed by a keyed-commutative loop body (O2).

import (
	"fmt"
	"go/ast"
	"go/token"
	"go/types"
	"sort"
	"strings"

	"golang.org/x/tools/go/ssa"
)

var ordSanitisers = map[string]string{
	"sort.Sort": "sort.Sort", "sort.Stable": "sort.Stable", "sort.Strings": "sort.Strings", "sort.Ints": "sort.Ints",
	"sort.Float64s": "sort.Float64s", "sort.Slice": "sort.Slice", "sort.SliceStable": "sort.SliceStable",
}

// ordBenign lists package functions whose only effect is idempotent memoisation.
var ordBenign = map[string]string{
	"(*multiTag).cached": "lazily parses the tag once and stores the result in the receiver: idempotent, the stored value does not depend on call order",
}

func pureExternal(name string) bool {
	switch {
	case strings.HasPrefix(name, "strings."), strings.HasPrefix(name, "strconv."), strings.HasPrefix(name, "unicode/utf8."),
		strings.HasPrefix(name, "unicode."), strings.HasPrefix(name, "invoke:Type."):
		return true
	}
	switch name {
	case "fmt.Sprintf", "fmt.Sprint", "fmt.Errorf", "errors.New", "reflect.TypeOf", "reflect.ValueOf", "reflect.Indirect",
		"reflect.Zero", "reflect.New", "reflect.MakeMap", "reflect.DeepEqual", "reflect.Append",
		"invoke:error.Error", "invoke:Stringer.String", "invoke:Marshaler.MarshalFlag",
		"len", "cap", "append", "copy", "delete", "min", "max", "ssa:wrapnilchk":
		return true
	}
	if _, isSan := ordSanitisers[name]; isSan {
		return true // mutates only the slice it is given; callers' slices are checked as escapes
	}
	if strings.HasPrefix(name, "(reflect.Value).") {
		m := strings.TrimPrefix(name, "(reflect.Value).")
		if strings.HasPrefix(m, "Set") || m == "Call" || m == "CallSlice" || m == "Send" || m == "Recv" || m == "MapRange" {
			return false
		}
		return true
	}
	return false
}

type ordA struct {
	c          *Ctx
	retTainted map[*ssa.Function]bool
	pureMemo   map[*ssa.Function]int // 0 unknown, 1 computing/pure, 2 impure
	report     *Report               // nil in the summary phase
	sources    int
}

// rootAlloc follows FieldAddr/IndexAddr chains to an Alloc, if any.
func rootAlloc(v ssa.Value) *ssa.Alloc {
	for i := 0; i < 10; i++ {
		switch x := v.(type) {
		case *ssa.Alloc:
			return x
		case *ssa.FieldAddr:
			v = x.X
		case *ssa.IndexAddr:
			v = x.X
		case *ssa.Slice:
			v = x.X
		default:
			return nil
		}
	}
	return nil
}

// freshLocalStore: the address lies in a slice made by this very function
// (make([]T, n) filled by index): memory no caller can observe before the return.
func freshLocalStore(addr ssa.Value, fn *ssa.Function) bool {
	for i := 0; i < 10; i++ {
		switch x := addr.(type) {
		case *ssa.IndexAddr:
			addr = x.X
		case *ssa.FieldAddr:
			addr = x.X
		case *ssa.Slice:
			addr = x.X
		case *ssa.MakeSlice:
			return x.Parent() == fn
		default:
			return false
		}
	}
	return false
}

func (a *ordA) pure(fn *ssa.Function) bool {
	if fn == nil {
		return false
	}
	if fn.Blocks == nil {
		return pureExternal(a.c.fname(fn))
	}
	if fn.Pkg != a.c.Pkg && (fn.Parent() == nil || fn.Parent().Pkg != a.c.Pkg) {
		return pureExternal(a.c.fname(fn))
	}
	if why, ok := ordBenign[a.c.fname(fn)]; ok {
		_ = why
		return true
	}
	switch a.pureMemo[fn] {
	case 1:
		return true
	case 2:
		return false
	}
	a.pureMemo[fn] = 1
	ok := true
	for _, b := range fn.Blocks {
		for _, in := range b.Instrs {
			switch x := in.(type) {
			case *ssa.Store:
				if al := rootAlloc(x.Addr); al == nil || al.Parent() != fn {
					if !freshLocalStore(x.Addr, fn) {
						ok = false
					}
				}
			case *ssa.MapUpdate:
				if _, isLocal := a.c.resolve(x.Map).(*ssa.MakeMap); !isLocal {
					ok = false
				}
			case *ssa.Go, *ssa.Send, *ssa.Select:
				ok = false
			case ssa.CallInstruction:
				if !a.pureCall(x) && !localAccumulatorCall(a.c, x, fn) {
					ok = false
				}
			}
		}
	}
	if !ok {
		a.pureMemo[fn] = 2
	}
	return ok
}

func (a *ordA) pureCall(ci ssa.CallInstruction) bool {
	cc := ci.Common()
	if cal := cc.StaticCallee(); cal != nil {
		return a.pure(cal)
	}
	n := a.c.calleeName(cc)
	if n != "" {
		return pureExternal(n)
	}
	return false
}

// ---- value families -------------------------------------------------------------

type dsu struct{ p map[ssa.Value]ssa.Value }

func (d *dsu) find(v ssa.Value) ssa.Value {
	if d.p[v] == nil {
		d.p[v] = v
		return v
	}
	for d.p[v] != v {
		d.p[v] = d.p[d.p[v]]
		v = d.p[v]
	}
	return v
}
func (d *dsu) union(a, b ssa.Value) {
	if a == nil || b == nil {
		return
	}
	ra, rb := d.find(a), d.find(b)
	if ra != rb {
		d.p[ra] = rb
	}
}

func isSliceT(t types.Type) bool {
	_, ok := t.Underlying().(*types.Slice)
	return ok
}

func (a *ordA) families(fn *ssa.Function) *dsu {
	d := &dsu{p: map[ssa.Value]ssa.Value{}}
	for _, b := range fn.Blocks {
		for _, in := range b.Instrs {
			switch x := in.(type) {
			case *ssa.Phi:
				for _, e := range x.Edges {
					if k, isC := e.(*ssa.Const); isC && k.Value == nil {
						continue
					}
					d.union(x, e)
				}
			case *ssa.ChangeType:
				d.union(x, x.X)
			case *ssa.Convert:
				d.union(x, x.X)
			case *ssa.MakeInterface:
				d.union(x, x.X)
			case *ssa.Slice:
				if x.Low == nil && x.High == nil {
					d.union(x, x.X)
				}
			case *ssa.Call:
				if bi, ok := x.Call.Value.(*ssa.Builtin); ok && bi.Name() == "append" {
					d.union(x, x.Call.Args[0])
				}
			case *ssa.UnOp:
				if x.Op == token.MUL {
					if al, ok := x.X.(*ssa.Alloc); ok {
						d.union(x, al)
					}
				}
			case *ssa.Store:
				if al, ok := x.Addr.(*ssa.Alloc); ok {
					if k, isC := x.Val.(*ssa.Const); !(isC && k.Value == nil) {
						d.union(x.Val, al)
					}
				}
			}
		}
	}
	return d
}

type taint struct {
	why   string
	sites []ssa.Instruction // where order enters the family
}

type uloop struct {
	loop  *Loop
	kind  string // "range map" | "range unsorted slice"
	src   string
	iterK []ssa.Value // distinct-per-iteration values (map key; slice index)
	iterV []ssa.Value // other per-iteration values
	at    ssa.Instruction
}

func (a *ordA) analyzeFn(fn *ssa.Function) {
	c := a.c
	d := a.families(fn)
	loops := loopsOf(fn)
	tainted := map[ssa.Value]*taint{} // by family representative
	fname := c.fname(fn)
	addTaint := func(v ssa.Value, why string, site ssa.Instruction) bool {
		r := d.find(v)
		t := tainted[r]
		if t == nil {
			t = &taint{why: why}
			tainted[r] = t
		}
		for _, s := range t.sites {
			if s == site {
				return false
			}
		}
		t.sites = append(t.sites, site)
		return true
	}
	rep := a.report
	isSanitiser := func(in ssa.Instruction, fam ssa.Value) bool {
		ci, ok := in.(ssa.CallInstruction)
		if !ok {
			return false
		}
		if _, ok := ordSanitisers[c.calleeName(ci.Common())]; !ok {
			return false
		}
		if len(ci.Common().Args) == 0 {
			return false
		}
		return d.find(ci.Common().Args[0]) == fam
	}
	// unsanitised(use): is there a path from a taint site of fam to use not passing a sanitiser?
	unsanitised := func(fam ssa.Value, use ssa.Instruction) bool {
		t := tainted[fam]
		for _, s := range t.sites {
			st := siteOf(s)
			// a path that skips the sorter because the slice has at most one element needs no sort
			q := &PathQ{c: c, Fn: fn, CutIn: func(in ssa.Instruction) bool { return isSanitiser(in, fam) },
				CutEdge: func(b *ssa.BasicBlock, si int) bool {
					return atMostOneEdge(b, si, func(v ssa.Value) bool { return d.find(v) == fam })
				}}
			if _, found := q.Reach(Site{st.B, st.I + 1}, factUnknown, func(in ssa.Instruction) bool { return in == use }); found {
				return true
			}
		}
		return false
	}

	// primitives and direct sources
	var uloops []*uloop
	seenLoop := map[*ssa.BasicBlock]bool{}
	for _, b := range fn.Blocks {
		for _, in := range b.Instrs {
			switch x := in.(type) {
			case *ssa.Go:
				if rep != nil {
					rep.Fail("ORD-prim", fname, "go statement", c.ipos(in), "goroutine scheduling is a nondeterminism source")
				}
			case *ssa.Select:
				if rep != nil {
					rep.Fail("ORD-prim", fname, "select statement", c.ipos(in), "select is a nondeterminism source")
				}
			case *ssa.Range:
				if _, isMap := x.X.Type().Underlying().(*types.Map); isMap {
					a.sources++
					// find Next
					var next *ssa.Next
					for _, r := range *x.Referrers() {
						if n, ok := r.(*ssa.Next); ok {
							next = n
						}
					}
					if next == nil {
						if rep != nil {
							rep.Undec("ORD-source", fname, "range map "+c.term(x.X), c.ipos(in), "no Next instruction found for range")
						}
						continue
					}
					l := loopWithHeader(loops, next.Block())
					if l == nil {
						if rep != nil {
							rep.Undec("ORD-source", fname, "range map "+c.term(x.X), c.ipos(in), "range loop not recognised as natural loop")
						}
						continue
					}
					ul := &uloop{loop: l, kind: "range map", src: "range map " + c.term(x.X), at: in}
					for _, r := range *next.Referrers() {
						if e, ok := r.(*ssa.Extract); ok {
							if e.Index == 1 {
								ul.iterK = append(ul.iterK, e)
							} else if e.Index == 2 {
								ul.iterV = append(ul.iterV, e)
							}
						}
					}
					seenLoop[l.Header] = true
					uloops = append(uloops, ul)
				}
			case *ssa.Call:
				n := c.calleeName(x.Common())
				switch {
				case n == "(reflect.Value).MapKeys":
					a.sources++
					addTaint(x, "reflect MapKeys order", x)
				case n == "(reflect.Value).MapRange":
					a.sources++
					if rep != nil {
						rep.Fail("ORD-prim", fname, "reflect MapRange", c.ipos(in), "MapRange iterates in map order; no rule accepts it")
					}
				case strings.HasPrefix(n, "math/rand."):
					if rep != nil {
						rep.Fail("ORD-prim", fname, "math/rand", c.ipos(in), "random source")
					}
				case n == "time.Now":
					a.sources++
					if rep != nil {
						if fname == "(*Parser).WriteManPage" {
							// the clock may reach the page only when SOURCE_DATE_EPOCH is empty: every use of the reading
							// is a phi edge taken under `SOURCE_DATE_EPOCH == ""` (Requires on the edge's source)
							okClock := true
							why := ""
							if refs := x.Referrers(); refs != nil {
								for _, ref := range *refs {
									switch u := ref.(type) {
									case *ssa.DebugRef:
									case *ssa.Phi:
										for i, e := range u.Edges {
											if e != ssa.Value(x) {
												continue
											}
											pred := u.Block().Preds[i]
											m := litIs(`nonempty(call:os.Getenv("SOURCE_DATE_EPOCH"))`, false)
											if l, ok := c.edgeLitTo(pred, u.Block()); ok && m(l) {
												continue
											}
											if _, ok := c.Requires(in.Parent(), isInstr(pred.Instrs[len(pred.Instrs)-1]), m, nil); !ok {
												okClock = false
												why = "the clock value is selected at " + c.ipos(u) + " on a path where SOURCE_DATE_EPOCH is set"
											}
										}
									default:
										okClock = false
										why = "the clock value is used at " + c.ipos(ref) + " regardless of SOURCE_DATE_EPOCH"
									}
								}
							}
							if !okClock {
								rep.Fail("ORD-source", fname, "time.Now", c.ipos(in), "the wall clock reaches the man page although SOURCE_DATE_EPOCH is set (same environment, different output): "+why)
								continue
							}
							rep.Allow("ORD-source", fname, "time.Now", c.ipos(in), "the man page date is an input (clock / SOURCE_DATE_EPOCH) at day granularity — recorded assumption, not an incidental order")
						} else {
							rep.Fail("ORD-source", fname, "time.Now", c.ipos(in), "wall clock read")
						}
					}
				default:
					if cal := x.Common().StaticCallee(); cal != nil && a.retTainted[cal] {
						a.sources++
						addTaint(x, "result of "+n+" carries map order", x)
					}
				}
			}
		}
	}

	// induction variable of a loop header: int phi whose in-loop edge is phi+const
	induction := func(l *Loop) map[ssa.Value]bool {
		out := map[ssa.Value]bool{}
		for _, in := range l.Header.Instrs {
			p, ok := in.(*ssa.Phi)
			if !ok {
				break
			}
			for i, e := range p.Edges {
				if !l.Blocks[l.Header.Preds[i]] {
					continue
				}
				if bo, ok := e.(*ssa.BinOp); ok && bo.Op == token.ADD && bo.X == ssa.Value(p) {
					if _, isC := bo.Y.(*ssa.Const); isC {
						out[p] = true
						out[bo] = true // `for i := range s` indexes by the incremented value
					}
				}
			}
		}
		return out
	}

	processed := map[*ssa.BasicBlock]bool{}
	changed := true
	for iter := 0; changed && iter < 10; iter++ {
		changed = false
		// loops indexing a tainted (unsanitised) family by induction variable
		for _, b := range fn.Blocks {
			for _, in := range b.Instrs {
				var X, idx ssa.Value
				switch x := in.(type) {
				case *ssa.IndexAddr:
					X, idx = x.X, x.Index
				case *ssa.Index:
					X, idx = x.X, x.Index
				default:
					continue
				}
				fam := d.find(X)
				if tainted[fam] == nil {
					continue
				}
				if _, isStore := storeThrough(in); isStore {
					continue // writes are handled as body effects
				}
				l := innermost(loops, b)
				for l != nil && !induction(l)[idx] {
					// look for an enclosing loop whose induction var is idx
					var outer *Loop
					for _, l2 := range loops {
						if l2 != l && l2.Blocks[b] && l2.size() > l.size() && induction(l2)[idx] {
							outer = l2
							break
						}
					}
					l = outer
				}
				if l == nil {
					// indexed by a constant or unrelated value: reading a fixed position of an unordered slice
					if !unsanitised(fam, in) {
						continue
					}
					if rep != nil {
						rep.Fail("ORD-escape", fname, "index of unordered slice "+c.term(X), c.ipos(in), "element at a fixed position of a slice in "+tainted[fam].why)
					}
					continue
				}
				if seenLoop[l.Header] {
					continue
				}
				if !unsanitised(fam, in) {
					continue
				}
				seenLoop[l.Header] = true
				ul := &uloop{loop: l, kind: "range unsorted slice", src: "range over slice in " + tainted[fam].why + ": " + c.term(X), at: in}
				for iv := range induction(l) {
					ul.iterK = append(ul.iterK, iv)
				}
				// element loads
				for bb := range l.Blocks {
					for _, in2 := range bb.Instrs {
						if ia, ok := in2.(*ssa.IndexAddr); ok && d.find(ia.X) == fam {
							for _, r := range *ia.Referrers() {
								if u, ok := r.(*ssa.UnOp); ok {
									ul.iterV = append(ul.iterV, u)
								}
							}
						}
					}
				}
				uloops = append(uloops, ul)
				changed = true
			}
		}
		for _, ul := range uloops {
			if processed[ul.loop.Header] {
				continue
			}
			processed[ul.loop.Header] = true
			changed = true
			a.loopEffects(fn, ul, d, loops, addTaint, induction(ul.loop))
		}
	}

	// escapes of tainted families
	retT := false
	var fams []ssa.Value
	for f := range tainted {
		fams = append(fams, f)
	}
	sort.Slice(fams, func(i, j int) bool { return fams[i].Pos() < fams[j].Pos() })
	for _, fam := range fams {
		t := tainted[fam]
		var members []ssa.Value
		for v := range d.p {
			if d.find(v) == fam {
				members = append(members, v)
			}
		}
		sort.Slice(members, func(i, j int) bool { return members[i].Pos() < members[j].Pos() })
		escapes, sanitisedUses := 0, 0
		for _, v := range members {
			refs := v.Referrers()
			if refs == nil {
				continue
			}
			for _, u := range *refs {
				desc := ""
				switch x := u.(type) {
				case *ssa.Return:
					if unsanitised(fam, u) {
						if isExportedFn(fn) {
							desc = "returned across the package API"
						} else {
							retT = true
							if rep != nil {
								rep.OK("ORD-flow", fname, "returns slice in "+t.why, c.ipos(u), "unexported: every caller is checked for sorting before escape (interprocedural)")
							}
						}
					} else {
						sanitisedUses++
					}
				case ssa.CallInstruction:
					n := c.calleeName(x.Common())
					if _, isSan := ordSanitisers[n]; isSan {
						continue
					}
					if n == "len" || n == "cap" || n == "append" {
						continue
					}
					if unsanitised(fam, u) {
						desc = "passed to " + n
						if n == "" {
							desc = "passed to a dynamic call"
						}
					} else {
						sanitisedUses++
					}
				case *ssa.Store:
					if x.Val == v {
						if al := rootAlloc(x.Addr); al != nil && al.Parent() == fn {
							continue
						}
						if unsanitised(fam, u) {
							desc = "stored to " + c.term(x.Addr)
						} else {
							sanitisedUses++
						}
					}
				case *ssa.MapUpdate:
					if x.Value == v || x.Key == v {
						if unsanitised(fam, u) {
							desc = "stored in a map"
						}
					}
				case *ssa.MakeClosure:
					// a comparator closure handed straight to a sorter is part of the sanitiser
					onlySort := x.Referrers() != nil && len(*x.Referrers()) > 0
					for _, r := range *x.Referrers() {
						ci, ok := r.(ssa.CallInstruction)
						if !ok {
							onlySort = false
							continue
						}
						if _, isSan := ordSanitisers[c.calleeName(ci.Common())]; !isSan {
							onlySort = false
						}
					}
					if !onlySort {
						desc = "captured by a closure"
					}
				case *ssa.Range:
					desc = "ranged"
				}
				if desc != "" {
					escapes++
					if rep != nil {
						rep.Fail("ORD-escape", fname, "slice in "+t.why+" "+desc, c.ipos(u), "order-carrying value escapes without passing a sort on every path (O1)")
					}
				}
			}
		}
		if rep != nil && escapes == 0 {
			rep.OK("ORD-O1", fname, "slice in "+t.why, c.ipos(t.sites[0]), fmt.Sprintf("sorted before every escape or only measured/returned to checked callers (%d sanitised uses)", sanitisedUses))
		}
	}
	if retT {
		a.retTainted[fn] = true
	}
	if rep != nil {
		for _, b := range fn.Blocks {
			for _, in := range b.Instrs {
				ci, ok := in.(ssa.CallInstruction)
				if !ok {
					continue
				}
				n := c.calleeName(ci.Common())
				if _, isSan := ordSanitisers[n]; !isSan || len(ci.Common().Args) == 0 {
					continue
				}
				fam := d.find(ci.Common().Args[0])
				if tainted[fam] == nil {
					continue
				}
				a.checkComparator(fn, ci, n)
			}
		}
	}
}

// injectiveKeyFns: transformations of a sort key accepted inside a comparator.
var injectiveKeyFns = map[string]string{
	"fmt.Sprint": "printed form of a map key: distinct keys of the supported key kinds print distinctly (NaN keys excepted — recorded assumption)",
}

// checkComparator: a sorter applied to an order-carrying slice must compare by
// a total order on what can occur: `key(e_i) < key(e_j)` with the same
// projection on both sides and no non-injective transformation of the key.
func (a *ordA) checkComparator(fn *ssa.Function, ci ssa.CallInstruction, sorter string) {
	c, rep := a.c, a.report
	fname := c.fname(fn)
	construct := "comparator of " + sorter
	switch sorter {
	case "sort.Strings", "sort.Ints", "sort.Float64s":
		rep.OKTrivial("ORD-total", fname, construct, c.ipos(ci), "natural order on the elements themselves")
		return
	}
	var less *ssa.Function
	iIdx, jIdx := 1, 2
	switch sorter {
	case "sort.Sort", "sort.Stable":
		v := ci.Common().Args[0]
		if mi, ok := v.(*ssa.MakeInterface); ok {
			v = mi.X
		}
		ms := c.Prog.MethodSets.MethodSet(v.Type())
		for k := 0; k < ms.Len(); k++ {
			if ms.At(k).Obj().Name() == "Less" {
				less = c.Prog.MethodValue(ms.At(k))
			}
		}
	case "sort.Slice", "sort.SliceStable":
		if len(ci.Common().Args) > 1 {
			if mc, ok := c.resolve(ci.Common().Args[1]).(*ssa.MakeClosure); ok {
				less, _ = mc.Fn.(*ssa.Function)
			} else if f, ok := c.resolve(ci.Common().Args[1]).(*ssa.Function); ok {
				less = f
			}
		}
		iIdx, jIdx = 0, 1
	}
	if less == nil || less.Blocks == nil {
		rep.Undec("ORD-total", fname, construct, c.ipos(ci), "comparator function not resolved")
		return
	}
	var rets []*ssa.Return
	for _, b := range less.Blocks {
		if r, ok := b.Instrs[len(b.Instrs)-1].(*ssa.Return); ok {
			rets = append(rets, r)
		}
	}
	if len(rets) != 1 || len(rets[0].Results) != 1 {
		rep.Undec("ORD-total", fname, construct, c.ipos(ci), "comparator "+c.fname(less)+" has more than one return; form not recognised")
		return
	}
	bo, ok := c.resolve(rets[0].Results[0]).(*ssa.BinOp)
	if !ok || (bo.Op != token.LSS && bo.Op != token.GTR) {
		rep.Fail("ORD-total", fname, construct, c.ipos(rets[0]), "comparator "+c.fname(less)+" is not a strict `<`/`>` on a key: "+c.term(rets[0].Results[0]))
		return
	}
	l, r := c.term(bo.X), c.term(bo.Y)
	pi, pj := fmt.Sprintf("P%d", iIdx), fmt.Sprintf("P%d", jIdx)
	if strings.ReplaceAll(l, pi, "#") != strings.ReplaceAll(r, pj, "#") {
		rep.Fail("ORD-total", fname, construct, c.ipos(rets[0]), "comparator sides use different projections: "+l+" vs "+r)
		return
	}
	// transformations of the key
	rest := l
	for {
		k := strings.Index(rest, "call:")
		if k < 0 {
			break
		}
		rest = rest[k+len("call:"):]
		name := rest
		if p := strings.Index(name, "("); p >= 0 {
			name = name[:p]
		}
		if _, ok := injectiveKeyFns[name]; !ok {
			rep.Fail("ORD-total", fname, construct, c.ipos(rets[0]), "comparator "+c.fname(less)+" transforms the key with "+name+", which can make distinct elements compare equal; an unstable sort then leaves them in input (map) order")
			return
		}
	}
	if strings.Contains(l, "invoke:") || strings.Contains(l, "dyncall") {
		rep.Fail("ORD-total", fname, construct, c.ipos(rets[0]), "comparator key goes through a dynamic call: "+l)
		return
	}
	rep.OK("ORD-total", fname, construct, c.ipos(ci), "strict order on one projection of both elements: "+strings.ReplaceAll(l, pi, "i"))
}

func isExportedFn(fn *ssa.Function) bool {
	if fn.Parent() != nil {
		return false
	}
	if !ast.IsExported(fn.Name()) {
		return false
	}
	if recv := fn.Signature.Recv(); recv != nil {
		return ast.IsExported(typeName(recv.Type()))
	}
	return true
}

// storeThrough reports whether addr value `in` (an IndexAddr) is only used as a store address.
func storeThrough(in ssa.Instruction) (ssa.Value, bool) {
	ia, ok := in.(*ssa.IndexAddr)
	if !ok {
		return nil, false
	}
	refs := ia.Referrers()
	if refs == nil || len(*refs) == 0 {
		return nil, false
	}
	for _, r := range *refs {
		if st, ok := r.(*ssa.Store); !ok || st.Addr != ssa.Value(ia) {
			return nil, false
		}
	}
	return ia, true
}

// derives reports whether v is computed from one of the iteration values using
// only values of the current iteration (operands defined in the loop) or
// loop-invariant ones.
func derivesFrom(v ssa.Value, iter map[ssa.Value]bool, depth int) bool {
	if iter[v] {
		return true
	}
	if depth > 12 {
		return false
	}
	in, ok := v.(ssa.Instruction)
	if !ok {
		return false
	}
	if _, isPhi := v.(*ssa.Phi); isPhi {
		return false
	}
	for _, op := range in.Operands(nil) {
		if *op != nil && derivesFrom(*op, iter, depth+1) {
			return true
		}
	}
	return false
}

func (a *ordA) loopEffects(fn *ssa.Function, ul *uloop, d *dsu, loops []*Loop, addTaint func(ssa.Value, string, ssa.Instruction) bool, ind map[ssa.Value]bool) {
	c := a.c
	rep := a.report
	fname := c.fname(fn)
	l := ul.loop
	iterK := map[ssa.Value]bool{}
	iterAll := map[ssa.Value]bool{}
	for _, v := range ul.iterK {
		iterK[v] = true
		iterAll[v] = true
	}
	for _, v := range ul.iterV {
		iterAll[v] = true
	}
	var problems []string
	var effects []string
	bad := func(in ssa.Instruction, what string) {
		problems = append(problems, what+" @"+c.ipos(in))
	}
	inLoopAlloc := func(al *ssa.Alloc) bool { return al != nil && al.Parent() == fn && l.Blocks[al.Block()] }

	// blocks in deterministic order
	var blocks []*ssa.BasicBlock
	for b := range l.Blocks {
		blocks = append(blocks, b)
	}
	sort.Slice(blocks, func(i, j int) bool { return blocks[i].Index < blocks[j].Index })

	// early exits
	for _, e := range l.exits() {
		if e.B == l.Header {
			continue
		}
		tgt := e.B.Succs[e.I]
		// exit into a block that only panics is not an observable order dependence
		if len(tgt.Instrs) > 0 {
			if _, isPanic := tgt.Instrs[len(tgt.Instrs)-1].(*ssa.Panic); isPanic {
				continue
			}
		}
		last := e.B.Instrs[len(e.B.Instrs)-1]
		bad(last, "early exit from the iteration (which iteration exits first depends on the order)")
	}
	// header phis
	for _, in := range l.Header.Instrs {
		p, ok := in.(*ssa.Phi)
		if !ok {
			break
		}
		if ind[p] {
			continue
		}
		carried := false
		allConstOrSelf := true
		for i, e := range p.Edges {
			if !l.Blocks[l.Header.Preds[i]] {
				continue
			}
			if e == ssa.Value(p) {
				continue
			}
			carried = true
			if _, isC := e.(*ssa.Const); !isC {
				allConstOrSelf = false
			}
		}
		if !carried {
			continue
		}
		if allConstOrSelf {
			effects = append(effects, "flag accumulator (constant) "+p.Comment)
			continue
		}
		if isSliceT(p.Type()) {
			// accumulate by append only
			okAcc := true
			for i, e := range p.Edges {
				if !l.Blocks[l.Header.Preds[i]] || e == ssa.Value(p) {
					continue
				}
				if d.find(e) != d.find(p) {
					okAcc = false
				}
			}
			if okAcc {
				addTaint(p, ul.src, in)
				effects = append(effects, "slice accumulator "+p.Comment+" (order-carrying)")
				continue
			}
		}
		bad(in, "loop-carried value "+p.Comment+" ("+relType(c, p.Type())+") is folded in iteration order")
	}
	for _, b := range blocks {
		for _, in := range b.Instrs {
			switch x := in.(type) {
			case *ssa.Store:
				al := rootAlloc(x.Addr)
				if inLoopAlloc(al) {
					continue // per-iteration temporary
				}
				if a2, isCell := x.Addr.(*ssa.Alloc); isCell {
					// store to a variable cell declared outside the loop
					if _, isC := x.Val.(*ssa.Const); isC {
						effects = append(effects, "flag cell (constant)")
						continue
					}
					if isSliceT(x.Val.Type()) && d.find(x.Val) == d.find(a2) {
						addTaint(a2, ul.src, in)
						effects = append(effects, "slice accumulator cell (order-carrying)")
						continue
					}
					bad(in, "variable assigned in iteration order (last writer wins): "+c.term(x.Val))
					continue
				}
				if ia, isIdx := x.Addr.(*ssa.IndexAddr); isIdx {
					if iterK[ia.Index] || derivesFrom(ia.Index, iterK, 0) {
						if isSliceT(ia.X.Type()) {
							addTaint(ia.X, ul.src, in)
							effects = append(effects, "indexed store by iteration counter into "+c.term(ia.X)+" (order-carrying)")
							continue
						}
					}
				}
				if fa, isF := x.Addr.(*ssa.FieldAddr); isF {
					if derivesFrom(fa.X, iterK, 0) {
						effects = append(effects, "store to field "+fieldName(fa.X.Type(), fa.Field)+" of the iteration key (keyed, O2)")
						continue
					}
				}
				bad(in, "store to non-local memory "+c.term(x.Addr)+" in iteration order (last writer wins)")
			case *ssa.MapUpdate:
				_, isLocal := c.resolve(x.Map).(*ssa.MakeMap)
				_, constVal := x.Value.(*ssa.Const)
				// is the map also READ inside the loop? then an iteration sees what earlier ones inserted
				readInLoop := false
				for _, b2 := range blocks {
					for _, in2 := range b2.Instrs {
						if lk, ok := in2.(*ssa.Lookup); ok && c.resolve(lk.X) == c.resolve(x.Map) {
							readInLoop = true
						}
						if rg, ok := in2.(*ssa.Range); ok && c.resolve(rg.X) == c.resolve(x.Map) {
							readInLoop = true
						}
					}
				}
				exactKey := false // the key is the iteration key itself (unique per iteration), untransformed
				for k := range iterK {
					if c.resolve(x.Key) == c.resolve(k) {
						exactKey = true
					}
				}
				uniq := map[ssa.Value]bool{}
				for k := range iterK {
					uniq[k] = true
				}
				if ul.kind == "range unsorted slice" && strings.Contains(ul.src, "MapKeys") {
					for _, v := range ul.iterV {
						uniq[v] = true // the elements of a MapKeys slice are the (distinct) keys of the map
					}
				}
				switch {
				case exactKey:
					effects = append(effects, "map insert keyed by the iteration key itself (O2)")
					continue
				case !readInLoop && a.injectiveOfIter(x.Key, uniq, in.Block(), 0):
					effects = append(effects, "map insert keyed by the printed form of the iteration key (injective for the supported key kinds; NaN keys excepted — recorded assumption)")
					continue
				case isLocal && constVal && !readInLoop:
					effects = append(effects, "insert of a constant into a local map not read by the loop (commutative)")
					continue
				case readInLoop:
					bad(in, "map "+c.term(x.Map)+" is both written and read inside the unordered loop: what an iteration sees depends on the ones before it (first-wins / last-wins)")
				default:
					bad(in, "map update "+c.term(x.Map)+" keyed by "+trunc(c.term(x.Key), 60)+" in iteration order (colliding keys: last writer wins)")
				}
			case *ssa.Go, *ssa.Send, *ssa.Defer:
				bad(in, "go/send/defer inside unordered iteration")
			case ssa.CallInstruction:
				if !a.pureCall(x) {
					n := c.calleeName(x.Common())
					if n == "" {
						n = "dynamic call " + c.term(x.Common().Value)
					}
					bad(in, "calls "+n+" (side effects happen in iteration order)")
				}
			}
		}
	}
	if rep == nil {
		return
	}
	construct := ul.src
	if len(problems) > 0 {
		if len(problems) > 4 {
			problems = append(problems[:4], fmt.Sprintf("… and %d more", len(problems)-4))
		}
		rep.Fail("ORD-source", fname, construct, c.ipos(ul.at), "neither O1 nor O2: "+strings.Join(problems, "; "))
	} else {
		rep.OK("ORD-source", fname, construct, c.ipos(ul.at), "body is order-insensitive: "+strings.Join(dedup(effects), "; "))
	}
}

func dedup(ss []string) []string {
	seen := map[string]bool{}
	var out []string
	for _, s := range ss {
		if !seen[s] {
			seen[s] = true
			out = append(out, s)
		}
	}
	if len(out) == 0 {
		out = []string{"no side effects"}
	}
	return out
}

// runORD runs the whole-package analysis. Summary phase to a fixpoint, then a
// reporting phase.
func runORD(c *Ctx, r *Report) *ordA {
	a := &ordA{c: c, retTainted: map[*ssa.Function]bool{}, pureMemo: map[*ssa.Function]int{}}
	for i := 0; i < 8; i++ {
		before := len(a.retTainted)
		for _, fn := range c.Funcs {
			a.analyzeFn(fn)
		}
		if len(a.retTainted) == before {
			break
		}
	}
	a.report = r
	a.sources = 0
	for _, fn := range c.Funcs {
		a.analyzeFn(fn)
	}
	return a
}

// injectiveOfIter: v is a distinct-per-iteration value, its printed form (fmt.Sprint / convertToString),
// or a slot S[i] that the same block has just filled with such a value.
func (a *ordA) injectiveOfIter(v ssa.Value, uniq map[ssa.Value]bool, blk *ssa.BasicBlock, depth int) bool {
	c := a.c
	if depth > 4 {
		return false
	}
	if uniq[v] || uniq[c.resolve(v)] {
		return true
	}
	switch x := v.(type) {
	case *ssa.Extract:
		if call, ok := x.Tuple.(*ssa.Call); ok && x.Index == 0 && c.calleeName(call.Common()) == "convertToString" {
			return a.injectiveOfIter(call.Call.Args[0], uniq, blk, depth+1)
		}
	case *ssa.Call:
		if _, ok := injectiveKeyFns[c.calleeName(x.Common())]; ok && len(x.Call.Args) == 1 {
			for _, e := range sliceLitElems(x.Call.Args[0]) {
				return a.injectiveOfIter(e, uniq, blk, depth+1)
			}
		}
	case *ssa.MakeInterface:
		return a.injectiveOfIter(x.X, uniq, blk, depth+1)
	case *ssa.UnOp:
		if x.Op != token.MUL {
			return false
		}
		ia, ok := x.X.(*ssa.IndexAddr)
		if !ok {
			// a per-iteration variable cell holding the element
			if r := c.resolve(x); r != ssa.Value(x) {
				return a.injectiveOfIter(r, uniq, blk, depth+1)
			}
			return false
		}
		for _, in := range blk.Instrs {
			st, ok := in.(*ssa.Store)
			if !ok {
				continue
			}
			ia2, ok := st.Addr.(*ssa.IndexAddr)
			if ok && ia2.X == ia.X && ia2.Index == ia.Index {
				return a.injectiveOfIter(st.Val, uniq, blk, depth+1)
			}
		}
	}
	return false
}

// atMostOneEdge: taking successor si of b establishes len(v) ≤ 1 for a value v accepted by inFam.
func atMostOneEdge(b *ssa.BasicBlock, si int, inFam func(ssa.Value) bool) bool {
	iff, ok := b.Instrs[len(b.Instrs)-1].(*ssa.If)
	if !ok {
		return false
	}
	bo, ok := iff.Cond.(*ssa.BinOp)
	if !ok {
		return false
	}
	x, y, op := bo.X, bo.Y, bo.Op
	if _, isLen := isLenCall(y); isLen { // k OP len(v)  →  len(v) OP' k
		x, y = y, x
		switch op {
		case token.LSS:
			op = token.GTR
		case token.GTR:
			op = token.LSS
		case token.LEQ:
			op = token.GEQ
		case token.GEQ:
			op = token.LEQ
		}
	}
	v, isLen := isLenCall(x)
	k, isK := constInt(y)
	if !isLen || !isK || !inFam(v) {
		return false
	}
	truth := si == 0 // the edge taken when the condition holds
	switch op {
	case token.GTR: // len > k
		return !truth && k <= 1
	case token.GEQ: // len >= k
		return !truth && k <= 2
	case token.LSS: // len < k
		return truth && k <= 2
	case token.LEQ: // len <= k
		return truth && k <= 1
	case token.EQL: // len == k
		return truth && k <= 1
	case token.NEQ:
		return !truth && k <= 1
	}
	return false
}

// localAccumulatorCall: a method call on a strings.Builder / bytes.Buffer that is a local variable of fn
// and is used only as the receiver of such calls: its effects are confined to fn's own invocation, so a
// caller observes none. (Inside fn itself the write order still matters: the loop-body rule O2 does not use this.)
func localAccumulatorCall(c *Ctx, ci ssa.CallInstruction, fn *ssa.Function) bool {
	n := c.calleeName(ci.Common())
	if !strings.HasPrefix(n, "(*strings.Builder).") && !strings.HasPrefix(n, "(*bytes.Buffer).") {
		return false
	}
	al, ok := ci.Common().Args[0].(*ssa.Alloc)
	if !ok || al.Parent() != fn || al.Referrers() == nil {
		return false
	}
	for _, ref := range *al.Referrers() {
		switch r := ref.(type) {
		case *ssa.DebugRef:
		case ssa.CallInstruction:
			rn := c.calleeName(r.Common())
			if !(strings.HasPrefix(rn, "(*strings.Builder).") || strings.HasPrefix(rn, "(*bytes.Buffer).")) || r.Common().Args[0] != ssa.Value(al) {
				return false
			}
		case *ssa.Store:
			if r.Addr != ssa.Value(al) { // the variable's address is stored somewhere
				return false
			}
		default:
			return false
		}
	}
	return true
}
