package main

import (
	"fmt"
	"go/types"
	"strings"

	"golang.org/x/tools/go/ssa"
)

func init() {
	register(&Property{
		Meta: PropMeta{
			ID:          "C02",
			Level:       "other",
			Explanation: "Structural necessary conditions of 'all documented spellings are interchangeable', decided on the SSA of /repo for all paths: (FUNNEL) parseOption is called only by parseLong and parseShort and Option.Set only by parseOption, setDefault and the INI reader, so every spelling ends in the same Set; the string handed to Set on the argument path is the inline argument or the popped next token, through unquoteIfPossible only; (UNQUOTE) unquoteIfPossible is called only in parseOption, after the two argument sources merge, guarded by nothing but the unquote tag, and Set(&arg) cannot be reached without it unless the tag says false; (ADMISSIBLE) the option-looking / custom-validator / `--` vetting of an argument is reachable only for the separate-token form (argument == nil); (SPLIT) splitOption separates at the first '=' (strings.Index), name = option[:pos], argument = option[pos+1:], the long form accepts any pos ≥ 0 and the short form exactly pos == encoded length of the first character; (RUNES) splitShortConcatArg splits after the first rune by its decoded width, parseShort names options by string(rune) and its last-rune test is byte offset + RuneLen == len, and the UNIT analysis finds no bytes/characters mix in these functions; (CLUSTER) only the first option of a cluster can receive the attached argument (nil on every back edge) and only the last may pop the next token, and only when its argument is not optional; (NEGATIVE) the negative-number exception unwraps every slice/pointer layer (loops in isSignedNumber and isBool) and requires a leading '-' followed by a digit.",
			NotDecided:  "equality of the outcomes of two spellings (a relation between two executions); the documented exceptions' exact extent on every value.",
			Trusted:     []string{"go/ssa lowering", "go/types", "strings.Index / utf8 contracts"},
		},
		Run:      runC02,
		Controls: []string{"path-req", "path-cd", "unit-mix"},
	})
}

func runC02(c *Ctx, r *Report, tier string) {
	r.Rule("FUNNEL", "who calls parseOption and Option.Set; the value handed to Set on the argument path", 6)
	r.Rule("UNQUOTE", "unquoteIfPossible only in parseOption, after the merge, guarded only by the unquote tag; Set(&arg) cannot bypass it", 4)
	r.Rule("ADMISSIBLE", "argument vetting only for the separate-token form; refusal only by the validator or (PassDoubleDash) the terminator", 4)
	r.Rule("SPLIT", "split at the first '='; name/argument slices; long: pos ≥ 0, short: pos == width of the first character", 4)
	r.Rule("RUNES", "short names are handled as runes with their encoded width; the token is split exactly when the first rune is an argument-taking option followed by more bytes", 8)
	r.Rule("CLUSTER", "attached argument only for the first option; next token only for the last, non-optional one (short) / the non-optional one (long)", 4)
	r.Rule("NEGATIVE", "negative-number exception: all layers unwrapped; '-' followed by a digit", 3)

	po := c.mustFn(r, "(*Parser).parseOption")
	ps := c.mustFn(r, "(*Parser).parseShort")
	so := c.mustFn(r, "splitOption")
	set := c.mustFn(r, "(*Option).Set")
	uq := c.mustFn(r, "unquoteIfPossible")
	ivv := c.mustFn(r, "(*Option).isValidValue")
	if po == nil || ps == nil || so == nil || set == nil || uq == nil || ivv == nil {
		return
	}
	pon := c.fname(po)

	// FUNNEL
	sites, asV := c.callersOf(po)
	for _, s := range sites {
		n := c.fname(s.Fn)
		okc := false
		for _, o := range c.ownerNames(s.Fn) {
			okc = o == "(*Parser).parseLong" || o == "(*Parser).parseShort"
			if !okc {
				break
			}
		}
		r.Check(okc, "FUNNEL", n, "caller of parseOption", c.ipos(s.Call), "parseLong / parseShort", "parseOption called from "+n)
	}
	r.Check(len(asV) == 0 && len(sites) == 2, "FUNNEL", pon, "parseOption call sites", c.pos(po.Pos()), "two direct callers, never used as a value", fmt.Sprintf("%d call sites, %d value uses", len(sites), len(asV)))
	sites, _ = c.callersOf(set)
	for _, s := range sites {
		n := c.fname(s.Fn)
		ok := false
		for _, o := range c.ownerNames(s.Fn) { // a helper extracted from an allowed caller acts on its behalf
			ok = o == "(*Parser).parseOption" || o == "(*Option).setDefault" || o == "(*IniParser).parse"
			if !ok {
				break
			}
		}
		r.Check(ok, "FUNNEL", n, "caller of Option.Set", c.ipos(s.Call), "parseOption / setDefault / IniParser.parse", "Option.Set called from "+n)
	}
	// the argument-path Set: operand is the address of a cell whose stores are *argument, pop(), unquote result
	var argSet *ssa.Call
	for _, in := range c.instrs(po, c.isCallTo("(*Option).Set")) {
		call := in.(*ssa.Call)
		if al, ok := call.Call.Args[1].(*ssa.Alloc); ok && relType(c, al.Type()) == "*string" && al.Comment == "arg" {
			argSet = call
		} else if al, ok := call.Call.Args[1].(*ssa.Alloc); ok {
			// any string cell that receives *argument
			stores, _ := c.cellStores(al)
			for _, st := range stores {
				if c.term(st.Val) == "*(P5)" {
					argSet = call
				}
			}
		}
	}
	if argSet == nil {
		r.Fail("FUNNEL", pon, "Set(&arg) on the argument path", "", "not found")
	} else {
		al := argSet.Call.Args[1].(*ssa.Alloc)
		stores, _ := c.cellStores(al)
		okAll := len(stores) > 0
		var vals []string
		for _, st := range stores {
			t := c.term(st.Val)
			vals = append(vals, trunc(t, 50))
			switch {
			case t == "*(P5)", t == "call:(*parseState).pop(P1)", strings.HasPrefix(t, "call:unquoteIfPossible(cell:string)#0"):
			case t == "phi{*(P5) | call:(*parseState).pop(P1)}", t == "phi{call:(*parseState).pop(P1) | *(P5)}":
				// the two sources already merged (the cell is the by-value parameter of a helper)
			case t == "phi{call:unquoteIfPossible(cell:string)#0 | cell:string}":
				// a helper that returns the argument either unquoted or unchanged (unquote:"false")
			case argSourcesOnly(t):
				// the two sources merged by a helper; a helper returning ("", err) on its failure exits contributes
				// an empty member that never reaches Set
			case t == `phi{"" | call:(*parseState).pop(P1)}`, t == `phi{call:(*parseState).pop(P1) | ""}`:
				// a helper returning ("", err) on its failure exits: the empty member never reaches Set
			default:
				okAll = false
			}
		}
		r.Check(okAll, "FUNNEL", pon, "value handed to Set", c.ipos(argSet), "the cell holds only {*argument, pop(), unquoteIfPossible(itself)}: "+strings.Join(vals, ", "), "the argument cell is also assigned "+strings.Join(vals, ", "))
	}

	// UNQUOTE
	sites, _ = c.callersOf(uq)
	for _, s := range sites {
		r.Check(c.actsFor(s.Fn, po), "UNQUOTE", c.fname(s.Fn), "caller of unquoteIfPossible", c.ipos(s.Call), "parseOption only: one place for every spelling", "unquoteIfPossible called from "+c.fname(s.Fn))
	}
	for _, in := range c.instrs(po, c.isCallTo("unquoteIfPossible")) {
		// guards: beyond those of the merge point, only the tag test
		var merge *ssa.BasicBlock
		for _, b := range c.blocks(po) {
			if iff, ok := b.Instrs[len(b.Instrs)-1].(*ssa.If); ok && strings.Contains(c.cond(iff.Cond).Term, `call:(*multiTag).Get(&Option.tag(P3), "unquote")`) {
				merge = b
			}
		}
		if merge == nil {
			r.Fail("UNQUOTE", pon, "unquote tag test", c.ipos(in), "no test of the unquote tag found")
			continue
		}
		tagTest := merge
		if merge.Parent() != po {
			// the tag test lives in a helper: the merge point is the block of the helper's call in parseOption
			if _, chain := c.callChain(merge.Parent()); len(chain) > 0 && chain[0].Parent() == po {
				merge = chain[0].Block()
			}
		}
		base := map[CtlDep]bool{}
		for _, d := range c.controlDeps(po, merge) {
			base[d] = true
		}
		var extra []string
		for _, d := range c.controlDeps(po, in.Block()) {
			if base[d] || d.B == merge || d.B == tagTest {
				continue
			}
			if l, ok := c.edgeLit(d.B, d.Succ); ok {
				extra = append(extra, l.String())
			}
		}
		r.Check(len(extra) == 0, "UNQUOTE", pon, "unquoting does not depend on the spelling", c.ipos(in), "beyond reaching the merge of both argument sources, guarded only by the unquote tag", "additional guard: "+strings.Join(extra, "; "))
		merged := len(merge.Preds) >= 2
		if !merged {
			// the two sources may have been merged earlier (by a helper): the value being unquoted then carries both
			if call, ok := in.(ssa.CallInstruction); ok && len(call.Common().Args) > 0 {
				ts := c.term(call.Common().Args[0])
				if u, ok := call.Common().Args[0].(*ssa.UnOp); ok {
					if al, ok := u.X.(*ssa.Alloc); ok {
						stores, _ := c.cellStores(al)
						for _, st := range stores {
							ts += " " + c.term(st.Val)
						}
					}
				}
				merged = strings.Contains(ts, "*(P5)") && strings.Contains(ts, "call:(*parseState).pop(P1)")
			}
		}
		r.Check(merged, "UNQUOTE", pon, "unquoting sits after the merge of inline and separate arguments", c.ipos(in), fmt.Sprintf("merge block has %d predecessors", len(merge.Preds)), "the unquote test is not at a merge of the argument sources")
	}
	if argSet != nil {
		path, ok := c.MustPass(po, isInstr(argSet), c.isCallTo("unquoteIfPossible"), litHas(true, `eq("false", call:(*multiTag).Get(&Option.tag(P3), "unquote"))`), nil)
		r.Check(ok, "UNQUOTE", pon, "Set(&arg) only after unquoting (unless unquote:\"false\")", c.ipos(argSet), "every path passes unquoteIfPossible or the tag's false edge", "Set reachable without unquoting: "+pathStr(path))
	}

	// the separate token is vetted as it was typed: unquoting never precedes the vetting
	for _, uqc := range c.instrs(po, c.isCallTo("unquoteIfPossible")) {
		for _, v := range c.instrs(po, c.isCallTo("(*Option).isValidValue")) {
			r.Check(!c.reachableFrom(po, uqc, isInstr(v)), "ADMISSIBLE", pon, "vetting sees the token before unquoting", c.ipos(v), "isValidValue is not reachable after unquoteIfPossible", "the popped token is unquoted first and vetted afterwards: a quoted literal such as \"-v\" is rejected as an option although the inline spellings accept it")
		}
	}
	// ADMISSIBLE
	for _, in := range c.instrs(po, c.isCallTo("(*Option).isValidValue")) {
		c.reqRule(r, "ADMISSIBLE", po, in, "isValidValue only for a popped token", litHas(false, "nonnil(P5)"), "argument == nil", nil)
	}
	for _, b := range c.blocks(po) {
		if iff, ok := b.Instrs[len(b.Instrs)-1].(*ssa.If); ok && strings.HasPrefix(c.cond(iff.Cond).Term, `eq("--", `) {
			c.reqRule(r, "ADMISSIBLE", po, iff, "`--` test only for a popped token", litHas(false, "nonnil(P5)"), "argument == nil", nil)
		}
	}

	// SPLIT
	son := c.fname(so)
	pos := `index(P1, "=")`
	nIdx := 0
	for _, in := range c.instrs(so, c.isCallTo("strings.Index", "strings.LastIndex", "strings.IndexByte", "strings.IndexRune", "strings.LastIndexByte", "strings.IndexAny")) {
		nIdx++
		r.Check(c.term(in.(*ssa.Call)) == pos, "SPLIT", son, "separator position", c.ipos(in), "strings.Index(option, \"=\"): the first '='", "position computed by "+c.term(in.(*ssa.Call)))
	}
	for _, in := range c.instrs(so, c.isCallTo("strings.SplitN", "strings.Split", "strings.Cut")) {
		nIdx++
		a := in.(*ssa.Call).Call.Args
		okS := c.calleeName(&in.(*ssa.Call).Call) != "strings.Split" && c.term(a[0]) == "P1" && c.term(a[1]) == `"="` && (len(a) < 3 || c.term(a[2]) == "2")
		r.Check(okS, "SPLIT", son, "separator position", c.ipos(in), "SplitN(option, \"=\", 2) / Cut(option, \"=\"): the first '='", "split computed by "+trunc(c.term(in.(*ssa.Call)), 80))
	}
	r.Check(nIdx == 1, "SPLIT", son, "one search", c.pos(so.Pos()), "one", fmt.Sprintf("%d", nIdx))
	widthEq := anyLit(litEq(pos, "call:unicode/utf8.DecodeRuneInString(P1)#1", true), litEq(`len(before(P1, "="))`, "call:unicode/utf8.DecodeRuneInString(P1)#1", true))
	for _, ret := range returnsOf(so) {
		t0 := c.term(ret.Results[0])
		if t0 == "P1" {
			// the whole word is the name only when the split condition fails: (¬islong ∨ no '=') ∧ (islong ∨ pos ≠ width)
			widthNe := anyLit(litEq(pos, "call:unicode/utf8.DecodeRuneInString(P1)#1", false), litEq(`len(before(P1, "="))`, "call:unicode/utf8.DecodeRuneInString(P1)#1", false), litIs("lt(0, "+pos+")", false), litIs("eq(0, "+pos+")", true), litIs("nonzero("+pos+")", false), litIs(`nonempty(before(P1, "="))`, false), litIs(`has(P1, "=")`, false))
			_, nl := c.Requires(so, isInstr(ret), anyLit(litIs("P2", false), litIs(`has(P1, "=")`, false)), nil)
			_, ns := c.Requires(so, isInstr(ret), anyLit(litIs("P2", true), widthNe), nil)
			r.Check(nl && ns, "SPLIT", son, "the word is left whole only when it has no separator at an admissible position", c.ipos(ret), "REQ(¬islong ∨ no '=') ∧ REQ(islong ∨ pos ≠ width of the first character)", fmt.Sprintf("long-side=%v short-side=%v: an inline argument (`-x=`, `--n=`) can be left attached to the name", nl, ns))
			continue
		}
		okN := t0 == `before(P1, "=")`
		okA := false
		if al, ok := ret.Results[2].(*ssa.Alloc); ok {
			stores, _ := c.cellStores(al)
			for _, st := range stores {
				if c.term(st.Val) == `after(P1, "=")` {
					okA = true
				}
			}
		}
		r.Check(okN && okA, "SPLIT", son, "name = option[:pos], argument = option[pos+1:]", c.ipos(ret), "both slices at the same position", fmt.Sprintf("name=%s argument ok=%v", trunc(t0, 60), okA))
		// guard: (islong ∧ pos ≥ 0) ∨ (¬islong ∧ pos == width of first rune)
		_, g := c.Requires(so, isInstr(ret), anyLit(
			litIs(`has(P1, "=")`, true),
			widthEq,
		), nil)
		_, gl := c.Requires(so, isInstr(ret), anyLit(litIs("P2", true), widthEq), nil)
		_, gs := c.Requires(so, isInstr(ret), anyLit(litIs("P2", false), litIs(`has(P1, "=")`, true)), nil)
		r.Check(g && gl && gs, "SPLIT", son, "long: pos ≥ 0; short: pos == width of the first character", c.ipos(ret), "REQ((islong ∧ pos ≥ 0) ∨ (¬islong ∧ pos == DecodeRune width))", fmt.Sprintf("pos-guard=%v long-side=%v short-side=%v", g, gl, gs))
	}

	// RUNES: the concatenated short form (-xVALUE). The rules are stated over parseShort with splitShortConcatArg
	// looked through (transparentKnown), so they hold whether the split lives in the helper or in parseShort itself.
	cs := c.concatSplit(ps)
	psn0 := c.fname(ps)
	wTerm, lTerm := "call:unicode/utf8.DecodeRuneInString(P2)#1", "len(P2)"
	firstT := "conv[string](call:unicode/utf8.DecodeRuneInString(P2)#0)"
	optTerm := "lookup(lookup.shortNames(&parseState.lookup(P1)), " + firstT + ")"
	if cs.clusterV == nil || cs.split == nil {
		r.Fail("RUNES", psn0, "concatenated-argument split", c.pos(ps.Pos()), cs.why)
	} else {
		S := cs.split
		r.Check(len(cs.otherSlices) == 0, "RUNES", psn0, "attached argument starts after the first rune", c.ipos(S), "first = string(rune), argument = optname[width:]", "the attached argument is cut at "+strings.Join(cs.otherSlices, ", ")+" instead of the first rune's encoded width")
		{
			path, g := c.Requires(ps, isInstr(S), anyLit(litEq(wTerm, lTerm, false), litIs("lt("+wTerm+", "+lTerm+")", true)), nil)
			r.Check(g, "RUNES", psn0, "split only when something follows the first rune", c.ipos(S), "REQ(width of the first rune ≠ len(optname))", "a lone multi-byte short option gets an empty attached argument: "+pathStr(path))
		}
		{
			_, g := c.Requires(ps, isInstr(S), litIs("call:(*Option).canArgument("+optTerm+")", true), nil)
			r.Check(g, "RUNES", psn0, "split only when the first rune names an argument-taking option", c.ipos(S), "REQ(lookup(first).canArgument())", "the concatenated argument is split off without checking that the first rune takes an argument")
		}
		c.reqRule(r, "CLUSTER", ps, S, "concatenated form considered only without an inline argument", litHas(false, "nonnil(P3)"), "argument == nil", nil)
		// the names walked afterwards: the whole token, or the first rune alone — the latter exactly together with the split
		reasons := anyLit(litIs("nonnil(P3)", true), litEq(wTerm, lTerm, true), litIs("nonnil("+optTerm+")", false), litIs("call:(*Option).canArgument("+optTerm+")", false),
			litEq("len(P2)", "1", true), litEq("len(P2)", "0", true), litIs("lt(len(P2), 2)", true), litIs("lt(1, len(P2))", false))
		nWhole, nFirst := 0, 0
		for _, o := range c.originsOf(cs.clusterV, cs.rng) {
			switch o.Term {
			case "P2":
				nWhole++
				r.Check(c.reqAt(ps, o, reasons), "RUNES", psn0, "left whole only when single-rune, unknown, or not argument-taking", c.ipos(o.At), "REQ(inline argument ∨ width == len ∨ option == nil ∨ ¬canArgument())", "the concatenated argument of an argument-taking short option is not split off on some path to "+c.ipos(o.At))
			case firstT:
				nFirst++
				ok := c.reqAt(ps, o, litIs("call:(*Option).canArgument("+optTerm+")", true)) && c.reqAt(ps, o, anyLit(litEq(wTerm, lTerm, false), litIs("lt("+wTerm+", "+lTerm+")", true)))
				r.Check(ok, "RUNES", psn0, "the first rune stands alone exactly when its argument was split off", c.ipos(o.At), "first = string(rune) under the split's conditions", "the cluster is reduced to its first rune without the split's conditions")
			default:
				r.Fail("RUNES", psn0, "names walked by the cluster loop", c.ipos(o.At), "the cluster can be "+trunc(o.Term, 80)+": neither the token nor its first rune")
			}
		}
		r.Check(nWhole >= 1 && nFirst >= 1, "RUNES", psn0, "cluster is the token or its first rune", c.pos(ps.Pos()), "both forms occur", fmt.Sprintf("whole=%d first=%d", nWhole, nFirst))
	}
	psn := c.fname(ps)
	cluster := "phi{P2 | " + firstT + "}"
	if cs.clusterV != nil {
		cluster = c.term(cs.clusterV)
	}
	lastLit := "eq((runepos(" + cluster + ") + call:unicode/utf8.RuneLen(runeat(" + cluster + "))), len(" + cluster + "))"
	for _, in := range c.instrs(ps, c.isCallTo("(*Parser).parseOption")) {
		call := in.(*ssa.Call)
		canarg := c.argNamed(call, "canarg")
		splitForm := false
		if canarg == nil {
			// the conjunction split between caller and callee: the caller says whether this is the last rune, the
			// callee adds ¬OptionalArgument (checked at the pop below)
			if bi := soleBoolParam(po); bi >= 0 && bi < len(call.Call.Args) {
				canarg = call.Call.Args[bi]
				l := c.cond(canarg)
				splitForm = true
				r.Check(l.Pos && l.Term == lastLit, "RUNES", psn, "only the last rune of a cluster may take the next token", c.ipos(in), "the flag handed to parseOption is (byte offset + RuneLen(rune) == len(cluster))", "the flag is "+trunc(c.term(canarg), 200))
			}
		}
		if canarg == nil {
			r.Fail("RUNES", psn, "only the last rune of a cluster may take the next token", c.ipos(in), "parseOption is not told whether the rune is the cluster's last")
			continue
		}
		p, ok := canarg.(*ssa.Phi)
		okC := false
		if ok && !splitForm {
			// canarg = lastRune && !OptionalArgument : phi{false (on the not-last edge), !OptionalArgument}
			nFalse, nOpt := 0, 0
			for i, e := range p.Edges {
				t := c.term(e)
				pred := p.Block().Preds[i]
				if t == "false" {
					if l, ok := c.edgeLitTo(pred, p.Block()); ok && l.Term == lastLit && !l.Pos {
						nFalse++
					}
				} else if strings.HasPrefix(t, "!(Option.OptionalArgument(lookup(lookup.shortNames(") {
					if _, req := c.Requires(ps, func(x ssa.Instruction) bool { return x == pred.Instrs[len(pred.Instrs)-1] }, litIs(lastLit, true), nil); req {
						nOpt++
					}
				}
			}
			okC = nFalse == 1 && nOpt == 1 && len(p.Edges) == 2
		}
		if !splitForm {
			r.Check(okC, "RUNES", psn, "only the last rune of a cluster may take the next token", c.ipos(in), "canarg = (byte offset + RuneLen(rune) == len(cluster)) ∧ ¬OptionalArgument", "canarg is "+trunc(c.term(canarg), 200))
		}
		// CLUSTER: argument operand
		argOp := c.argNamed(call, "argument")
		if argOp == nil {
			r.Fail("CLUSTER", psn, "attached argument only for the first option of a cluster", c.ipos(in), "parseOption has no `argument` operand")
			continue
		}
		ap, ok := c.resolve(argOp).(*ssa.Phi)
		okA := false
		if ok {
			okA = true
			for i, e := range ap.Edges {
				pred := ap.Block().Preds[i]
				back := ap.Block().Dominates(pred)
				if back && !isConstNil(e) {
					okA = false
				}
				if !back && !cs.isEntryArgument(c, e) {
					okA = false
				}
			}
		}
		if ok && !okA {
			// equivalent form: a per-iteration value that is the attached argument at byte offset 0 and nil otherwise
			okA = len(ap.Edges) > 0
			for i, e := range ap.Edges {
				if isConstNil(e) {
					continue
				}
				pred := ap.Block().Preds[i]
				_, first := c.Requires(ps, isInstr(pred.Instrs[len(pred.Instrs)-1]), litEq("0", "runepos("+cluster+")", true), nil)
				if l, has := c.edgeLitTo(pred, ap.Block()); has && (l.Pos && (l.Term == "eq(0, runepos("+cluster+"))" || l.Term == "eq(runepos("+cluster+"), 0)") || !l.Pos && l.Term == "nonzero(runepos("+cluster+"))") {
					first = true
				}
				if !cs.isEntryArgument(c, e) || !first {
					okA = false
				}
			}
		}
		r.Check(okA, "CLUSTER", psn, "attached argument only for the first option of a cluster", c.ipos(in), "argument = (inline | concatenated) on entry, nil on every back edge", "argument operand is "+trunc(c.term(argOp), 160))
	}
	// the long form: canarg is exactly ¬OptionalArgument of the option found
	if pl := c.mustFn(r, "(*Parser).parseLong"); pl != nil {
		for _, in := range c.instrs(pl, c.isCallTo("(*Parser).parseOption")) {
			var t string
			ok := false
			if ca := c.argNamed(in.(ssa.CallInstruction), "canarg"); ca != nil {
				t = c.term(ca)
				ok = strings.HasPrefix(t, "!(Option.OptionalArgument(lookup(lookup.longNames(") && !strings.Contains(t, "phi{")
			} else if bi := soleBoolParam(po); bi >= 0 {
				// split form: a long option always ends its token; ¬OptionalArgument is added by parseOption (pop rule)
				t = c.term(in.(ssa.CallInstruction).Common().Args[bi])
				ok = t == "true"
			}
			r.Check(ok, "CLUSTER", c.fname(pl), "a long option takes the next token exactly when its argument is not optional", c.ipos(in), "canarg = ¬option.OptionalArgument", "canarg is "+trunc(t, 160)+": an option with an optional argument can swallow the following token")
		}
	}
	// next token only when canarg
	for _, in := range c.instrs(po, c.isCallTo("(*parseState).pop")) {
		pf := c.newFacts(po)
		_, a := c.Requires(po, isInstr(in), litIs("P4", true), pf)
		if !a {
			// split form: REQ(the caller's last-rune flag) ∧ REQ(¬option.OptionalArgument)
			if bi := soleBoolParam(po); bi >= 0 && c.pname(po, bi) != "P4" {
				_, a1 := c.Requires(po, isInstr(in), litIs(c.pname(po, bi), true), pf)
				_, a2 := c.Requires(po, isInstr(in), litIs("Option.OptionalArgument(P3)", false), pf)
				a = a1 && a2
			}
		}
		_, b := c.Requires(po, isInstr(in), litHas(false, "nonnil(P5)"), pf)
		r.Check(a && b, "CLUSTER", pon, "next token consumed only when allowed and no inline argument", c.ipos(in), "REQ(canarg) ∧ REQ(argument == nil)", fmt.Sprintf("canarg necessary=%v argument==nil necessary=%v", a, b))
	}
	// a popped token is refused only by the validator or, with PassDoubleDash, because it is the terminator
	for _, popIn := range c.instrs(po, c.isCallTo("(*parseState).pop")) {
		for _, in := range c.instrs(po, c.isCallTo("newErrorf", "newError")) {
			call := in.(ssa.CallInstruction)
			if c.term(call.Common().Args[0]) != "ErrExpectedArgument" || !c.reachableFrom(po, popIn, isInstr(in)) {
				continue
			}
			c.reqRule(r, "ADMISSIBLE", po, in, "the separate-token argument is refused only by the validator or as the terminator under PassDoubleDash",
				anyLit(litHas(true, "nonnil(call:(*Option).isValidValue("), litHas(true, "nonzero((Parser.Options(P0) & PassDoubleDash))")), "isValidValue(arg) != nil ∨ Options&PassDoubleDash != 0", nil)
		}
	}
	// UNIT over the spelling functions
	scope := map[*ssa.Function]bool{so: true, ps: true, po: true}
	for _, n := range []string{"argumentIsOption", "argumentStartsOption", "stripOptionPrefix", "(*Parser).parseLong", "(*Parser).splitShortConcatArg"} {
		if f := c.Fn(n); f != nil {
			scope[f] = true
		}
	}
	before := len(r.Obs)
	c.runUNIT(r, "RUNES", scope, nil)
	if len(r.Obs) == before {
		r.OK("RUNES", "spelling functions", "no bytes/characters mix", "", "UNIT found no arithmetic, comparison or slice bound mixing a byte count with a character count")
	}

	// NEGATIVE
	for _, name := range []string{"(*Option).isSignedNumber", "(*Option).isBool"} {
		fn := c.mustFn(r, name)
		if fn == nil {
			continue
		}
		okL := false
		for _, l := range c.loopsDeep(fn) {
			for _, in := range l.Header.Instrs {
				if p, ok := in.(*ssa.Phi); ok {
					t := c.term(p)
					if strings.Contains(t, "call:(reflect.Value).Type(Option.value(P0))") && strings.Contains(t, "invoke:Type.Elem(phi↺; )") {
						okL = true
					}
				}
			}
		}
		r.Check(okL, "NEGATIVE", name, "unwraps every slice/pointer layer", c.pos(fn.Pos()), "the type variable loops through Elem() until a base kind", "only a bounded number of slice/pointer layers is unwrapped")
	}
	for _, ret := range returnsOf(ivv) {
		if isConstNil(c.resolve(ret.Results[0])) {
			continue
		}
		t := c.term(ret.Results[0])
		if !strings.HasPrefix(t, "call:fmt.Errorf(") {
			continue
		}
		// the rejection requires: option syntax ∧ ¬(signed ∧ len>1 ∧ '-' ∧ digit)
		_, a := c.Requires(ivv, isInstr(ret), litHas(true, "call:argumentIsOption(P1)"), nil)
		_, b := c.Requires(ivv, isInstr(ret), anyLit(
			litHas(false, "call:(*Option).isSignedNumber(P0)"),
			litIs("lt(1, len(P1))", false),
			litIs("lt(len(P1), 2)", true),
			litIs("eq(45, idx(P1, 0))", false),
			litIs("lt(idx(P1, 1), 48)", true),
			litIs("lt(57, idx(P1, 1))", true),
		), nil)
		r.Check(a && b, "NEGATIVE", c.fname(ivv), "option-looking argument rejected unless a negative number for a signed option", c.ipos(ret), "REQ(option syntax) ∧ REQ(¬signed ∨ len ≤ 1 ∨ no '-' ∨ second byte not a digit)", fmt.Sprintf("syntax necessary=%v exception-complement necessary=%v", a, b))
	}
}

// edgeLitTo: literal of the edge pred→succ.
func (c *Ctx) edgeLitTo(pred, succ *ssa.BasicBlock) (Lit, bool) {
	for si, s := range pred.Succs {
		if s == succ {
			return c.edgeLit(pred, si)
		}
	}
	return Lit{}, false
}

// argSourcesOnly: t is a flat phi whose members are all among the two argument sources and the empty string,
// with at least one real source.
func argSourcesOnly(t string) bool {
	if !strings.HasPrefix(t, "phi{") || !strings.HasSuffix(t, "}") {
		return false
	}
	real := false
	for _, m := range strings.Split(t[4:len(t)-1], " | ") {
		switch m {
		case `""`:
		case "*(P5)", "call:(*parseState).pop(P1)":
			real = true
		default:
			return false
		}
	}
	return real
}

// concatSplit locates, in parseShort with splitShortConcatArg looked through, the pieces of the -xVALUE split:
// the store that cuts the attached argument off the token, the value the cluster loop ranges over, and the range.
type concatSplitInfo struct {
	split       *ssa.Store
	cell        *ssa.Alloc
	otherSlices []string
	clusterV    ssa.Value
	rng         ssa.Instruction
	why         string
}

func (c *Ctx) concatSplit(ps *ssa.Function) *concatSplitInfo {
	cs := &concatSplitInfo{}
	for _, b := range ps.Blocks {
		for _, in := range b.Instrs {
			if rg, ok := in.(*ssa.Range); ok {
				if bt, ok := rg.X.Type().Underlying().(*types.Basic); ok && bt.Info()&types.IsString != 0 {
					cs.clusterV, cs.rng = rg.X, in
				}
			}
		}
	}
	if cs.clusterV == nil {
		// a manual decoding loop: the string handed to DecodeRuneInString inside a loop of parseShort
		for _, l := range loopsOf(ps) {
			for b := range l.Blocks {
				for _, in := range b.Instrs {
					if call, ok := in.(*ssa.Call); ok && c.calleeName(call.Common()) == "unicode/utf8.DecodeRuneInString" {
						if sl, ok := call.Call.Args[0].(*ssa.Slice); ok {
							cs.clusterV, cs.rng = sl.X, in
						}
					}
				}
			}
		}
	}
	if cs.clusterV == nil {
		cs.why = "no loop over the runes of the cluster found in parseShort"
		return cs
	}
	want := "slice(P2, call:unicode/utf8.DecodeRuneInString(P2)#1, _)"
	for _, b := range c.blocks(ps) {
		for _, in := range b.Instrs {
			st, ok := in.(*ssa.Store)
			if !ok {
				continue
			}
			al, ok := st.Addr.(*ssa.Alloc)
			if !ok || relType(c, al.Type()) != "*string" {
				continue
			}
			t := c.term(st.Val)
			if t == want {
				cs.split, cs.cell = st, al
			} else if strings.HasPrefix(t, "slice(P2, ") {
				cs.otherSlices = append(cs.otherSlices, t)
			}
		}
	}
	if cs.split == nil {
		cs.why = "no store of optname[width of the first rune:] into an argument cell found"
		if len(cs.otherSlices) > 0 {
			cs.why = "the attached argument is cut at " + strings.Join(cs.otherSlices, ", ") + " instead of the first rune's encoded width"
		}
	}
	return cs
}

// isEntryArgument: v is the argument the cluster loop starts with — the inline argument, the cell of the
// concatenated one, or (where neither applies) nil — and nothing else.
func (cs *concatSplitInfo) isEntryArgument(c *Ctx, v ssa.Value) bool {
	seenCell, seenInline := false, false
	ok := true
	seen := map[ssa.Value]bool{}
	var walk func(v ssa.Value)
	walk = func(v ssa.Value) {
		if seen[v] {
			return
		}
		seen[v] = true
		for _, o := range c.originsOf(v, nil) {
			switch {
			case o.Val == ssa.Value(cs.cell):
				seenCell = true
			case o.Term == "P3":
				seenInline = true
			case o.Term == "nil":
			default:
				ok = false
			}
		}
	}
	walk(v)
	return ok && seenCell && seenInline
}
