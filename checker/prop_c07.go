package main

import (
	"fmt"
	"sort"
	"strings"

	"golang.org/x/tools/go/ssa"
)

func init() {
	register(&Property{
		Meta: PropMeta{
			ID:          "C07",
			Level:       "other",
			Explanation: "Structural necessary conditions of 'unknown options are never silently accepted', decided on the SSA of /repo for all paths: (EXACT) the option handed to parseOption is the result of an exact map lookup in parseState.lookup keyed by the untransformed name (long) or by the string of the current rune (short), and no prefix/case-folding/nearest-match function occurs in that provenance; (MISS) the nil edge of that lookup returns newErrorf(ErrUnknownFlag, …) naming the looked-up name; (TABLES) the lookup maps are written only by fillLookup's group walk, keyed by LongNameWithNamespace() and string(ShortName) of the very option stored, over c.eachGroup of the command itself; makeLookup fills from the parent chain and the command only; parseState.lookup is stored only by fillParseState; the namespace walk of LongNameWithNamespace ends only at the root; (POLICY) the unknown-option handler is called once per iteration with the split name, the inline argument and the not-yet-consumed parseState.args, its slice is adopted unconditionally on the success edge and its error stored on the other; IgnoreUnknown re-queues the very token returned by pop().",
			NotDecided:  "that the name fed to the lookup is the name the user typed for every spelling (C02); Go map semantics (trusted).",
			Trusted:     []string{"go/ssa lowering", "go/types", "Go map lookup is exact"},
		},
		Run:      runC07,
		Controls: []string{"path-req", "path-cd", "path-nt"},
	})
}

var inexactFns = []string{"strings.HasPrefix", "strings.HasSuffix", "strings.EqualFold", "strings.ToLower", "strings.ToUpper", "strings.Contains", "strings.Index", "strings.TrimSpace", "strings.Title", "closestChoice", "levenshtein", "strings.Fields", "strings.Trim"}

func runC07(c *Ctx, r *Report, tier string) {
	r.Rule("EXACT", "the option passed to parseOption is an exact lookup in parseState.lookup by the untransformed name", 2)
	r.Rule("MISS", "the nil edge of the lookup returns newErrorf(ErrUnknownFlag, name)", 2)
	r.Rule("TABLES", "who fills and stores the lookup tables, with which keys, over which groups and commands", 8)
	r.Rule("POLICY", "handler call operands, once per iteration, slice adopted unconditionally on success, error stored; IgnoreUnknown re-queues the popped token", 6)

	pl := c.mustFn(r, "(*Parser).parseLong")
	ps := c.mustFn(r, "(*Parser).parseShort")
	pa := c.mustFn(r, "(*Parser).ParseArgs")
	fl := c.mustFn(r, "(*Command).fillLookup")
	ml := c.mustFn(r, "(*Command).makeLookup")
	if pl == nil || ps == nil || pa == nil || fl == nil || ml == nil {
		return
	}

	// ---- EXACT / MISS
	for _, fn := range []*ssa.Function{pl, ps} {
		fname := c.fname(fn)
		calls := c.instrs(fn, c.isCallTo("(*Parser).parseOption"))
		if len(calls) != 1 {
			r.Fail("EXACT", fname, "parseOption call", "", fmt.Sprintf("%d calls", len(calls)))
			continue
		}
		call := calls[0].(*ssa.Call)
		optOp := c.argNamed(call, "option")
		if optOp == nil {
			r.Fail("EXACT", fname, "option operand of parseOption", c.ipos(call), "parseOption has no `option` operand")
			continue
		}
		opt := c.term(optOp)
		var want string
		if fn == pl {
			want = "lookup(lookup.longNames(&parseState.lookup(P1)), P2)"
		} else {
			want = "lookup(lookup.shortNames(&parseState.lookup(P1)), conv[string](runeat("
		}
		ok := strings.HasPrefix(opt, want)
		var bad []string
		for _, f := range inexactFns {
			if strings.Contains(opt, "call:"+f+"(") {
				bad = append(bad, f)
			}
		}
		r.Check(ok && len(bad) == 0, "EXACT", fname, "option operand of parseOption", c.ipos(call), "exact map lookup: "+trunc(opt, 120), "option comes from "+trunc(opt, 200)+" (inexact functions: "+strings.Join(bad, ",")+")")
		// name operand is the looked-up key
		if nameOp := c.argNamed(call, "name"); nameOp == nil {
			// (parseOption never used it; a parameter list without it has nothing to check here)
			r.OK("EXACT", fname, "name operand", c.ipos(call), "parseOption takes no name operand")
		} else if name := c.term(nameOp); fn == pl {
			r.Check(name == "P2", "EXACT", fname, "name operand", c.ipos(call), "the looked-up name", "name is "+name)
		} else {
			r.Check(strings.HasPrefix(name, "conv[string](runeat("), "EXACT", fname, "name operand", c.ipos(call), "string of the current rune", "name is "+trunc(name, 80))
		}
		// MISS
		nMiss := 0
		for _, ci := range c.instrsCtx(fn, c.isCallTo("newErrorf")) {
			in := ci.In
			e := in.(*ssa.Call)
			if c.term(e.Call.Args[0]) != "ErrUnknownFlag" {
				continue
			}
			nMiss++
			// the constructor may sit in a helper shared by both parsers: judge it in the context of this caller
			_, req := c.Requires(fn, isInstr(in), func(l Lit) bool { return !l.Pos && strings.HasPrefix(l.Term, "nonnil("+want) }, nil)
			named := false
			c.within(ci.Frames, func() {
				for _, a := range sliceLitElems(e.Call.Args[2]) {
					ta := c.term(a)
					if (fn == pl && ta == "P2") || (fn == ps && strings.HasPrefix(ta, "conv[string](runeat(")) {
						named = true
					}
				}
			})
			r.Check(req && named, "MISS", fname, "ErrUnknownFlag on the lookup's nil edge, naming the name", c.ipos(in), "REQ(lookup == nil) and the message argument is the looked-up name", fmt.Sprintf("nil-edge necessary=%v names-the-name=%v", req, named))
		}
		r.Check(nMiss == 1, "MISS", fname, "one unknown-flag error", c.pos(fn.Pos()), "one", fmt.Sprintf("%d", nMiss))
		// the parseOption call is on the non-nil edge
		c.reqRule(r, "EXACT", fn, call, "parseOption only for a found option", func(l Lit) bool { return l.Pos && strings.HasPrefix(l.Term, "nonnil("+want) }, "lookup != nil", nil)
	}

	// ---- TABLES
	var flCl *ssa.Function
	for _, in := range c.instrs(fl, func(in ssa.Instruction) bool {
		ci, ok := in.(ssa.CallInstruction)
		return ok && len(closureArgs(ci)) > 0
	}) {
		ci := in.(ssa.CallInstruction)
		n := c.calleeName(ci.Common())
		r.Check(n == "(*Group).eachGroup" && c.term(ci.Common().Args[0]) == "Command.Group(P0)", "TABLES", c.fname(fl), "options collected over the command's own nested groups", c.ipos(in), "c.eachGroup(…)", "fillLookup iterates "+n+"("+c.term(ci.Common().Args[0])+")")
		for _, f := range closureArgs(ci) {
			flCl = f
		}
	}
	type mu struct {
		fn  string
		m   string
		key string
		val string
		in  ssa.Instruction
	}
	var updates []mu
	c.eachInstr(func(fn *ssa.Function, in ssa.Instruction) {
		u, ok := in.(*ssa.MapUpdate)
		if !ok {
			return
		}
		mt := c.term(u.Map)
		if strings.HasPrefix(mt, "lookup.") {
			updates = append(updates, mu{c.fname(fn), mt, c.term(u.Key), c.term(u.Value), in})
		}
	})
	sort.Slice(updates, func(i, j int) bool { return updates[i].m+updates[i].key < updates[j].m+updates[j].key })
	seenMaps := map[string]int{}
	for _, u := range updates {
		m := u.m[:strings.Index(u.m, "(")]
		seenMaps[m]++
		opt := "idx(Group.options(P0), "
		switch m {
		case "lookup.longNames":
			// only options that HAVE a long name enter the long-name table (the namespace prefix alone is not a name)
			if flCl != nil {
				_, hasName := c.Requires(flCl, isInstr(u.in), litHas(true, "nonempty(Option.LongName("+opt), nil)
				r.Check(hasName, "TABLES", u.fn, "long-name table only for options with a long name", c.ipos(u.in), "insert REQ(len(option.LongName) > 0)", "an option without a long name is entered in the long-name table (under its bare namespace prefix)")
			}
			ok := flCl != nil && c.actsFor(u.in.Parent(), flCl) && strings.HasPrefix(u.key, "call:(*Option).LongNameWithNamespace("+opt) && strings.HasPrefix(u.val, opt)
			r.Check(ok, "TABLES", u.fn, "longNames[LongNameWithNamespace(o)] = o", c.ipos(u.in), "keyed by the namespaced long name of the stored option, untransformed", "longNames["+trunc(u.key, 80)+"] = "+trunc(u.val, 60))
		case "lookup.shortNames":
			// only options that HAVE a short name enter the short-name table (rune 0 is "none", not a name)
			if flCl != nil {
				_, hasName := c.Requires(flCl, isInstr(u.in), litHas(true, "nonzero(Option.ShortName("+opt), nil)
				r.Check(hasName, "TABLES", u.fn, "short-name table only for options with a short name", c.ipos(u.in), "insert REQ(option.ShortName != 0)", "an option without a short name is entered in the short-name table under the NUL rune: `-\\x00` is accepted as that option")
			}
			ok := flCl != nil && c.actsFor(u.in.Parent(), flCl) && strings.HasPrefix(u.key, "conv[string](Option.ShortName("+opt) && strings.HasPrefix(u.val, opt)
			r.Check(ok, "TABLES", u.fn, "shortNames[string(o.ShortName)] = o", c.ipos(u.in), "keyed by the short rune of the stored option", "shortNames["+trunc(u.key, 80)+"] = "+trunc(u.val, 60))
		case "lookup.commands":
			ok := c.actsFor(u.in.Parent(), fl)
			r.Check(ok, "TABLES", u.fn, "commands map written by fillLookup", c.ipos(u.in), "only fillLookup fills the command table", "commands map written in "+u.fn)
		}
	}
	r.Check(seenMaps["lookup.longNames"] == 1 && seenMaps["lookup.shortNames"] == 1, "TABLES", c.fname(fl), "one writer per option table", c.pos(fl.Pos()), "exactly one MapUpdate each", fmt.Sprintf("longNames writers=%d shortNames writers=%d", seenMaps["lookup.longNames"], seenMaps["lookup.shortNames"]))
	// makeLookup: fillLookup receivers
	{
		af := c.ancestorFill(ml)
		for _, pr := range af.problems {
			r.Fail("TABLES", c.fname(ml), pr.what, c.ipos(pr.at), pr.detail)
		}
		for _, in := range []ssa.Instruction{af.self, af.anc} {
			if in != nil {
				r.OK("TABLES", c.fname(ml), "fillLookup receiver", c.ipos(in), "the command itself or an element of its parent chain")
			}
		}
	}
	// parents chain: appended values are parent.(*Command) results
	for _, b := range c.blocks(ml) {
		for _, in := range b.Instrs {
			if call, ok := in.(*ssa.Call); ok && c.calleeName(call.Common()) == "append" {
				for _, e := range sliceLitElems(call.Call.Args[1]) {
					t := c.term(e)
					okEl := strings.HasPrefix(t, "assert[*Command](phi{") && strings.Contains(t, "Group.parent(Command.Group(")
					if !okEl && strings.HasPrefix(t, "phi{assert[*Command](Group.parent(Command.Group(P0)))#0 | assert[*Command](Group.parent(Command.Group(phi↺)))#0}") {
						okEl = true // the comma-ok loop form: cmd, ok := c.parent.(*Command); ok; cmd, ok = cmd.parent.(*Command)
					}
					r.Check(okEl, "TABLES", c.fname(ml), "parent chain element", c.ipos(in), "parent.(*Command) walking up from c.parent", "chain element is "+trunc(t, 120))
				}
			}
		}
	}
	lf := c.mustField(r, "parseState", "lookup")
	for _, s := range c.storesTo(lf) {
		r.Check(c.fname(s.Fn) == "(*Command).fillParseState" && strings.HasPrefix(c.term(s.Store.Val), "call:(*Command).makeLookup(P0)"), "TABLES", c.fname(s.Fn), "store parseState.lookup", c.ipos(s.Store), "fillParseState stores c.makeLookup()", "parseState.lookup stored in "+c.fname(s.Fn)+" as "+trunc(c.term(s.Store.Val), 80))
	}
	// namespace walk ends only at the root
	if ln := c.mustFn(r, "(*Option).LongNameWithNamespace"); ln != nil {
		nW := 0
		for _, l := range c.loopsDeep(ln) {
			iff, ok := l.Header.Instrs[len(l.Header.Instrs)-1].(*ssa.If)
			if !ok {
				continue
			}
			lit := c.cond(iff.Cond)
			if !strings.HasPrefix(lit.Term, "nonnil(phi{") {
				continue
			}
			nW++
			okE := true
			for _, e := range l.exits() {
				if e.B != l.Header {
					okE = false
				}
			}
			r.Check(okE, "TABLES", c.fname(ln), "namespace walk visits every enclosing group", c.ipos(iff), "the walk ends only when the group variable is nil (root reached)", "the namespace walk can stop before the root: outer namespaces are dropped from the key")
		}
		r.Check(nW == 1, "TABLES", c.fname(ln), "namespace walk", c.pos(ln.Pos()), "found", fmt.Sprintf("%d nil-terminated walks", nW))
	}

	// ---- POLICY
	pn := c.fname(pa)
	// what the handler is told about the inline argument: absent exactly when there was none (nil), an
	// empty `--name=` is present and empty
	if sv := c.mustFn(r, "(strArgument).Value"); sv != nil {
		for _, ret := range returnsOf(sv) {
			if c.term(ret.Results[1]) != "false" {
				continue
			}
			var extra []string
			for _, d := range c.controlDeps(sv, ret.Block()) {
				if l, ok := c.edgeLit(d.B, d.Succ); ok && !(strings.HasPrefix(l.Term, "nonnil(strArgument.value(") && !l.Pos) {
					extra = append(extra, l.String())
				}
			}
			r.Check(len(extra) == 0, "POLICY", c.fname(sv), "inline argument reported absent only when there is none", c.ipos(ret), "return (\"\", false) only under value == nil", "the argument is also reported absent under "+strings.Join(extra, "; ")+": an empty inline argument (`--name=`) is hidden from the handler")
		}
	}
	hcalls := c.instrs(pa, c.isDynCallVia("Parser.UnknownOptionHandler("))
	r.Check(len(hcalls) == 1, "POLICY", pn, "one handler call site", c.pos(pa.Pos()), "one", fmt.Sprintf("%d", len(hcalls)))
	argsF := c.mustField(r, "parseState", "args")
	errF := c.mustField(r, "parseState", "err")
	for _, h := range hcalls {
		// IgnoreUnknown has precedence: with the option set the token is passed through, the handler is not asked
		_, prec := c.Requires(pa, isInstr(h), litHas(false, "nonzero((Parser.Options(P0) & IgnoreUnknown))"), nil)
		r.Check(prec, "POLICY", pn, "IgnoreUnknown takes precedence over the handler", c.ipos(h), "handler call REQ(¬IgnoreUnknown)", "with IgnoreUnknown set and a handler installed the handler is consulted and the unknown token is not passed through")
		call := h.(*ssa.Call)
		a := call.Call.Args
		t0, t2 := c.term(a[0]), c.term(a[2])
		ok0 := strings.HasPrefix(t0, "call:splitOption(call:stripOptionPrefix(call:(*parseState).pop(") && strings.HasSuffix(t0, "#0")
		ok2 := strings.HasPrefix(t2, "parseState.args(")
		// second operand: strArgument{argument}
		ok1 := false
		if mi, ok := a[1].(*ssa.MakeInterface); ok {
			if u, ok := mi.X.(*ssa.UnOp); ok {
				if al, ok := u.X.(*ssa.Alloc); ok && typeName(al.Type()) == "strArgument" {
					for _, ref := range *al.Referrers() {
						if fa, ok := ref.(*ssa.FieldAddr); ok {
							for _, r2 := range *fa.Referrers() {
								if st, ok := r2.(*ssa.Store); ok {
									ts := c.term(st.Val)
									ok1 = strings.HasPrefix(ts, "call:splitOption(") && strings.HasSuffix(ts, "#2")
								}
							}
						}
					}
				}
			}
		}
		r.Check(ok0 && ok1 && ok2, "POLICY", pn, "handler operands", c.ipos(h), "(split name, strArgument{inline argument}, parseState.args)", fmt.Sprintf("name ok=%v argument ok=%v rest ok=%v", ok0, ok1, ok2))
		if d, ok := c.NeverTwice(pa, isInstr(h), true, nil); ok {
			r.OK("POLICY", pn, "handler called once per iteration", c.ipos(h), "no path within one iteration reaches the call twice")
		} else {
			r.Fail("POLICY", pn, "handler called once per iteration", c.ipos(h), d)
		}
		// adoption of the returned slice
		var adopt ssa.Instruction
		for _, s := range c.instrs(pa, c.isStoreTo(argsF)) {
			if strings.HasPrefix(c.term(s.(*ssa.Store).Val), "dyncall(Parser.UnknownOptionHandler(") {
				adopt = s
			}
		}
		if adopt == nil {
			r.Fail("POLICY", pn, "handler's slice adopted", c.ipos(h), "the slice returned by the handler is never stored to parseState.args")
		} else {
			// control deps of the adoption within the handler branch: only err == nil of the handler beyond the call's own
			base := map[CtlDep]bool{}
			for _, d := range c.controlDeps(pa, h.Block()) {
				base[d] = true
			}
			var extra []string
			for _, d := range c.controlDeps(pa, adopt.Block()) {
				if base[d] {
					continue
				}
				l, ok := c.edgeLit(d.B, d.Succ)
				if !ok {
					continue
				}
				if !l.Pos && strings.HasPrefix(l.Term, "nonnil(dyncall(Parser.UnknownOptionHandler(") && strings.HasSuffix(l.Term, "#1)") {
					continue
				}
				extra = append(extra, l.String())
			}
			r.Check(len(extra) == 0, "POLICY", pn, "handler's slice adopted unconditionally on success", c.ipos(adopt), "guarded only by the handler's error being nil", "adoption has an additional guard: "+strings.Join(extra, "; "))
		}
		// error stored
		okErr := false
		// (the error may travel through the result of a new helper that makes the call)
		flowCtx = c
		if hc, ok := h.(ssa.Value); ok {
			for _, ev := range errValuesOfCall(h.(ssa.CallInstruction)) {
				fl := flowsTo(ev)
				for _, s := range c.instrs(pa, c.isStoreTo(errF)) {
					if fl[s.(*ssa.Store).Val] || fl[c.resolve(s.(*ssa.Store).Val)] {
						okErr = true
					}
				}
			}
			_ = hc
		}
		for _, s := range c.instrs(pa, c.isStoreTo(errF)) {
			if strings.HasPrefix(c.term(s.(*ssa.Store).Val), "dyncall(Parser.UnknownOptionHandler(") && strings.HasSuffix(c.term(s.(*ssa.Store).Val), "#1") {
				okErr = true
			}
		}
		r.Check(okErr, "POLICY", pn, "handler's error stored to parseState.err", c.ipos(h), "stored on the non-nil edge", "the handler's error is not recorded")
	}
	// IgnoreUnknown re-queue
	nRq := 0
	for _, as := range c.addArgsSites(pa) {
		in := as.Site
		if as.Kind != "pop" {
			continue
		}
		nRq++
		c.reqRule(r, "POLICY", pa, in, "re-queue of the popped token", func(l Lit) bool {
			return l.Pos && strings.HasPrefix(l.Term, "nonzero((Parser.Options(") && strings.Contains(l.Term, "& IgnoreUnknown))")
		}, "IgnoreUnknown set", nil)
	}
	r.Check(nRq == 1, "POLICY", pn, "IgnoreUnknown passes the verbatim token", c.pos(pa.Pos()), "one addArgs call whose element is the value returned by pop() in this iteration", fmt.Sprintf("%d re-queue sites of the popped token", nRq))
}
