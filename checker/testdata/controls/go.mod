module controls

go 1.15
