// Package controls holds one seeded violation (and one clean twin) per engine
// rule of gfcheck. It is loaded on every run; a rule that does not fire on its
// control is reported as inert.
package controls
