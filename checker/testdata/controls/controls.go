// Package controls holds one seeded violation (and one clean twin) per engine
// rule of gfcheck. It is loaded on every run; a rule that does not fire on its
// control is reported as inert.
package controls

import (
	"reflect"
	"sort"
	"strings"
	"unicode/utf8"
)

// OrdMapRangeEscape returns keys in map order (violation: unsorted escape).
func OrdMapRangeEscape(m map[string]int) []string {
	var out []string
	for k := range m {
		out = append(out, k)
	}
	return out
}

// OrdMapKeysConcat folds MapKeys order into a string (violation).
func OrdMapKeysConcat(v reflect.Value) string {
	s := ""
	for _, k := range v.MapKeys() {
		s += k.String()
	}
	return s
}

// OrdFirstWins keeps, for every value, the first key that maps to it — in map order — and sorts the
// result: the SET of names returned depends on the iteration order although the list is sorted (violation).
func OrdFirstWins(m map[string]*int) []string {
	seen := map[*int]bool{}
	var out []string
	for k, v := range m {
		if !seen[v] {
			seen[v] = true
			out = append(out, k)
		}
	}
	sort.Strings(out)
	return out
}

// OrdBuilderLoop writes the keys into a local strings.Builder in map order: the text depends on the
// iteration order (violation), although every call in the loop only touches a local accumulator.
func OrdBuilderLoop(m map[string]int) string {
	var sb strings.Builder
	for k := range m {
		sb.WriteString(k)
	}
	return sb.String()
}

// OrdBuilderCallee renders one key with a local strings.Builder; calling it inside a loop whose results are
// sorted afterwards is clean: the accumulator never outlives one call (clean twin of OrdBuilderLoop).
func ordRenderKey(k string) string {
	var sb strings.Builder
	sb.WriteString("<")
	sb.WriteString(k)
	sb.WriteString(">")
	return sb.String()
}

func OrdBuilderCallee(m map[string]int) []string {
	var out []string
	for k := range m {
		out = append(out, ordRenderKey(k))
	}
	sort.Strings(out)
	return out
}

// OrdClean sorts before returning (clean twin).
func OrdClean(m map[string]int) []string {
	var out []string
	for k := range m {
		out = append(out, k)
	}
	sort.Strings(out)
	return out
}

type ctlState struct {
	err error
	n   int
}

//go:noinline
func sink() {}

//go:noinline
func gate() {}

// PathReqBad reaches sink without the err == nil edge.
func PathReqBad(s *ctlState) {
	if s.n > 0 {
		sink()
	}
}

// PathReqGood reaches sink only through err == nil.
func PathReqGood(s *ctlState) {
	if s.err == nil && s.n > 0 {
		sink()
	}
}

// PathMptBad may skip gate.
func PathMptBad(s *ctlState) {
	if s.n > 0 {
		gate()
	}
	sink()
}

// PathMptGood skips gate only on a path that cannot reach sink (correlated tests of err).
func PathMptGood(s *ctlState) {
	if s.err == nil {
		gate()
	}
	if s.err != nil {
		return
	}
	sink()
}

// PathNtBad may run sink twice.
func PathNtBad(s *ctlState) {
	sink()
	if s.n > 0 {
		sink()
	}
}

// PathNtGood runs sink at most once.
func PathNtGood(s *ctlState) {
	if s.n > 0 {
		sink()
	} else {
		sink()
	}
}

// CdExtraGuard: sink is guarded by n>0 and by an extra conjunctive guard err==nil.
func CdExtraGuard(s *ctlState, xs []int) {
	for _, x := range xs {
		if x > 0 {
			if s.err == nil {
				sink()
			}
		}
	}
}

// NpIndexBad indexes without a length guard; NpIndexGood has one.
func NpIndexBad(s string) byte { return s[0] }
func NpIndexGood(s string) byte {
	if len(s) > 0 {
		return s[0]
	}
	return 0
}

// NpSliceBad slices by an unchecked search result; NpSliceGood checks it.
func NpSliceBad(s string, i int) string { return s[i:] }
func NpSliceGood(s string, i int) string {
	if i >= 0 && i <= len(s) {
		return s[i:]
	}
	return s
}

// NpNilBad dereferences a pointer it elsewhere compares with nil.
func NpNilBad(p *int, b bool) int {
	if p == nil && b {
		return 0
	}
	return *p
}
func NpNilGood(p *int) int {
	if p != nil {
		return *p
	}
	return 0
}

// NpKindBad calls IsNil without a kind guard.
func NpKindBad(v reflect.Value) bool { return v.IsNil() }
func NpKindGood(v reflect.Value) bool {
	if v.Kind() == reflect.Ptr {
		return v.IsNil()
	}
	return false
}

// UnitMixBad subtracts a byte count from a character count.
func UnitMixBad(s, t string) int {
	return utf8.RuneCountInString(s) - len(t)
}

// UnitMixGood subtracts characters from characters.
func UnitMixGood(s, t string) int {
	return utf8.RuneCountInString(s) - utf8.RuneCountInString(t)
}
