// Package controls holds one seeded violation (and one clean twin) per engine
// rule of gfcheck. It is loaded on every run; a rule that does not fire on its
// control is reported as inert.
package controls

import (
	"reflect"
	"sort"
)

// OrdMapRangeEscape returns keys in map order (violation: unsorted escape).
func OrdMapRangeEscape(m map[string]int) []string {
	var out []string
	for k := range m {
		out = append(out, k)
	}
	return out
}

// OrdMapKeysConcat folds MapKeys order into a string (violation).
func OrdMapKeysConcat(v reflect.Value) string {
	s := ""
	for _, k := range v.MapKeys() {
		s += k.String()
	}
	return s
}

// OrdClean sorts before returning (clean twin).
func OrdClean(m map[string]int) []string {
	var out []string
	for k := range m {
		out = append(out, k)
	}
	sort.Strings(out)
	return out
}
