package main

// load.go — load /repo's current working tree, type-check, build SSA.

import (
	"fmt"
	"go/constant"
	"go/token"
	"go/types"
	"os"
	"sort"
	"strings"

	"golang.org/x/tools/go/packages"
	"golang.org/x/tools/go/ssa"
	"golang.org/x/tools/go/ssa/ssautil"
)

const flagsPath = "github.com/jessevdk/go-flags"

// Ctx is the resolved program under analysis.
type Ctx struct {
	pnames map[*ssa.Function][]string // term names of parameters (pname)
	Fset   *token.FileSet
	Prog   *ssa.Program
	Pkg    *ssa.Package
	PPkg   *packages.Package
	Types  *types.Package
	Funcs  []*ssa.Function          // every function of the package incl. anonymous ones, sorted by name
	ByNam  map[string]*ssa.Function // RelString name -> function
	// constant names of named constant types: type name -> exact value -> const name
	constNames map[string]map[string]string
	// closure creation sites: anon fn -> MakeClosure instruction
	closureSite map[*ssa.Function]*ssa.MakeClosure
	NPkgs       int
	Files       []string
	// new-function transparency (inline.go)
	allKnown       bool // treat every function as known (controls package)
	frames         []ssa.CallInstruction
	siteMemo       map[*ssa.Function]ssa.CallInstruction
	nilTestMemo    map[*ssa.Function]map[ssa.Value]int
	cellOrd        map[*ssa.Alloc]int
	nilTestAll     map[ssa.Value]int
	anchorHint     *ssa.Function // the function a rule enumerated last (context for helpers shared by several callers)
	inHint         bool
	noImports      bool
	alias          map[*ssa.Function]string // renamed function → its name in the pinned tree
	Renamed        []string
	nonNegMemo     map[*types.Var]int
	calledOnlyMemo map[*ssa.Function]bool
	siteDone       map[*ssa.Function]bool
}

func loadCtx(dir string, pkgPath string) (*Ctx, error) {
	os.Unsetenv("GOWORK")
	cfg := &packages.Config{
		Mode:  packages.LoadSyntax,
		Dir:   dir,
		Tests: false,
		Env:   append(os.Environ(), "GOFLAGS=-mod=mod", "GOPROXY=off", "GOSUMDB=off", "GOTOOLCHAIN=local", "GOWORK=off", "CGO_ENABLED=0"),
	}
	pkgs, err := packages.Load(cfg, "./...")
	if err != nil {
		return nil, fmt.Errorf("load: %v", err)
	}
	if len(pkgs) == 0 {
		return nil, fmt.Errorf("load: zero packages in %s", dir)
	}
	var nerr int
	var msgs []string
	packages.Visit(pkgs, nil, func(p *packages.Package) {
		for _, e := range p.Errors {
			nerr++
			if len(msgs) < 10 {
				msgs = append(msgs, e.Error())
			}
		}
	})
	if nerr > 0 {
		return nil, fmt.Errorf("load: %d package errors (type-check failure is a failed check): %s", nerr, strings.Join(msgs, "; "))
	}
	var target *packages.Package
	for _, p := range pkgs {
		if p.PkgPath == pkgPath {
			target = p
		}
	}
	if target == nil {
		return nil, fmt.Errorf("load: package %s not found among %d packages", pkgPath, len(pkgs))
	}
	prog, spkgs := ssautil.Packages(pkgs, ssa.InstantiateGenerics|ssa.SanityCheckFunctions)
	prog.Build()
	var sp *ssa.Package
	for i, p := range pkgs {
		if p == target {
			sp = spkgs[i]
		}
	}
	if sp == nil {
		return nil, fmt.Errorf("load: no SSA package for %s", pkgPath)
	}
	c := &Ctx{Fset: prog.Fset, Prog: prog, Pkg: sp, PPkg: target, Types: target.Types, ByNam: map[string]*ssa.Function{},
		constNames: map[string]map[string]string{}, closureSite: map[*ssa.Function]*ssa.MakeClosure{}, NPkgs: len(pkgs)}
	for _, f := range target.GoFiles {
		c.Files = append(c.Files, f)
	}
	c.allKnown = pkgPath != flagsPath
	c.collectFuncs()
	c.resolveRenames()
	c.resolveFieldRenames()
	c.collectConsts()
	return c, nil
}

func (c *Ctx) addFunc(f *ssa.Function) {
	if f == nil || f.Blocks == nil {
		return
	}
	name := c.fname(f)
	if _, dup := c.ByNam[name]; dup {
		return
	}
	c.ByNam[name] = f
	c.Funcs = append(c.Funcs, f)
	for _, a := range f.AnonFuncs {
		c.addFunc(a)
	}
}

func (c *Ctx) collectFuncs() {
	for _, m := range c.Pkg.Members {
		switch m := m.(type) {
		case *ssa.Function:
			c.addFunc(m)
		case *ssa.Type:
			t := m.Type()
			for _, tt := range []types.Type{t, types.NewPointer(t)} {
				ms := c.Prog.MethodSets.MethodSet(tt)
				for i := 0; i < ms.Len(); i++ {
					fn := c.Prog.MethodValue(ms.At(i))
					if fn != nil && fn.Pkg == c.Pkg && fn.Synthetic == "" {
						c.addFunc(fn)
					}
				}
			}
		}
	}
	sort.Slice(c.Funcs, func(i, j int) bool { return c.fname(c.Funcs[i]) < c.fname(c.Funcs[j]) })
	for _, f := range c.Funcs {
		for _, b := range f.Blocks {
			for _, in := range b.Instrs {
				if mc, ok := in.(*ssa.MakeClosure); ok {
					if fn, ok := mc.Fn.(*ssa.Function); ok {
						c.closureSite[fn] = mc
					}
				}
			}
		}
	}
}

func (c *Ctx) collectConsts() {
	sc := c.Types.Scope()
	for _, n := range sc.Names() {
		if k, ok := sc.Lookup(n).(*types.Const); ok {
			if nt, ok := k.Type().(*types.Named); ok {
				tn := nt.Obj().Name()
				if c.constNames[tn] == nil {
					c.constNames[tn] = map[string]string{}
				}
				v := k.Val().ExactString()
				if _, dup := c.constNames[tn][v]; !dup {
					c.constNames[tn][v] = n
				}
			}
		}
	}
}

// fname is the package-relative name of a function: "(*Parser).ParseArgs$1",
// "convert", "strings.Index", "(reflect.Value).Kind".
func (c *Ctx) fname(f *ssa.Function) string {
	if f == nil {
		return "<nil>"
	}
	if len(c.alias) > 0 {
		root := f
		for root.Parent() != nil {
			root = root.Parent()
		}
		if a, ok := c.alias[root]; ok {
			return a + strings.TrimPrefix(f.RelString(c.Types), root.RelString(c.Types))
		}
	}
	return f.RelString(c.Types)
}

func (c *Ctx) Fn(name string) *ssa.Function { return c.ByNam[name] }

func (c *Ctx) pos(p token.Pos) string { return shortPos(c.Fset, p) }

func (c *Ctx) ipos(in ssa.Instruction) string {
	if in == nil {
		return ""
	}
	p := in.Pos()
	if !p.IsValid() {
		// fall back to an operand / the enclosing block's first positioned instruction
		if v, ok := in.(ssa.Value); ok {
			_ = v
		}
		for _, op := range in.Operands(nil) {
			if *op != nil && (*op).Pos().IsValid() {
				p = (*op).Pos()
				break
			}
		}
	}
	if !p.IsValid() && in.Block() != nil {
		for _, x := range in.Block().Instrs {
			if x.Pos().IsValid() {
				p = x.Pos()
				break
			}
		}
	}
	return c.pos(p)
}

// constName renders a constant: named package constants by name.
func (c *Ctx) constName(k *ssa.Const) string {
	if k.Value == nil {
		return "nil"
	}
	if nt, ok := k.Type().(*types.Named); ok && nt.Obj().Pkg() == c.Types {
		if m := c.constNames[nt.Obj().Name()]; m != nil {
			if n, ok := m[k.Value.ExactString()]; ok {
				return n
			}
		}
	}
	if nt, ok := k.Type().(*types.Named); ok && nt.Obj().Pkg() == c.Types {
		var names []string
		switch nt.Obj().Name() {
		case "Options":
			names = []string{"HelpFlag", "PassDoubleDash", "IgnoreUnknown", "PrintErrors", "PassAfterNonOption"}
		case "IniOptions":
			names = []string{"IniIncludeDefaults", "IniCommentDefaults", "IniIncludeComments"}
		}
		for _, n := range names {
			if kk, ok := c.Types.Scope().Lookup(n).(*types.Const); ok && constant.Compare(kk.Val(), token.EQL, k.Value) {
				return n
			}
		}
	}
	if k.Value.Kind() == constant.String {
		return k.Value.ExactString()
	}
	if k.Value.Kind() == constant.Bool {
		return k.Value.String()
	}
	return k.Value.ExactString()
}

// field object lookup: c.Field("parseState", "err")
func (c *Ctx) Field(typeName, field string) *types.Var {
	obj := c.Types.Scope().Lookup(typeName)
	if obj == nil {
		return nil
	}
	st, ok := obj.Type().Underlying().(*types.Struct)
	if !ok {
		return nil
	}
	for i := 0; i < st.NumFields(); i++ {
		if fieldVarName(st.Field(i)) == field {
			return st.Field(i)
		}
	}
	return nil
}

// ---- renamed functions ---------------------------------------------------------
//
// Rules are anchored at functions of the pinned tree by name. Renaming an unexported function is a
// behaviour-preserving edit; so that it does not surface as an "unresolved anchor", a missing known
// function is matched with the only function of the current tree that is not known and has exactly the
// same receiver and signature. The match is recorded (Ctx.Renamed) and reported in the evidence; with no
// candidate or several, the anchor stays unresolved and the check fails as before.

func sigKey(c *Ctx, f *ssa.Function) string {
	q := func(p *types.Package) string {
		if p == c.Types {
			return ""
		}
		return p.Path()
	}
	s := types.TypeString(f.Signature, q)
	if r := f.Signature.Recv(); r != nil {
		s = "(" + types.TypeString(r.Type(), q) + ")." + s
	}
	return s
}

func (c *Ctx) resolveRenames() {
	if c.allKnown {
		return
	}
	var missing []string
	for name := range knownSigs {
		if _, ok := c.ByNam[name]; !ok {
			missing = append(missing, name)
		}
	}
	if len(missing) == 0 {
		return
	}
	sort.Strings(missing)
	var fresh []*ssa.Function
	for _, f := range c.Funcs {
		if f.Parent() == nil && !knownFuncs[f.RelString(c.Types)] {
			fresh = append(fresh, f)
		}
	}
	taken := map[*ssa.Function]bool{}
	for _, name := range missing {
		var cand []*ssa.Function
		for _, f := range fresh {
			if !taken[f] && sigKey(c, f) == knownSigs[name] {
				cand = append(cand, f)
			}
		}
		// several missing functions may share a signature: only an unambiguous pairing is accepted
		same := 0
		for _, other := range missing {
			if knownSigs[other] == knownSigs[name] {
				same++
			}
		}
		if len(cand) != 1 || same != 1 {
			continue
		}
		f := cand[0]
		taken[f] = true
		if c.alias == nil {
			c.alias = map[*ssa.Function]string{}
		}
		old := f.RelString(c.Types)
		c.alias[f] = name
		c.Renamed = append(c.Renamed, old+" → treated as "+name+" (same receiver and signature, only candidate)")
	}
	if len(c.alias) == 0 {
		return
	}
	// re-index under the canonical names (closures follow their parent)
	c.ByNam = map[string]*ssa.Function{}
	for _, f := range c.Funcs {
		c.ByNam[c.fname(f)] = f
	}
}

// resolveFieldRenames: an unexported field of a package struct that disappeared by name while the struct
// gained exactly one unknown field of the same type is that field renamed.
func (c *Ctx) resolveFieldRenames() {
	if c.allKnown {
		return
	}
	for tn, known := range knownFields {
		obj := c.Types.Scope().Lookup(tn)
		if obj == nil {
			continue
		}
		st, ok := obj.Type().Underlying().(*types.Struct)
		if !ok {
			continue
		}
		q := func(p *types.Package) string {
			if p == c.Types {
				return ""
			}
			return p.Path()
		}
		knownNames := map[string]string{}
		for _, kf := range known {
			parts := strings.SplitN(kf, "\x00", 2)
			knownNames[parts[0]] = parts[1]
		}
		have := map[string]bool{}
		var fresh []*types.Var
		for i := 0; i < st.NumFields(); i++ {
			f := st.Field(i)
			have[f.Name()] = true
			if _, isKnown := knownNames[f.Name()]; !isKnown && !f.Exported() {
				fresh = append(fresh, f)
			}
		}
		// first by position: the field now standing where the missing one stood, same type, unknown name
		for k, kf := range known {
			parts := strings.SplitN(kf, "\x00", 2)
			if have[parts[0]] || k >= st.NumFields() {
				continue
			}
			f := st.Field(k)
			if _, isKnown := knownNames[f.Name()]; isKnown || f.Exported() {
				continue
			}
			if _, used := fieldAlias[f]; !used && types.TypeString(f.Type(), q) == parts[1] {
				fieldAlias[f] = parts[0]
				have[parts[0]] = true
				c.Renamed = append(c.Renamed, tn+"."+f.Name()+" → treated as field "+tn+"."+parts[0]+" (same position and type)")
			}
		}
		for name, typ := range knownNames {
			if have[name] {
				continue
			}
			var cand []*types.Var
			for _, f := range fresh {
				if _, used := fieldAlias[f]; !used && types.TypeString(f.Type(), q) == typ {
					cand = append(cand, f)
				}
			}
			sameMissing := 0
			for n2, t2 := range knownNames {
				if !have[n2] && t2 == typ {
					sameMissing++
				}
			}
			if len(cand) == 1 && sameMissing == 1 {
				fieldAlias[cand[0]] = name
				c.Renamed = append(c.Renamed, tn+"."+cand[0].Name()+" → treated as field "+tn+"."+name+" (same type, only candidate)")
			}
		}
	}
}
