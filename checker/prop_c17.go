package main

import (
	"fmt"
	"go/token"
	"go/types"
	"regexp"
	"strings"

	"golang.org/x/tools/go/ssa"
)

func init() {
	register(&Property{
		Meta: PropMeta{
			ID:          "C17",
			Level:       "other",
			Explanation: "Structural necessary conditions of a well-formed help layout, decided on the SSA of /repo for all paths: (NP) the no-panic prover over every function reachable from WriteHelp, including all strings.Repeat counts, the wrap loop's slices and the rune back-off; (UNIT) dimensional analysis bytes / characters(=columns) / counts of every integer addition, subtraction, comparison and string slice bound in that scope — a byte count combined with a character or column count is a violation unless allow-listed with a reason; (COLUMN) one alignment computation per WriteHelp, descriptionStart reads only the three measured fields, and the description column is the same expression `descriptionStart() + paddingBeforeOption` for option rows and argument rows, used for the padding minuend, the continuation prefix and the wrap width alike; (MEASURE) the alignment pass measures every part the row writer prints under a guard no stronger than the writer's (so the padding cannot go negative) and skips exactly the hidden items; (WRAP) minimum width 10 and every emitted piece ends at a position ≤ width-1 (so the piece plus a possible hyphen fits); (TERM) a non-positive terminal width falls back to 80.",
			NotDecided:  "the inequality dw ≥ 0 itself (allow-listed max-aggregate argument, valid once units and measured parts agree); that no line exceeds the width for every input; that wrapping preserves the words (value-level); visual width of wide/combining characters.",
			Trusted:     []string{"go/ssa lowering", "go/types", "strings/utf8/bytes contracts", "one column per rune (the library's own model)"},
		},
		Run:      runC17,
		Controls: []string{"np-index", "np-slice", "unit-mix"},
	})
}

const reasonMaxAgg = "max-aggregate: the subtrahend is the width of one row's name part and the minuend is the maximum of that very quantity over all visible rows plus non-negative constants (getAlignmentInfo/maxCommandLength measure the same parts in the same unit — rules MEASURE and UNIT)"

var helpAllow = []*npAllow{
	{Func: "(*Parser).writeHelpOption", Construct: "call strings.Repeat(\" \")", Max: 2, Reason: reasonMaxAgg + "; descriptionStart() is a sum of non-negative terms"},
	{Func: "(*Parser).WriteHelp", Construct: "call strings.Repeat(\" \")", Max: 3, Reason: reasonMaxAgg + "; descriptionStart() is a sum of non-negative terms"},
	{Func: "(*Option).String", Construct: "make slice len call:unicode/utf8.RuneLen(Option.ShortName", Max: 1, Reason: "ShortName comes from utf8.DecodeRuneInString, which never returns an invalid rune"},
	{Func: "maxCommandLength", Construct: "slice P0[1:_]", Max: 1, Reason: "guarded by the len(s) == 0 early return"},
}

var helpUnitAllow = []*unitAllow{
	{Func: "wrapText", Construct: "arith ", Max: 3, Reason: "wrapText measures text in bytes against a width in columns: bytes ≥ characters, so wrapping is conservative (lines may be shorter than necessary, never longer); hard-break cuts are moved back to a rune start (fix 23f82dd)"},
	{Func: "wrapText", Construct: "slice string ", Max: 4, Reason: "same: the cut positions are byte offsets bounded by the column width; a cut inside a multi-byte character is prevented by the utf8.RuneStart back-off and spaces are single bytes"},
}

func runC17(c *Ctx, r *Report, tier string) {
	r.Rule("NP", "no instruction reachable from WriteHelp can raise a run-time panic (discharged or allow-listed with a reason)", 40)
	r.Rule("UNIT", "no arithmetic, comparison or string slicing in the help scope mixes a byte count with a character/column count", 8)
	r.Rule("COLUMN", "one alignment per WriteHelp; one description column expression for option rows and argument rows, used for padding, continuation prefix and wrap width", 8)
	r.Rule("MEASURE", "the alignment pass measures every printed part under a guard no stronger than the writer's and skips exactly hidden items", 4)
	r.Rule("WRAP", "wrap width ≥ 10; every emitted piece ends at a position ≤ width-1", 3)
	r.Rule("TERM", "terminal width ≤ 0 falls back to 80", 1)

	wh := c.mustFn(r, "(*Parser).WriteHelp")
	who := c.mustFn(r, "(*Parser).writeHelpOption")
	gai := c.mustFn(r, "(*Parser).getAlignmentInfo")
	ds := c.mustFn(r, "(*alignmentInfo).descriptionStart")
	wt := c.mustFn(r, "wrapText")
	if wh == nil || who == nil || gai == nil || ds == nil || wt == nil {
		return
	}
	scope, _ := c.reach([]*ssa.Function{wh}, nil)
	r.Extra["scope"] = c.names(scope)
	c.runNP(r, "NP", scope, helpAllow)
	c.runUNIT(r, "UNIT", scope, helpUnitAllow)

	// ---- COLUMN
	calls, _ := c.callersOf(gai)
	nIn := 0
	loopsWH := c.loopsDeep(wh)
	for _, cs := range calls {
		if c.actsFor(cs.Fn, wh) {
			nIn++
			r.Check(innermost(loopsWH, cs.Call.Block()) == nil, "COLUMN", c.fname(wh), "getAlignmentInfo outside any loop", c.ipos(cs.Call), "computed once, before the rows are written", "alignment recomputed inside a loop")
		} else if scope[cs.Fn] {
			r.Fail("COLUMN", c.fname(cs.Fn), "getAlignmentInfo call", c.ipos(cs.Call), "a second alignment computation inside the help path")
		}
	}
	r.Check(nIn == 1, "COLUMN", c.fname(wh), "one getAlignmentInfo call", c.pos(wh.Pos()), "exactly one call", fmt.Sprintf("%d calls", nIn))
	// descriptionStart reads only the measured fields
	var badF []string
	for _, b := range c.blocks(ds) {
		for _, in := range b.Instrs {
			if fa, ok := in.(*ssa.FieldAddr); ok {
				switch n := fieldVarName(fieldObj(fa.X.Type(), fa.Field)); n {
				case "maxLongLen", "hasShort", "hasValueName":
				default:
					badF = append(badF, n)
				}
			}
		}
	}
	r.Check(len(badF) == 0, "COLUMN", c.fname(ds), "fields read", c.pos(ds.Pos()), "reads only maxLongLen, hasShort, hasValueName (not the per-row indent)", "also reads "+strings.Join(badF, ", "))
	// the alignment is computed afresh for every help output (it depends on the active command and on the declarations
	// at that moment): what getAlignmentInfo returns is its own local, never state kept from an earlier call
	for _, ret := range returnsOf(gai) {
		t := c.term(ret.Results[0])
		r.Check(t == "cell:alignmentInfo" || t == "new:alignmentInfo", "COLUMN", c.fname(gai), "the alignment returned is the one just computed", c.ipos(ret), "returns the local alignmentInfo", "returns "+trunc(t, 80)+": an alignment remembered from an earlier call — the next help output (another active command, changed declarations) is laid out with a stale column")
	}
	// each part of the column is reserved exactly when some row prints it: "-x" under hasShort, ", --" as soon as any
	// long name exists (maxLongLen > 0), "=value" under hasValueName
	{
		want := map[int64]string{2: "alignmentInfo.hasShort(P0)", 4: "lt(0, alignmentInfo.maxLongLen(P0))", 3: "alignmentInfo.hasValueName(P0)"}
		seen := map[int64]bool{}
		for _, b := range c.blocks(ds) {
			for _, in := range b.Instrs {
				bo, ok := in.(*ssa.BinOp)
				if !ok || bo.Op != token.ADD {
					continue
				}
				k, isK := constInt(bo.Y)
				if !isK {
					continue
				}
				deps := c.controlDeps(ds, b)
				if len(deps) == 0 {
					continue // the unconditional distance between option and description
				}
				var lits []string
				for _, d := range deps {
					if l, ok := c.edgeLit(d.B, d.Succ); ok {
						lits = append(lits, l.String())
					}
				}
				w, known := want[k]
				seen[k] = true
				okG := known && len(lits) == 1 && (lits[0] == w || k == 4 && lits[0] == "nonzero(alignmentInfo.maxLongLen(P0))")
				r.Check(okG, "COLUMN", c.fname(ds), fmt.Sprintf("the %d columns of the description start are reserved under the right condition", k), c.ipos(in), "+"+fmt.Sprint(k)+" exactly under "+w, "+"+fmt.Sprint(k)+" is added under "+strings.Join(lits, " ∧ ")+": rows that print that part are wider than the column computed for them (negative padding)")
			}
		}
		// the same parts written as named intermediates: `part := 0; if cond { part = k }` (a phi of k and 0)
		for _, b := range c.blocks(ds) {
			for _, in := range b.Instrs {
				ph, ok := in.(*ssa.Phi)
				if !ok || len(ph.Edges) != 2 {
					continue
				}
				k0, ok0 := constInt(ph.Edges[0])
				k1, ok1 := constInt(ph.Edges[1])
				if !ok0 || !ok1 || (k0 != 0) == (k1 != 0) {
					continue
				}
				ki, k := 0, k0
				if k0 == 0 {
					ki, k = 1, k1
				}
				pred := ph.Block().Preds[ki]
				var lits []string
				if l, ok := c.edgeLitTo(pred, ph.Block()); ok && len(pred.Succs) == 2 {
					lits = append(lits, l.String())
				} else {
					for _, d := range c.controlDeps(ds, pred) {
						if l, ok := c.edgeLit(d.B, d.Succ); ok {
							lits = append(lits, l.String())
						}
					}
				}
				w, known := want[k]
				seen[k] = true
				okG := known && len(lits) == 1 && (lits[0] == w || k == 4 && lits[0] == "nonzero(alignmentInfo.maxLongLen(P0))")
				r.Check(okG, "COLUMN", c.fname(ds), fmt.Sprintf("the %d columns of the description start are reserved under the right condition", k), c.ipos(in), "+"+fmt.Sprint(k)+" exactly under "+w, "+"+fmt.Sprint(k)+" is added under "+strings.Join(lits, " ∧ ")+": rows that print that part are wider than the column computed for them (negative padding)")
			}
		}
		r.Check(seen[2] && seen[4] && seen[3], "COLUMN", c.fname(ds), "the three conditional parts of the column", c.pos(ds.Pos()), "+2 (short), +4 (long separator), +3 (value name)", fmt.Sprintf("found %v", seen))
	}
	colExpr := "(call:(*alignmentInfo).descriptionStart(new:alignmentInfo) + 2)"
	// option rows
	var optCol ssa.Value
	for _, in := range c.instrs(who, c.isCallTo("strings.Repeat")) {
		call := in.(*ssa.Call)
		cnt := c.resolve(call.Call.Args[1])
		t := c.term(cnt)
		switch {
		case t == colExpr:
			optCol = cnt
			r.OK("COLUMN", c.fname(who), "continuation prefix width", c.ipos(in), "Repeat(\" \", descriptionStart()+paddingBeforeOption)")
		case strings.HasPrefix(t, "("+colExpr+" - "):
			bo := cnt.(*ssa.BinOp)
			r.Check(c.term(bo.X) == colExpr, "COLUMN", c.fname(who), "padding minuend", c.ipos(in), "padding = description column − characters written", "padding minuend is "+c.term(bo.X))
			sub := c.term(bo.Y)
			r.Check(strings.HasPrefix(sub, "call:unicode/utf8.RuneCount(call:(*bytes.Buffer).Bytes(new:bytes.Buffer)"), "COLUMN", c.fname(who), "padding subtrahend", c.ipos(in), "characters of the row written so far", "subtrahend is "+trunc(sub, 100))
		case strings.HasPrefix(t, "phi{"):
			// the leading indent: constants only
			r.Check(strings.Trim(t, "phi{}()+ 0123456789|") == "", "COLUMN", c.fname(who), "row indent", c.ipos(in), "a constant per indent level: "+t, "row indent is "+t)
		default:
			r.Fail("COLUMN", c.fname(who), "Repeat count", c.ipos(in), "unexpected padding expression "+trunc(t, 120))
		}
	}
	for _, in := range c.instrs(who, c.isCallTo("wrapText")) {
		call := in.(*ssa.Call)
		w := c.term(call.Call.Args[1])
		r.Check(w == "(alignmentInfo.terminalColumns(P2) - "+colExpr+")" || w == "(alignmentInfo.terminalColumns(new:alignmentInfo) - "+colExpr+")", "COLUMN", c.fname(who), "wrap width of option rows", c.ipos(in), "terminalColumns − description column", "wrap width is "+trunc(w, 140))
		p := c.term(call.Call.Args[2])
		r.Check(p == "call:strings.Repeat(\" \", "+colExpr+")", "COLUMN", c.fname(who), "continuation prefix of option rows", c.ipos(in), "Repeat(\" \", description column)", "prefix is "+trunc(p, 140))
	}
	_ = optCol
	// argument rows
	nArg := 0
	for _, in := range c.instrs(wh, c.isCallTo("strings.Repeat")) {
		call := in.(*ssa.Call)
		t := c.term(c.resolve(call.Call.Args[1]))
		switch {
		case t == colExpr:
			nArg++
			r.OK("COLUMN", c.fname(wh), "argument rows: continuation prefix width", c.ipos(in), "same expression as option rows")
		case strings.HasPrefix(t, "("+colExpr+" - "):
			nArg++
			r.Check(strings.HasPrefix(t, "("+colExpr+" - call:unicode/utf8.RuneCountInString("), "COLUMN", c.fname(wh), "argument rows: padding", c.ipos(in), "description column − characters of the argument prefix", "padding is "+trunc(t, 140))
		case t == "2":
			// the leading indent of an argument row
		case strings.HasPrefix(t, "(phi{") && strings.Contains(t, "len(Command.Name(idx(") && strings.Contains(t, "call:(*Command).sortedVisibleCommands(") && strings.Contains(t, " - len(Command.Name("):
			// the command list column: a running maximum of the visible names' lengths minus this name's length
		case strings.HasPrefix(t, "(call:maxCommandLength("), strings.HasPrefix(t, "(phi{len(Command.Name(idx(call:(*Command).sortedVisibleCommands("), strings.HasPrefix(t, "(phi{phi{len(Command.Name(idx("), strings.HasPrefix(t, "(phi{0 | phi{len(Command.Name(idx(call:(*Command).sortedVisibleCommands("):
			// command list column, independent of the description column
		default:
			r.Fail("COLUMN", c.fname(wh), "Repeat count", c.ipos(in), "unexpected padding expression "+trunc(t, 140))
		}
	}
	nAW := 0
	for _, ci := range c.instrsCtx(wh, c.isCallTo("wrapText")) {
		call, ok := ci.In.(*ssa.Call)
		if !ok || ci.In.Parent() == who {
			continue
		}
		if strings.Contains(c.term(call.Call.Args[0]), "LongDescription(") {
			// the command's long description is wrapped to the full width with no prefix
			w := c.term(c.resolve(call.Call.Args[1]))
			r.Check(strings.HasPrefix(w, "alignmentInfo.terminalColumns(") && c.term(call.Call.Args[2]) == `""`, "COLUMN", c.fname(wh), "long description wrapped to the terminal width", c.ipos(call), "wrapText(text, terminalColumns, \"\")", "width "+trunc(w, 80))
			continue
		}
		nAW++
		w := c.term(c.resolve(call.Call.Args[1]))
		okW := strings.HasSuffix(w, " - "+colExpr+")") && (strings.HasPrefix(w, "(alignmentInfo.terminalColumns(") || strings.HasPrefix(w, "((alignmentInfo.terminalColumns(")) && !strings.Contains(w, "+ alignmentInfo") && strings.Count(w, colExpr) == 1
		r.Check(okW, "COLUMN", c.fname(wh), "wrap width of argument rows", c.ipos(call), "terminalColumns [− 1] − the description column the continuation prefix uses", "wrap width is "+trunc(w, 160)+": not measured from the column the description starts in, so a full line passes the terminal width")
		pt := c.term(c.resolve(call.Call.Args[2]))
		r.Check(pt == "call:strings.Repeat(\" \", "+colExpr+")", "COLUMN", c.fname(wh), "continuation prefix of argument rows", c.ipos(call), "Repeat(\" \", description column)", "prefix is "+trunc(pt, 140))
	}
	r.Check(nAW >= 1, "COLUMN", c.fname(wh), "argument rows are wrapped", c.pos(wh.Pos()), "≥ 1 wrapText call for argument descriptions", "none found")
	r.Check(nArg >= 2, "COLUMN", c.fname(wh), "argument rows use the description column", c.pos(wh.Pos()), "padding and prefix derive from descriptionStart()+paddingBeforeOption", fmt.Sprintf("only %d uses found", nArg))

	// ---- MEASURE
	// the measuring walk covers the whole active chain (every level WriteHelp prints), not a bounded number of levels
	if eag := c.mustFn(r, "(*Command).eachActiveGroup"); eag != nil {
		okWalk := false
		for _, in := range c.instrs(eag, c.isCallTo("(*Command).eachActiveGroup")) {
			a := in.(ssa.CallInstruction).Common().Args
			if strings.HasPrefix(c.term(a[0]), "Command.Active(P0)") && c.term(a[1]) == "P1" {
				okWalk = true
			}
		}
		for _, l := range c.loopsDeep(eag) {
			for _, in := range l.Header.Instrs {
				if ph, ok := in.(*ssa.Phi); ok && strings.Contains(c.term(ph), "Command.Active(phi↺)") {
					okWalk = true
				}
			}
		}
		r.Check(okWalk, "MEASURE", c.fname(eag), "the active-group walk follows Command.Active to the end of the chain", c.pos(eag.Pos()), "recursion on c.Active with the same callback, or a loop stepping by Active", "eachActiveGroup visits a bounded number of levels: a deeper active command is printed but not measured, so the padding count can go negative (strings.Repeat panics)")
	}
	var meas *ssa.Function
	for _, in := range c.instrs(gai, c.isCallTo("(*Command).eachActiveGroup")) {
		for _, f := range closureArgs(in.(ssa.CallInstruction)) {
			meas = f
		}
	}
	if meas == nil {
		r.Fail("MEASURE", c.fname(gai), "measuring closure", "", "no closure passed to eachActiveGroup")
	} else {
		mn := c.fname(meas)
		allowedGuard := func(l Lit, extra ...string) bool {
			t := l.Term
			switch {
			case strings.HasPrefix(t, "call:(*Group).showInHelp(") && l.Pos,
				strings.HasPrefix(t, "call:(*Option).showInHelp(") && l.Pos,
				strings.HasPrefix(t, "lt("),
				// the group's own flag, tested directly: the row writer skips hidden groups by the same test
				strings.HasPrefix(t, "Group.Hidden(") && !l.Pos:
				return true
			}
			for _, e := range extra {
				if strings.HasPrefix(e, "¬") {
					if strings.HasPrefix(t, strings.TrimPrefix(e, "¬")) && !l.Pos {
						return true
					}
					continue
				}
				if strings.HasPrefix(t, e) && l.Pos {
					return true
				}
			}
			return false
		}
		checkDeps := func(in ssa.Instruction, what string, extra ...string) {
			var bad []string
			for _, d := range c.controlDeps(meas, in.Block()) {
				l, ok := c.edgeLit(d.B, d.Succ)
				if !ok {
					continue
				}
				if !allowedGuard(l, extra...) {
					bad = append(bad, l.String())
				}
			}
			r.Check(len(bad) == 0, "MEASURE", mn, what, c.ipos(in), "guarded only by visibility, the part's own presence test and loop conditions", "measured under an additional guard the row writer does not have: "+strings.Join(bad, "; "))
		}
		// the option measurement: updateLen(LongNameWithNamespace()+ValueName [+choices])
		nUpd := 0
		// (updateLen is looked through: what is measured is the string whose characters are counted for maxLongLen,
		// at the call of updateLen or — when the helper is written out — at the counting itself)
		for _, ci := range c.instrsCtx(meas, c.isCallTo("unicode/utf8.RuneCountInString")) {
			call := ci.In.(*ssa.Call)
			var t string
			c.within(ci.Frames, func() { t = c.term(call.Call.Args[0]) })
			var in ssa.Instruction = ci.In
			if len(ci.Frames) > 0 {
				in = ci.Frames[0]
			}
			if strings.Contains(t, "call:(*Option).LongNameWithNamespace(") {
				nUpd++
				okT := strings.Contains(t, "Option.ValueName(") && strings.Contains(t, "Option.Choices(")
				r.Check(okT, "MEASURE", mn, "option row measure covers long name + value name + choices", c.ipos(in), "measured string is LongNameWithNamespace()+ValueName[+\"[\"+choices+\"]\"]", "measured string is "+trunc(t, 200))
				checkDeps(in, "option row measured for every visible option")
			} else if strings.Contains(t, "Arg.Name(") {
				nUpd++
				checkDeps(in, "argument names measured for every command of the chain", "¬eq(P0, cell:*Command)")
			}
		}
		r.Check(nUpd >= 2, "MEASURE", mn, "updateLen calls", c.pos(meas.Pos()), "options and positional argument names are both measured", fmt.Sprintf("%d updateLen calls recognised", nUpd))
		// the choices concat must depend only on len(Choices) != 0
		for _, b := range c.blocks(meas) {
			for _, in := range b.Instrs {
				call, ok := in.(*ssa.Call)
				if !ok || c.calleeName(call.Common()) != "strings.Join" || !strings.HasPrefix(c.term(call.Call.Args[0]), "Option.Choices(") {
					continue
				}
				checkDeps(in, "choices are measured whenever the option has choices", "nonempty(Option.Choices(")
			}
		}
		for _, fld := range []string{"hasShort", "hasValueName"} {
			f := c.Field("alignmentInfo", fld)
			for _, s := range c.storesTo(f) {
				if !c.actsFor(s.Fn, meas) {
					continue
				}
				pres := "nonzero(Option.ShortName("
				if fld == "hasValueName" {
					pres = "nonempty(Option.ValueName("
				}
				checkDeps(s.Store, fld+" set whenever a visible option has the part", pres)
			}
		}
	}

	// ---- WRAP
	wn := c.fname(wt)
	var lVal ssa.Value
	for _, b := range c.blocks(wt) {
		for _, in := range b.Instrs {
			if p, ok := in.(*ssa.Phi); ok && c.term(p) == "phi{10 | P1}" {
				lVal = p
			}
		}
	}
	if lVal == nil {
		r.Fail("WRAP", wn, "minimum width", "", "no `l = max(l, 10)` shaped value (phi{10 | P1}) found")
	} else {
		p := lVal.(*ssa.Phi)
		ok := true
		for i, e := range p.Edges {
			if k, isC := constInt(e); isC && k == 10 {
				if _, req := c.Requires(wt, func(x ssa.Instruction) bool { return x == p.Block().Preds[i].Instrs[0] }, litHas(true, "lt(P1, 10)"), nil); !req {
					ok = false
				}
			}
		}
		r.Check(ok, "WRAP", wn, "width below 10 is raised to 10", c.ipos(p), "the constant 10 is taken exactly when l < 10", "the minimum-width clamp is not guarded by l < 10")
		// every loop test and cut uses the clamped width
		fx := c.newFacts(wt)
		nCut := 0
		for _, b := range c.blocks(wt) {
			for _, in := range b.Instrs {
				sl, ok := in.(*ssa.Slice)
				if !ok || sl.High == nil || sl.Low != nil {
					continue
				}
				// pieces appended to the output: line[:pos]
				if c.resolve(sl.High) == lVal {
					continue // line[:l] is only searched
				}
				nCut++
				proved := c.npProve(in, fx, func(n *npCtx) bool {
					hi := n.linOf(sl.High)
					lw := n.linOf(lVal)
					n.searchAxioms()
					return n.provesLe(hi, lin{lw.sym, lw.k - 1})
				})
				r.Check(proved, "WRAP", wn, "emitted piece ends at ≤ width-1", c.ipos(in), "cut position ≤ l-1 on every path (space found inside line[:l], or hard break at l-1 moved back to a rune start)", "cannot prove the cut position ≤ l-1: a piece plus its hyphen may exceed the width")
			}
		}
		r.Check(nCut >= 1, "WRAP", wn, "cut sites", c.pos(wt.Pos()), "found", "no line[:pos] cut found")
		// a hard break never lands inside a character: the back-off to a rune start is a loop over the break
		// position that is left only with RuneStart(line[pos]) true or pos == 0
		nRS := 0
		for _, in := range c.instrs(wt, c.isCallTo("unicode/utf8.RuneStart")) {
			nRS++
			call := in.(*ssa.Call)
			var lp *Loop
			for _, l := range c.loopsDeep(wt) {
				if l.Blocks[in.Block()] && (lp == nil || l.size() < lp.size()) {
					lp = l
				}
			}
			okLoop := false
			why := "the rune-start test is not inside a loop: the break position is moved back at most once"
			if lp != nil {
				// the tested byte is line[pos] with pos a header phi of that loop, decremented on the back edge
				at := c.term(call.Call.Args[0])
				posOK := false
				for _, hi := range lp.Header.Instrs {
					if ph, isPhi := hi.(*ssa.Phi); isPhi && strings.Contains(at, c.term(ph)) && strings.Contains(c.term(ph), "(phi↺ - 1)") {
						posOK = true
					}
				}
				exitsOK := true
				for _, e := range lp.exits() {
					l, has := c.edgeLit(e.B, e.I)
					if !has || !(l.Pos && strings.HasPrefix(l.Term, "call:unicode/utf8.RuneStart(") || !l.Pos && strings.HasPrefix(l.Term, "lt(0, phi{")) {
						exitsOK = false
						why = "the back-off loop can be left by " + l.String()
					}
				}
				if !posOK {
					why = "the rune-start test does not look at the byte at the loop's own position " + trunc(at, 80)
				}
				okLoop = posOK && exitsOK
			}
			r.Check(okLoop, "WRAP", wn, "a hard break is moved back to the start of a character", c.ipos(in), "loop: pos-- while pos > 0 ∧ ¬RuneStart(line[pos]); exits only on those two tests", why)
		}
		r.Check(nRS >= 1, "WRAP", wn, "rune-start test present", c.pos(wt.Pos()), "utf8.RuneStart is consulted for the hard break", "no rune-start test: a hard break can split a multi-byte character")
		c.wrapCutRule(r, "WRAP", wt, lVal)
		// no shortcut around the paragraph loop: embedded newlines get the continuation prefix on every path
		for _, ret := range returnsOf(wt) {
			// (a fast path is harmless when the text has a single paragraph that already fits: it must return exactly the trimmed text)
			if c.term(ret.Results[0]) == "call:strings.TrimSpace(P0)" {
				_, oneLine := c.Requires(wt, isInstr(ret), litIs(`has(P0, "\n")`, false), nil)
				_, fits := c.Requires(wt, isInstr(ret), func(l Lit) bool {
					return !l.Pos && strings.HasPrefix(l.Term, "lt(phi{") && strings.HasSuffix(l.Term, ", len(call:strings.TrimSpace(P0)))") || l.Pos && strings.HasPrefix(l.Term, "lt(len(call:strings.TrimSpace(P0)), ")
				}, nil)
				if oneLine && fits {
					r.OK("WRAP", wn, "every result went through the per-paragraph loop", c.ipos(ret), "fast path: returns TrimSpace(text) REQ(no newline in text) ∧ REQ(len(trimmed) ≤ width) — what the loop yields for that input")
					continue
				}
			}
			c.mptRule(r, "WRAP", wt, ret, "every result went through the per-paragraph loop", c.isCallTo("strings.Split"), "call strings.Split(s, \"\\n\")", nil)
		}
	}

	// ---- TERM
	tc := c.Field("alignmentInfo", "terminalColumns")
	okT := false
	nonPositive := func(l Lit) bool {
		return !l.Pos && strings.HasPrefix(l.Term, "lt(0, ") && (strings.Contains(l.Term, "alignmentInfo.terminalColumns(") || strings.Contains(l.Term, "call:getTerminalColumns()"))
	}
	for _, s := range c.storesTo(tc) {
		for _, o := range c.originsOf(s.Store.Val, s.Store) {
			if k, isC := constInt(o.Val); isC && k == 80 && c.reqAt(rootFn(s.Fn), o, nonPositive) {
				okT = true
			}
		}
	}
	r.Check(okT, "TERM", c.fname(gai), "fallback width", c.pos(gai.Pos()), "terminalColumns = 80 exactly when terminalColumns ≤ 0", "no guarded fallback store of 80 found")
}

// wrapCutRule: where wrapText cuts a line, the remainder starts exactly where the emitted piece ends
// (line[:pos] / line[pos:]): no character is dropped or repeated at a break. lVal (may be nil) is the
// wrap width, whose slice line[:l] is only searched, not emitted.
func (c *Ctx) wrapCutRule(r *Report, rule string, wt *ssa.Function, lVal ssa.Value) {
	wn := c.fname(wt)
	if lVal == nil {
		for _, b := range c.blocks(wt) {
			for _, in := range b.Instrs {
				if p, ok := in.(*ssa.Phi); ok && (c.term(p) == "phi{10 | P1}" || c.term(p) == "phi{P1 | 10}") {
					lVal = p
				}
			}
		}
	}
	n := 0
	for _, b := range c.blocks(wt) {
		for _, in := range b.Instrs {
			sl, ok := in.(*ssa.Slice)
			if !ok || sl.High == nil || sl.Low != nil {
				continue
			}
			if lVal != nil && c.resolve(sl.High) == c.resolve(lVal) {
				continue
			}
			if bt, ok := sl.X.Type().Underlying().(*types.Basic); !ok || bt.Info()&types.IsString == 0 {
				continue
			}
			n++
			// the complementary remainder of the same string
			found, okSame := false, false
			var lowT string
			for _, b2 := range c.blocks(wt) {
				for _, in2 := range b2.Instrs {
					s2, ok := in2.(*ssa.Slice)
					if !ok || s2.Low == nil || s2.High != nil || c.resolve(s2.X) != c.resolve(sl.X) {
						continue
					}
					found = true
					lowT = c.term(s2.Low)
					if c.resolve(s2.Low) == c.resolve(sl.High) || c.term(s2.Low) == c.term(sl.High) {
						okSame = true
					}
				}
			}
			r.Check(found && okSame, rule, wn, "remainder starts where the emitted piece ends", c.ipos(in), "line[:pos] is emitted and line[pos:] continues", "the piece ends at "+trunc(c.term(sl.High), 60)+" but the remainder starts at "+trunc(lowT, 60)+": text at a break is dropped or repeated")
		}
	}
	if n == 0 {
		r.Fail(rule, wn, "cut sites", c.pos(wt.Pos()), "no line[:pos] cut found")
	}
	// every paragraph is used trimmed: an element of the Split result is only ever an argument of strings.TrimSpace
	nEl := 0
	for _, b := range c.blocks(wt) {
		for _, in := range b.Instrs {
			v, ok := in.(ssa.Value)
			if !ok || !strings.HasPrefix(c.term(v), "idx(call:strings.Split(P0, \"\\n\")") || v.Referrers() == nil {
				continue
			}
			if _, isAddr := in.(*ssa.IndexAddr); isAddr {
				continue
			}
			nEl++
			for _, ref := range *v.Referrers() {
				if _, dbg := ref.(*ssa.DebugRef); dbg {
					continue
				}
				ci, isCall := ref.(ssa.CallInstruction)
				r.Check(isCall && c.calleeName(ci.Common()) == "strings.TrimSpace", rule, wn, "a paragraph is used only after trimming", c.ipos(ref), "TrimSpace(paragraph)", "a paragraph of the description is used untrimmed: its own leading/trailing blanks shift it off the common column")
			}
		}
	}
	if nEl == 0 {
		r.Fail(rule, wn, "paragraph elements", c.pos(wt.Pos()), "no element of strings.Split(s, \"\\n\") found")
	}
	// a piece appended to a non-empty line is always preceded by newline + prefix: the join (string `+=` or
	// Builder.WriteString of "\n"+prefix, here or in a new helper) depends on exactly one condition more than the
	// append that follows it — the accumulated line being non-empty
	nJ := 0
	pdoms := map[*ssa.Function]map[*ssa.BasicBlock]*ssa.BasicBlock{}
	for _, b := range c.blocks(wt) {
		for _, in := range b.Instrs {
			var acc ssa.Value
			builder := false
			switch v := in.(type) {
			case *ssa.BinOp:
				if v.Op == token.ADD && joinTermRe.MatchString(c.term(v.Y)) {
					acc = v.X
				}
			case *ssa.Call:
				if c.calleeName(&v.Call) == "(*strings.Builder).WriteString" && joinTermRe.MatchString(c.term(v.Call.Args[1])) {
					acc, builder = v.Call.Args[0], true
				}
				// the join written as two calls in a row: WriteString("\n"); WriteString(prefix)
				if c.calleeName(&v.Call) == "(*strings.Builder).WriteString" && prefixParamRe.MatchString(c.term(v.Call.Args[1])) {
					for _, prev := range b.Instrs {
						if prev == in {
							break
						}
						if pc, ok := prev.(*ssa.Call); ok && c.calleeName(&pc.Call) == "(*strings.Builder).WriteString" && c.term(pc.Call.Args[1]) == `"\n"` && c.term(pc.Call.Args[0]) == c.term(v.Call.Args[0]) {
							acc, builder = v.Call.Args[0], true
						}
					}
				}
			}
			if acc == nil {
				continue
			}
			nJ++
			fn := in.Parent()
			if pdoms[fn] == nil {
				pdoms[fn] = postDom(fn)
			}
			base := map[CtlDep]bool{}
			if m := pdoms[fn][in.Block()]; m != nil {
				for _, d := range c.controlDeps(fn, m) {
					base[d] = true
				}
			}
			var own []string
			okLit := false
			for _, d := range c.controlDeps(fn, in.Block()) {
				if base[d] {
					continue
				}
				l, _ := c.edgeLit(d.B, d.Succ)
				own = append(own, l.String())
				at := c.term(acc)
				if !builder && l.Pos && l.Term == "nonempty("+at+")" {
					okLit = true
				}
				lenT := "call:(*strings.Builder).Len(" + at + ")"
				if builder && (l.Pos && (l.Term == "nonzero("+lenT+")" || l.Term == "lt(0, "+lenT+")") || !l.Pos && l.Term == "eq(0, "+lenT+")") {
					okLit = true
				}
			}
			r.Check(okLit && len(own) == 1, rule, wn, "continuation pieces are indented: newline + prefix is added exactly when the line so far is non-empty", c.ipos(in), "CD(join) \\ CD(following append) = {line non-empty}", "the join depends on "+strings.Join(own, " ∧ ")+": a piece can follow a non-empty line without newline + prefix (the continuation starts at column 0) or the test is not about the accumulated line")
		}
	}
	if nJ < 1 {
		r.Fail(rule, wn, "join sites", c.pos(wt.Pos()), "no join `line += \"\\n\" + prefix` found")
	}
}

var prefixParamRe = regexp.MustCompile(`^P\d+$`)
var joinTermRe = regexp.MustCompile(`^\("\\n" \+ P\d+\)$`)
