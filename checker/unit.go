package main

// unit.go — UNIT: dimensional analysis of integer values: bytes of a string,
// characters (runes) / terminal columns, element counts. Mixing bytes with
// characters in arithmetic, comparison or slicing is reported.

import (
	"go/token"
	"go/types"
	"strings"

	"golang.org/x/tools/go/ssa"
)

type Unit int

const (
	uUnknown Unit = iota
	uConst
	uBytes
	uRunes // characters == terminal columns in the library's own model
	uCount
	uTop // conflicting / mixed
)

func (u Unit) String() string {
	return [...]string{"?", "const", "bytes", "chars", "count", "mixed"}[u]
}

type unitA struct {
	c     *Ctx
	memo  map[ssa.Value]Unit
	busy  map[ssa.Value]bool
	fmemo map[*types.Var]Unit
	fbusy map[*types.Var]bool
}

func newUnitA(c *Ctx) *unitA {
	return &unitA{c: c, memo: map[ssa.Value]Unit{}, busy: map[ssa.Value]bool{}, fmemo: map[*types.Var]Unit{}, fbusy: map[*types.Var]bool{}}
}

func joinUnit(a, b Unit) Unit {
	switch {
	case a == uUnknown || a == uConst:
		if b == uUnknown {
			return a
		}
		return b
	case b == uUnknown || b == uConst:
		return a
	case a == b:
		return a
	}
	return uTop
}

func isIntType(t types.Type) bool {
	bt, ok := t.Underlying().(*types.Basic)
	return ok && bt.Info()&types.IsInteger != 0
}

func (u *unitA) of(v ssa.Value) Unit {
	if v == nil {
		return uUnknown
	}
	v = u.c.resolve(v)
	if r, ok := u.memo[v]; ok {
		return r
	}
	if u.busy[v] {
		return uUnknown
	}
	u.busy[v] = true
	r := u.compute(v)
	delete(u.busy, v)
	u.memo[v] = r
	return r
}

func (u *unitA) compute(v ssa.Value) Unit {
	c := u.c
	switch x := v.(type) {
	case *ssa.Const:
		return uConst
	case *ssa.Call:
		if arg, ok := isLenCall(x); ok {
			switch t := arg.Type().Underlying().(type) {
			case *types.Basic:
				if t.Info()&types.IsString != 0 {
					return uBytes
				}
			case *types.Slice:
				if bt, ok := t.Elem().Underlying().(*types.Basic); ok {
					switch bt.Kind() {
					case types.Byte:
						return uBytes
					case types.Rune:
						return uRunes
					}
				}
				return uCount
			}
			return uCount
		}
		name := c.calleeName(x.Common())
		switch name {
		case "unicode/utf8.RuneCountInString", "unicode/utf8.RuneCount", "getTerminalColumns":
			return uRunes
		case "(*bytes.Buffer).Len", "strings.Index", "strings.LastIndex", "strings.IndexRune", "strings.IndexByte", "strings.IndexAny", "strings.LastIndexByte", "unicode/utf8.RuneLen":
			return uBytes
		case "(reflect.Value).Len", "invoke:Type.NumField", "invoke:Type.NumIn", "(reflect.Value).NumField":
			return uCount
		}
		if cal := x.Common().StaticCallee(); cal != nil && cal.Blocks != nil && cal.Pkg == c.Pkg && cal.Signature.Results().Len() == 1 && isIntType(cal.Signature.Results().At(0).Type()) {
			r := uUnknown
			for _, ret := range returnsOf(cal) {
				r = joinUnit(r, u.of(ret.Results[0]))
			}
			return r
		}
	case *ssa.Extract:
		switch t := x.Tuple.(type) {
		case *ssa.Call:
			name := c.calleeName(t.Common())
			if (name == "unicode/utf8.DecodeRuneInString" || name == "unicode/utf8.DecodeLastRuneInString" || name == "unicode/utf8.DecodeRune") && x.Index == 1 {
				return uBytes
			}
		case *ssa.Next:
			if t.IsString && x.Index == 1 {
				return uBytes // byte offset of the rune
			}
		}
	case *ssa.BinOp:
		switch x.Op {
		case token.ADD, token.SUB:
			return joinUnit(u.of(x.X), u.of(x.Y))
		}
		return uUnknown
	case *ssa.Phi:
		r := uUnknown
		for _, e := range x.Edges {
			r = joinUnit(r, u.of(e))
		}
		return r
	case *ssa.Convert:
		if isIntType(x.Type()) && isIntType(x.X.Type()) {
			return u.of(x.X)
		}
	case *ssa.UnOp:
		if x.Op == token.MUL {
			if fa, ok := x.X.(*ssa.FieldAddr); ok {
				return u.field(fieldObj(fa.X.Type(), fa.Field))
			}
		}
	case *ssa.Field:
		return u.field(fieldObj(x.X.Type(), x.Field))
	case *ssa.Parameter:
		fn := x.Parent()
		idx := -1
		for i, p := range fn.Params {
			if p == x {
				idx = i
			}
		}
		sites, _ := c.callersOf(fn)
		r := uUnknown
		for _, s := range sites {
			args := s.Call.Common().Args
			if idx >= 0 && idx < len(args) {
				r = joinUnit(r, u.of(args[idx]))
			}
		}
		return r
	}
	return uUnknown
}

func (u *unitA) field(f *types.Var) Unit {
	if f == nil || !isIntType(f.Type()) {
		return uUnknown
	}
	if r, ok := u.fmemo[f]; ok {
		return r
	}
	if u.fbusy[f] {
		return uUnknown
	}
	u.fbusy[f] = true
	r := uUnknown
	for _, s := range u.c.storesTo(f) {
		r = joinUnit(r, u.of(s.Store.Val))
	}
	delete(u.fbusy, f)
	u.fmemo[f] = r
	return r
}

func bytesVsChars(a, b Unit) bool {
	return (a == uBytes && b == uRunes) || (a == uRunes && b == uBytes)
}

type unitAllow struct {
	Func      string
	Construct string
	Max       int
	Reason    string
	used      int
}

// runUNIT checks U1/U2 over the scope.
func (c *Ctx) runUNIT(r *Report, rule string, scope map[*ssa.Function]bool, allow []*unitAllow) *unitA {
	u := newUnitA(c)
	for _, a := range allow {
		a.used = 0
	}
	report := func(fn *ssa.Function, in ssa.Instruction, construct, why string) {
		fname := c.fname(fn)
		owners := []string{fname}
		if c.isNew(fn) {
			owners = c.ownerNames(fn) // an extracted helper inherits the exceptions read for the code it was cut from
		}
		for _, a := range allow {
			own := false
			for _, o := range owners {
				if o == a.Func {
					own = true
				}
			}
			if own && strings.HasPrefix(construct, a.Construct) && a.used < a.Max {
				a.used++
				r.Allow(rule, fname, construct, c.ipos(in), a.Reason)
				return
			}
		}
		r.Fail(rule, fname, construct, c.ipos(in), why)
	}
	var fns []*ssa.Function
	for f := range scope {
		fns = append(fns, f)
	}
	sortFns(c, fns)
	for _, fn := range fns {
		if fn.Blocks == nil {
			continue
		}
		for _, b := range fn.Blocks {
			for _, in := range b.Instrs {
				switch x := in.(type) {
				case *ssa.BinOp:
					if !isIntType(x.X.Type()) || !isIntType(x.Y.Type()) {
						continue
					}
					switch x.Op {
					case token.ADD, token.SUB, token.LSS, token.GTR, token.LEQ, token.GEQ, token.EQL, token.NEQ:
						a, bb := u.of(x.X), u.of(x.Y)
						r.Sites++
						construct := "arith " + trunc(c.term(x), 140)
						if bytesVsChars(a, bb) {
							report(fn, in, construct, "U1: "+a.String()+" "+x.Op.String()+" "+bb.String()+" — a byte count is combined with a character/column count")
						} else if (a == uBytes || a == uRunes) && (bb == uBytes || bb == uRunes) {
							r.OK(rule, c.fname(fn), construct, c.ipos(in), "both operands are "+a.String())
						}
					}
				case *ssa.Slice:
					if bt, ok := x.X.Type().Underlying().(*types.Basic); ok && bt.Info()&types.IsString != 0 {
						for _, e := range []ssa.Value{x.Low, x.High} {
							if e == nil {
								continue
							}
							r.Sites++
							construct := "slice string " + trunc(c.term(x), 140)
							if u.of(e) == uRunes {
								report(fn, in, construct, "U2: a string is sliced at a character/column count ("+trunc(c.term(e), 60)+")")
							} else if u.of(e) == uBytes {
								r.OK(rule, c.fname(fn), construct, c.ipos(in), "bound is a byte offset")
							}
						}
					}
				case *ssa.Lookup:
					if bt, ok := x.X.Type().Underlying().(*types.Basic); ok && bt.Info()&types.IsString != 0 {
						r.Sites++
						if u.of(x.Index) == uRunes {
							report(fn, in, "index string "+trunc(c.term(x), 140), "U2: a string is indexed by a character/column count")
						}
					}
				}
			}
		}
	}
	return u
}

func sortFns(c *Ctx, fns []*ssa.Function) {
	for i := 1; i < len(fns); i++ {
		for j := i; j > 0 && c.fname(fns[j]) < c.fname(fns[j-1]); j-- {
			fns[j], fns[j-1] = fns[j-1], fns[j]
		}
	}
}
