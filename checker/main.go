package main

import (
	"encoding/json"
	"flag"
	"fmt"
	"go/types"
	"os"
	"path/filepath"
	"sort"
	"strconv"
	"strings"
	"time"

	"golang.org/x/tools/go/ssa"
)

type Property struct {
	Meta PropMeta
	Run  func(c *Ctx, r *Report, tier string)
	// Controls lists the engine controls this property's rules rely on.
	Controls []string
}

// propImports: rules of other properties that also decide a clause of this one (see importRules).
var propImports = map[string][][]string{
	"C01": {{"C02", "ADMISSIBLE", "CLUSTER", "RUNES", "SPLIT", "UNQUOTE"}, {"C19", "NOFLAG"}, {"C11", "KIND", "SIZE", "EXACT-STORE", "ERR", "TAG"}, {"C03", "TERMINATOR"}, {"C05", "FLAGS", "ENVKEY"}},
	"C02": {{"C03", "SYNTAX"}, {"C19", "MODEL"}},
	"C03": {{"C02", "ADMISSIBLE", "CLUSTER", "RUNES"}, {"C10", "BEFORE-COMMANDS"}, {"C08", "SCOPE"}},
	"C04": {{"C09", "ERR-recovery"}, {"C08", "SCOPE"}, {"C20", "TEXT"}},
	"C05": {{"C01", "REARM"}, {"C19", "MODEL"}},
	"C06": {{"C10", "BEFORE-COMMANDS"}, {"C19", "MODEL"}},
	"C07": {{"C09", "ERR-recovery"}, {"C02", "SPLIT"}, {"C08", "SCOPE"}, {"C19", "NOFLAG"}, {"C05", "ENVKEY"}},
	"C08": {{"C02", "RUNES"}, {"C19", "MODEL"}, {"C03", "PASSAFTER"}},
	"C09": {{"C06", "WALK", "SELECT", "POSITIONAL", "GATE"}, {"C19", "MODEL"}, {"C08", "SCOPE", "DIAGNOSE"}, {"C10", "BEFORE-COMMANDS"}, {"C04", "ERR-kept"}, {"C05", "FLAGS"}},
	"C10": {{"C03", "TERMINATOR", "PASSAFTER"}, {"C02", "CLUSTER", "RUNES"}, {"C11", "UNMARSHAL"}},
	"C11": {{"C02", "NEGATIVE"}, {"C05", "CLEAR"}, {"C04", "TYPED"}, {"C06", "RESULT"}, {"C10", "ORDER"}},
	"C12": {{"C13", "FUNNEL", "SECTION"}, {"C11", "TAG"}},
	"C13": {{"C05", "INI"}, {"C14", "LONGLINE"}},
	"C14": {{"C13", "PRIORITY", "SECTION"}, {"C11", "MAP"}},
	"C16": {{"C17", "UNIT"}, {"C05", "ENVKEY"}},
	"C17": {{"C16", "ATTR", "MASK"}},
	"C18": {{"C08", "SCOPE"}},
	"C19": {{"C05", "ENVKEY"}, {"C06", "POSITIONAL"}},
	"C20": {{"C16", "PRED"}},
}

var registry = map[string]*Property{}

func register(p *Property) { registry[p.Meta.ID] = p }

func main() {
	prop := flag.String("prop", "", "property id (C01..C20) or 'all'")
	tier := flag.String("tier", "quick", "quick|thorough")
	repo := flag.String("repo", "/repo", "repository working tree")
	out := flag.String("out", "/verif/evidence", "evidence directory")
	known := flag.String("known", "/verif/known_findings.json", "known findings file")
	ctlDir := flag.String("controls", "/verif/checker/testdata/controls", "positive-control package directory")
	dump := flag.String("dump", "", "dump SSA with terms for function (name or substring)")
	list := flag.Bool("list", false, "list functions")
	listSig := flag.Bool("listsig", false, "list named functions with their receiver+signature keys (to regenerate known_sigs.go)")
	auxFile := flag.String("aux", "", "JSON written by thorough.sh (mutant replay, compiler bounds-check list, windows build)")
	flag.Parse()

	start := time.Now()
	seed := 0
	if s := os.Getenv("VERIF_SEED"); s != "" {
		seed, _ = strconv.Atoi(s)
	}
	c, err := loadCtx(*repo, flagsPath)
	if err != nil {
		fmt.Println("FATAL:", err)
		if *prop != "" && *prop != "all" {
			r := NewReport(*prop)
			r.Fatalf("%v", err)
			meta := PropMeta{ID: *prop, Level: "other", Explanation: "load failed"}
			if p, ok := registry[*prop]; ok {
				meta = p.Meta
			}
			os.Exit(r.Finish(meta, *tier, seed, &KnownFindings{}, *out, start, strings.Join(os.Args, " ")))
		}
		os.Exit(1)
	}
	if *list {
		for _, f := range c.Funcs {
			fmt.Println(c.fname(f))
		}
		return
	}
	if *listSig && *dump == "fields" {
		sc := c.Types.Scope()
		for _, n := range sc.Names() {
			st, ok := sc.Lookup(n).Type().Underlying().(*types.Struct)
			if _, isT := sc.Lookup(n).(*types.TypeName); !ok || !isT {
				continue
			}
			for i := 0; i < st.NumFields(); i++ {
				fmt.Printf("%s\t%s\t%s\n", n, st.Field(i).Name(), types.TypeString(st.Field(i).Type(), func(p *types.Package) string {
					if p == c.Types {
						return ""
					}
					return p.Path()
				}))
			}
		}
		return
	}
	if *listSig {
		for _, f := range c.Funcs {
			if f.Parent() == nil {
				fmt.Printf("%s\t%s\n", c.fname(f), sigKey(c, f))
			}
		}
		return
	}
	if *dump != "" {
		for _, f := range c.Funcs {
			if c.fname(f) == *dump || (strings.HasPrefix(*dump, "~") && strings.Contains(c.fname(f), (*dump)[1:])) {
				c.dumpFn(f)
			}
		}
		return
	}
	kf, err := loadKnown(*known)
	if err != nil {
		fmt.Println("FATAL: known findings:", err)
		os.Exit(1)
	}
	var ids []string
	if *prop == "all" {
		for id := range registry {
			ids = append(ids, id)
		}
		sort.Strings(ids)
	} else {
		ids = []string{*prop}
	}
	var ctl *Ctx
	exit := 0
	for _, id := range ids {
		p, ok := registry[id]
		if !ok {
			fmt.Printf("unknown property %q\n", id)
			os.Exit(2)
		}
		t0 := time.Now()
		if *prop != "all" {
			t0 = start
		}
		r := NewReport(id)
		r.Extra["packages_loaded"] = c.NPkgs
		r.Extra["files_analysed"] = baseNames(c.Files)
		func() {
			defer func() {
				if e := recover(); e != nil {
					r.Fatalf("checker panic: %v", e)
					if os.Getenv("GFCHECK_TRACE") != "" {
						panic(e)
					}
				}
			}()
			p.Run(c, r, *tier)
			for _, imp := range propImports[p.Meta.ID] {
				c.importRules(r, imp[0], imp[1:]...)
			}
			if *auxFile != "" {
				applyAux(c, r, *auxFile)
			}
			if len(p.Controls) > 0 {
				if ctl == nil {
					var err error
					ctl, err = loadCtx(*ctlDir, "controls")
					if err != nil {
						r.Fatalf("controls: %v", err)
						return
					}
				}
				runControls(ctl, r, p.Controls)
			}
		}()
		meta := p.Meta
		meta.Explanation += " Rules added after the held-out validation rounds (DESIGN.md §10, §11) and rules of other properties evaluated under this one (named <Cyy>:<RULE>) appear by name, with the construct examined and the condition applied, among the obligations."
		if e := r.Finish(meta, *tier, seed, kf, *out, t0, strings.Join(os.Args, " ")); e != 0 {
			exit = 1
		}
	}
	os.Exit(exit)
}

func baseNames(fs []string) []string {
	var out []string
	for _, f := range fs {
		out = append(out, filepath.Base(f))
	}
	sort.Strings(out)
	return out
}

func (c *Ctx) dumpFn(f *ssa.Function) {
	fmt.Printf("=== %s\n", c.fname(f))
	for _, b := range f.Blocks {
		fmt.Printf(" b%d (%s) preds=%v\n", b.Index, b.Comment, blockIdx(b.Preds))
		for _, in := range b.Instrs {
			s := in.String()
			if v, ok := in.(ssa.Value); ok {
				fmt.Printf("   %s = %s\n        :: %s   @%s\n", v.Name(), s, c.term(v), c.pos(in.Pos()))
			} else {
				fmt.Printf("   %s   @%s\n", s, c.pos(in.Pos()))
			}
		}
		for si, s := range b.Succs {
			if l, ok := c.edgeLit(b, si); ok {
				fmt.Printf("   -> b%d when %s\n", s.Index, l)
			} else {
				fmt.Printf("   -> b%d\n", s.Index)
			}
		}
	}
}

func blockIdx(bs []*ssa.BasicBlock) []int {
	var out []int
	for _, b := range bs {
		out = append(out, b.Index)
	}
	return out
}

type auxData struct {
	Mutants        []map[string]interface{} `json:"mutants"`
	MutantsKilled  int                      `json:"mutants_killed"`
	MutantsTotal   int                      `json:"mutants_total"`
	MutantsSkipped int                      `json:"mutants_skipped"`
	MutantsMissed  []string                 `json:"mutants_missed"`
	BceSites       []string                 `json:"bce_sites"`
	WindowsBuildOK bool                     `json:"windows_build_ok"`
}

// applyAux merges the thorough-tier results: a seeded mutant of this property
// that is no longer caught means the rules went inert (failure); every bounds
// check the compiler could not prove inside an NP-scoped function must be an
// NP obligation (guards the enumerator against a missed SSA form).
func applyAux(c *Ctx, r *Report, path string) {
	b, err := os.ReadFile(path)
	if err != nil {
		r.Fatalf("thorough: cannot read %s: %v", path, err)
		return
	}
	var a auxData
	if err := json.Unmarshal(b, &a); err != nil {
		r.Fatalf("thorough: bad aux file: %v", err)
		return
	}
	r.Extra["mutants_killed"] = a.MutantsKilled
	r.Extra["mutants_total"] = a.MutantsTotal
	r.Extra["mutants_skipped"] = a.MutantsSkipped
	r.Extra["mutants"] = a.Mutants
	r.Extra["windows_build_ok"] = a.WindowsBuildOK
	if len(a.MutantsMissed) > 0 {
		r.Fatalf("thorough: seeded mutant(s) of this property are no longer detected: %s (the rules went inert)", strings.Join(a.MutantsMissed, ", "))
	}
	if !a.WindowsBuildOK {
		r.Notef("thorough: GOOS=windows build of /repo failed (no property verdict depends on it)")
	}
	// BCE cross-check
	npPos := map[string]bool{}
	npFuncs := map[string]bool{}
	hasNP := false
	for _, o := range r.Obs {
		if o.Rule == "NP" {
			hasNP = true
			npFuncs[o.Func] = true
			f, l, _ := posKey(o.Pos)
			npPos[fmt.Sprintf("%s:%d", f, l)] = true
		}
	}
	if !hasNP {
		return
	}
	if len(a.BceSites) == 0 {
		r.Notef("thorough: compiler bounds-check list empty — cross-check not run")
		r.Extra["bce_crosscheck"] = "not run"
		return
	}
	// map file:line → function of the package
	type span struct {
		file       string
		start, end int
		name       string
	}
	var spans []span
	for _, fn := range c.Funcs {
		if fn.Syntax() == nil {
			continue
		}
		ps, pe := c.Fset.Position(fn.Syntax().Pos()), c.Fset.Position(fn.Syntax().End())
		spans = append(spans, span{filepath.Base(ps.Filename), ps.Line, pe.Line, c.fname(fn)})
	}
	checked, missing := 0, 0
	var miss []string
	for _, s := range a.BceSites {
		parts := strings.SplitN(s, ":", 4)
		if len(parts) < 3 {
			continue
		}
		file := filepath.Base(parts[0])
		line, _ := strconv.Atoi(parts[1])
		// innermost enclosing function
		best := span{}
		for _, sp := range spans {
			if sp.file == file && sp.start <= line && line <= sp.end && (best.name == "" || sp.end-sp.start < best.end-best.start) {
				best = sp
			}
		}
		if best.name == "" || !npFuncs[best.name] {
			continue
		}
		checked++
		if !npPos[fmt.Sprintf("%s:%d", file, line)] {
			missing++
			miss = append(miss, fmt.Sprintf("%s:%d in %s", file, line, best.name))
		}
	}
	r.Extra["bce_sites_in_scope"] = checked
	r.Extra["bce_sites_without_obligation"] = miss
	if missing > 0 {
		r.Fatalf("thorough: %d bounds check(s) the compiler cannot prove lie in NP-scoped functions but are not NP obligations (enumerator gap): %s", missing, strings.Join(miss, "; "))
	}
}
