package main

import (
	"flag"
	"fmt"
	"os"
	"path/filepath"
	"sort"
	"strconv"
	"strings"
	"time"

	"golang.org/x/tools/go/ssa"
)

type Property struct {
	Meta PropMeta
	Run  func(c *Ctx, r *Report, tier string)
	// Controls lists the engine controls this property's rules rely on.
	Controls []string
}

var registry = map[string]*Property{}

func register(p *Property) { registry[p.Meta.ID] = p }

func main() {
	prop := flag.String("prop", "", "property id (C01..C20) or 'all'")
	tier := flag.String("tier", "quick", "quick|thorough")
	repo := flag.String("repo", "/repo", "repository working tree")
	out := flag.String("out", "/verif/evidence", "evidence directory")
	known := flag.String("known", "/verif/known_findings.json", "known findings file")
	ctlDir := flag.String("controls", "/verif/checker/testdata/controls", "positive-control package directory")
	dump := flag.String("dump", "", "dump SSA with terms for function (name or substring)")
	list := flag.Bool("list", false, "list functions")
	flag.Parse()

	start := time.Now()
	seed := 0
	if s := os.Getenv("VERIF_SEED"); s != "" {
		seed, _ = strconv.Atoi(s)
	}
	c, err := loadCtx(*repo, flagsPath)
	if err != nil {
		fmt.Println("FATAL:", err)
		if *prop != "" && *prop != "all" {
			r := NewReport(*prop)
			r.Fatalf("%v", err)
			meta := PropMeta{ID: *prop, Level: "other", Explanation: "load failed"}
			if p, ok := registry[*prop]; ok {
				meta = p.Meta
			}
			os.Exit(r.Finish(meta, *tier, seed, &KnownFindings{}, *out, start, strings.Join(os.Args, " ")))
		}
		os.Exit(1)
	}
	if *list {
		for _, f := range c.Funcs {
			fmt.Println(c.fname(f))
		}
		return
	}
	if *dump != "" {
		for _, f := range c.Funcs {
			if c.fname(f) == *dump || (strings.HasPrefix(*dump, "~") && strings.Contains(c.fname(f), (*dump)[1:])) {
				c.dumpFn(f)
			}
		}
		return
	}
	kf, err := loadKnown(*known)
	if err != nil {
		fmt.Println("FATAL: known findings:", err)
		os.Exit(1)
	}
	var ids []string
	if *prop == "all" {
		for id := range registry {
			ids = append(ids, id)
		}
		sort.Strings(ids)
	} else {
		ids = []string{*prop}
	}
	var ctl *Ctx
	exit := 0
	for _, id := range ids {
		p, ok := registry[id]
		if !ok {
			fmt.Printf("unknown property %q\n", id)
			os.Exit(2)
		}
		t0 := time.Now()
		if *prop != "all" {
			t0 = start
		}
		r := NewReport(id)
		r.Extra["packages_loaded"] = c.NPkgs
		r.Extra["files_analysed"] = baseNames(c.Files)
		func() {
			defer func() {
				if e := recover(); e != nil {
					r.Fatalf("checker panic: %v", e)
					if os.Getenv("GFCHECK_TRACE") != "" {
						panic(e)
					}
				}
			}()
			p.Run(c, r, *tier)
			if len(p.Controls) > 0 {
				if ctl == nil {
					var err error
					ctl, err = loadCtx(*ctlDir, "controls")
					if err != nil {
						r.Fatalf("controls: %v", err)
						return
					}
				}
				runControls(ctl, r, p.Controls)
			}
		}()
		if e := r.Finish(p.Meta, *tier, seed, kf, *out, t0, strings.Join(os.Args, " ")); e != 0 {
			exit = 1
		}
	}
	os.Exit(exit)
}

func baseNames(fs []string) []string {
	var out []string
	for _, f := range fs {
		out = append(out, filepath.Base(f))
	}
	sort.Strings(out)
	return out
}

func (c *Ctx) dumpFn(f *ssa.Function) {
	fmt.Printf("=== %s\n", c.fname(f))
	for _, b := range f.Blocks {
		fmt.Printf(" b%d (%s) preds=%v\n", b.Index, b.Comment, blockIdx(b.Preds))
		for _, in := range b.Instrs {
			s := in.String()
			if v, ok := in.(ssa.Value); ok {
				fmt.Printf("   %s = %s\n        :: %s   @%s\n", v.Name(), s, c.term(v), c.pos(in.Pos()))
			} else {
				fmt.Printf("   %s   @%s\n", s, c.pos(in.Pos()))
			}
		}
		for si, s := range b.Succs {
			if l, ok := c.edgeLit(b, si); ok {
				fmt.Printf("   -> b%d when %s\n", s.Index, l)
			} else {
				fmt.Printf("   -> b%d\n", s.Index)
			}
		}
	}
}

func blockIdx(bs []*ssa.BasicBlock) []int {
	var out []int
	for _, b := range bs {
		out = append(out, b.Index)
	}
	return out
}
