package main

// inline.go — "new function" transparency. A function that is not in the
// frozen knownFuncs list is treated as if it were inlined into its callers:
// terms see through its parameters and results, path queries descend into it,
// dominating facts and control dependence continue at its call site, and
// construct searches anchored at a known function also look inside it.

import (
	"golang.org/x/tools/go/ssa"
	"strings"
)

func (c *Ctx) isNew(fn *ssa.Function) bool {
	if fn == nil || fn.Blocks == nil {
		return false
	}
	if fn.Parent() != nil {
		// a local closure that is only called directly (a named local helper), not one passed around
		if rootFn(fn).Pkg != c.Pkg || c.allKnown || knownFuncs[c.fname(fn)] {
			return false
		}
		return c.calledOnly(fn)
	}
	if fn.Pkg != c.Pkg {
		return false
	}
	if transparentKnown[c.fname(fn)] {
		return true
	}
	if c.allKnown {
		return false
	}
	return !knownFuncs[c.fname(fn)]
}

// transparentKnown: small single-caller helpers of the pinned tree that maintainers inline and re-extract at will.
// They are always looked through (as a new helper would be), so that the rules about them are written once, over the
// code of their caller, and hold whether or not the helper exists as a function.
var transparentKnown = map[string]bool{
	"(*Parser).splitShortConcatArg": true,
	"(*Arg).isRemaining":            true,
	"optionIniName":                 true,
	"(*Group).groupByName":          true,
	"(*alignmentInfo).updateLen":    true,
	"maxCommandLength":              true,
}

// inlineSite returns the unique static call site of a new function (nil if it
// has none, several, or is used as a value).
func (c *Ctx) inlineSite(fn *ssa.Function) ssa.CallInstruction {
	if c.siteMemo == nil {
		c.siteMemo = map[*ssa.Function]ssa.CallInstruction{}
		c.siteDone = map[*ssa.Function]bool{}
	}
	if c.siteDone[fn] {
		return c.siteMemo[fn]
	}
	c.siteDone[fn] = true
	if !c.isNew(fn) {
		return nil
	}
	sites, asValue := c.callersOf(fn)
	if len(sites) != 1 || len(asValue) != 0 {
		return nil
	}
	// no recursion
	if sites[0].Fn == fn {
		return nil
	}
	c.siteMemo[fn] = sites[0].Call
	return sites[0].Call
}

// paramBinding resolves a parameter of a new function to the argument passed
// at its (unique, or currently active) call site.
func (c *Ctx) paramBinding(p *ssa.Parameter) (ssa.Value, bool) {
	fn := p.Parent()
	idx := -1
	for i, q := range fn.Params {
		if q == p {
			idx = i
		}
	}
	if idx < 0 {
		return nil, false
	}
	// an active frame (path search / term inlining of a specific call) wins
	for i := len(c.frames) - 1; i >= 0; i-- {
		if c.frames[i].Common().StaticCallee() == fn {
			args := c.frames[i].Common().Args
			if idx < len(args) {
				return args[idx], true
			}
		}
	}
	if site := c.inlineSite(fn); site != nil {
		args := site.Common().Args
		if idx < len(args) {
			return args[idx], true
		}
	}
	// a helper shared by several functions: when a rule is looking at one of them (the anchor it last
	// enumerated) and that anchor has exactly one call of the helper, use that call
	if c.anchorHint != nil && c.isNew(fn) && !c.inHint {
		c.inHint = true
		defer func() { c.inHint = false }()
		sites, asValue := c.callersOf(fn)
		if len(asValue) == 0 {
			var pick ssa.CallInstruction
			n := 0
			for _, s := range sites {
				root := rootFn(s.Fn)
				if root == rootFn(c.anchorHint) || c.actsFor(root, rootFn(c.anchorHint)) {
					pick = s.Call
					n++
				}
			}
			if n == 1 {
				args := pick.Common().Args
				if idx < len(args) {
					return args[idx], true
				}
			}
		}
	}
	return nil, false
}

// newCallees: new functions statically called from fn (transitively through new functions).
func (c *Ctx) newCallees(fn *ssa.Function) []*ssa.Function {
	var out []*ssa.Function
	seen := map[*ssa.Function]bool{fn: true}
	work := []*ssa.Function{fn}
	for len(work) > 0 {
		f := work[0]
		work = work[1:]
		for _, b := range f.Blocks {
			for _, in := range b.Instrs {
				ci, ok := in.(ssa.CallInstruction)
				if !ok {
					continue
				}
				cal := ci.Common().StaticCallee()
				if cal != nil && c.isNew(cal) && !seen[cal] {
					seen[cal] = true
					out = append(out, cal)
					work = append(work, cal)
				}
			}
		}
		// closures of f are part of f's own analysis elsewhere
	}
	return out
}

// rootOf walks up unique call sites of new functions to the enclosing known
// function, returning the chain of call sites (outermost first).
func (c *Ctx) callChain(fn *ssa.Function) (root *ssa.Function, chain []ssa.CallInstruction) {
	root = fn
	for i := 0; i < 6; i++ {
		site := c.inlineSite(root)
		if site == nil {
			break
		}
		chain = append([]ssa.CallInstruction{site}, chain...)
		root = site.Parent()
	}
	return
}

// activeSite: the call site in whose context a new function is currently analysed.
func (c *Ctx) activeSite(fn *ssa.Function) ssa.CallInstruction {
	for k := len(c.frames) - 1; k >= 0; k-- {
		if c.frames[k].Common().StaticCallee() == fn {
			return c.frames[k]
		}
	}
	return c.inlineSite(fn)
}

// ownerNames: the known functions on whose behalf a (possibly new) function runs:
// itself if known, else the known functions that call it through new functions only.
func (c *Ctx) ownerNames(fn *ssa.Function) []string {
	if !c.isNew(fn) {
		return []string{c.fname(fn)}
	}
	seen := map[*ssa.Function]bool{fn: true}
	work := []*ssa.Function{fn}
	set := map[string]bool{}
	for len(work) > 0 {
		f := work[0]
		work = work[1:]
		sites, _ := c.callersOf(f)
		for _, s := range sites {
			caller := s.Fn
			for caller.Parent() != nil { // closures belong to their enclosing function
				caller = caller.Parent()
			}
			if c.isNew(caller) {
				if !seen[caller] {
					seen[caller] = true
					work = append(work, caller)
				}
			} else {
				set[c.fname(s.Fn)] = true
				set[c.fname(caller)] = true
			}
		}
	}
	return sortedKeys(set)
}

// blocks: the basic blocks of fn and of the new helpers extracted from it.
func (c *Ctx) blocks(fn *ssa.Function) []*ssa.BasicBlock {
	c.anchorHint = fn
	out := append([]*ssa.BasicBlock{}, fn.Blocks...)
	for _, h := range c.newCallees(fn) {
		out = append(out, h.Blocks...)
	}
	return out
}

// Origin is one way a value can come about: a leaf value (term rendered in the
// frame it lives in) together with the place that selects it — the end of the
// predecessor block of a phi edge, or the return statement of a new helper.
type Origin struct {
	Val        ssa.Value
	Term       string
	At         ssa.Instruction // reaching this instruction (then Pred→Succ, if set) selects the origin
	Pred, Succ *ssa.BasicBlock
	Elems      []string // for a slice literal: the terms of its elements
}

// originsOf flattens phis and the results of new helpers into their leaf origins.
func (c *Ctx) originsOf(v ssa.Value, at ssa.Instruction) []Origin {
	return c.originsRec(v, at, nil, nil, 0, map[ssa.Value]bool{})
}

func (c *Ctx) originsRec(v ssa.Value, at ssa.Instruction, pred, succ *ssa.BasicBlock, depth int, seen map[ssa.Value]bool) []Origin {
	v = c.resolve(v)
	leaf := func() []Origin {
		o := Origin{Val: v, Term: c.term(v), At: at, Pred: pred, Succ: succ}
		for _, e := range sliceLitElems(v) {
			o.Elems = append(o.Elems, c.term(e))
		}
		return []Origin{o}
	}
	if depth > 6 || seen[v] {
		return leaf()
	}
	switch x := v.(type) {
	case *ssa.Phi:
		seen[v] = true
		var out []Origin
		for i, e := range x.Edges {
			p := x.Block().Preds[i]
			if c.resolve(e) == ssa.Value(x) {
				continue
			}
			out = append(out, c.originsRec(e, p.Instrs[len(p.Instrs)-1], p, x.Block(), depth+1, seen)...)
		}
		delete(seen, v)
		return out
	case *ssa.Call:
		if cal := x.Common().StaticCallee(); cal != nil && c.isNew(cal) && cal.Signature.Results().Len() == 1 {
			return c.retOrigins(x, cal, 0, depth, seen)
		}
	case *ssa.Extract:
		if call, ok := x.Tuple.(*ssa.Call); ok {
			if cal := call.Common().StaticCallee(); cal != nil && c.isNew(cal) {
				return c.retOrigins(call, cal, x.Index, depth, seen)
			}
		}
	}
	return leaf()
}

func (c *Ctx) retOrigins(call *ssa.Call, cal *ssa.Function, idx, depth int, seen map[ssa.Value]bool) []Origin {
	for _, f := range c.frames {
		if f.Common().StaticCallee() == cal {
			return []Origin{{Val: call, Term: c.term(call), At: call}}
		}
	}
	c.frames = append(c.frames, call)
	defer func() { c.frames = c.frames[:len(c.frames)-1] }()
	var out []Origin
	for _, ret := range returnsOf(cal) {
		if idx < len(ret.Results) {
			out = append(out, c.originsRec(ret.Results[idx], ret, nil, nil, depth+1, seen)...)
		}
	}
	return out
}

// reqAt: every path of fn that selects origin o passes an edge witnessing m.
func (c *Ctx) reqAt(fn *ssa.Function, o Origin, m LitMatch) bool {
	if o.Pred != nil && o.Succ != nil {
		if l, ok := c.edgeLitTo(o.Pred, o.Succ); ok && m(l) {
			return true
		}
		// follow the selecting edge itself (it may be decided by a named boolean the path has fixed): reach
		// the first instruction of Succ, entering only from Pred, with the witnessing edges deleted
		if o.Pred.Parent() == o.Succ.Parent() && len(o.Succ.Instrs) > 0 {
			pred, succ := o.Pred, o.Succ
			q := &PathQ{c: c, Fn: fn, CutLit: m, CutEdge: func(b *ssa.BasicBlock, si int) bool {
				return b.Succs[si] == succ && b != pred
			}}
			first := succ.Instrs[0]
			_, found := q.Reach(entrySite(fn), factUnknown, func(x ssa.Instruction) bool { return x == first })
			return !found
		}
	}
	at := o.At
	_, ok := c.Requires(fn, func(x ssa.Instruction) bool { return x == at }, m, nil)
	return ok
}

// loopsDeep: the natural loops of fn and of the new helpers extracted from it.
func (c *Ctx) loopsDeep(fn *ssa.Function) []*Loop {
	out := loopsOf(fn)
	for _, h := range c.newCallees(fn) {
		out = append(out, loopsOf(h)...)
	}
	return out
}

// inLoop: block b belongs to loop l, directly or because it lies in a new
// helper whose (unique) call chain enters from a block of l.
func (c *Ctx) inLoop(l *Loop, b *ssa.BasicBlock) bool {
	if l.Blocks[b] {
		return true
	}
	fn := b.Parent()
	for i := 0; i < 6 && fn != nil; i++ {
		site := c.inlineSite(fn)
		if site == nil && c.isNew(fn) {
			// a helper shared with other functions: the calls made from the loop's own function decide
			lf := rootFn(l.Header.Parent())
			sites, asV := c.callersOf(fn)
			n, in := 0, 0
			for _, s := range sites {
				if rootFn(s.Fn) != lf && !c.actsFor(rootFn(s.Fn), lf) {
					continue
				}
				n++
				if c.inLoop(l, s.Call.Block()) {
					in++
				}
			}
			return len(asV) == 0 && n > 0 && n == in
		}
		if site == nil || site.Block() == nil {
			return false
		}
		if l.Blocks[site.Block()] {
			return true
		}
		fn = site.Parent()
	}
	return false
}

// CtxInstr is an instruction together with the chain of helper call sites
// through which it is reached from the anchor function.
type CtxInstr struct {
	In     ssa.Instruction
	Frames []ssa.CallInstruction
}

// instrsCtx: like instrs, but an instruction inside a new helper is reported
// once per call chain leading to it, so that its operands can be rendered in
// the context of each caller.
func (c *Ctx) instrsCtx(fn *ssa.Function, p InstrPred) []CtxInstr {
	var out []CtxInstr
	var visit func(f *ssa.Function, frames []ssa.CallInstruction)
	visit = func(f *ssa.Function, frames []ssa.CallInstruction) {
		for _, b := range f.Blocks {
			for _, in := range b.Instrs {
				if p(in) {
					out = append(out, CtxInstr{in, append([]ssa.CallInstruction{}, frames...)})
				}
				ci, ok := in.(ssa.CallInstruction)
				if !ok || len(frames) >= 4 {
					continue
				}
				cal := ci.Common().StaticCallee()
				if cal == nil || !c.isNew(cal) {
					continue
				}
				rec := cal == fn
				for _, fr := range frames {
					if fr.Common().StaticCallee() == cal {
						rec = true
					}
				}
				if !rec {
					visit(cal, append(frames, ci))
				}
			}
		}
	}
	visit(fn, nil)
	return out
}

// within evaluates f with the given helper frames active (terms see the callers' arguments).
func (c *Ctx) within(frames []ssa.CallInstruction, f func()) {
	saved := c.frames
	c.frames = append(append([]ssa.CallInstruction{}, saved...), frames...)
	defer func() { c.frames = saved }()
	f()
}

// actsFor: fn is anchor itself or a new helper running only on behalf of anchor.
func (c *Ctx) actsFor(fn, anchor *ssa.Function) bool {
	if fn == anchor {
		return true
	}
	if !c.isNew(fn) {
		return false
	}
	own := c.ownerNames(fn)
	if len(own) == 0 {
		return false
	}
	an, rn := c.fname(anchor), c.fname(rootFn(anchor))
	hit := false
	for _, o := range own {
		switch {
		case o == an:
			hit = true
		case o == rn: // ownerNames lists a closure together with the function it is written in
		case anchor.Parent() == nil && strings.HasPrefix(o, an+"$"):
			hit = true // called from a closure of the anchor
		default:
			return false
		}
	}
	return hit
}

// actsAlsoFor: fn is anchor, or a new helper that anchor (possibly among other known functions) calls.
func (c *Ctx) actsAlsoFor(fn, anchor *ssa.Function) bool {
	if fn == anchor || c.actsFor(fn, anchor) {
		return true
	}
	if !c.isNew(fn) {
		return false
	}
	an := c.fname(anchor)
	for _, o := range c.ownerNames(fn) {
		if o == an {
			return true
		}
	}
	return false
}

// rootFn: the named function a closure (of any depth) is written in.
func rootFn(fn *ssa.Function) *ssa.Function {
	for fn != nil && fn.Parent() != nil {
		fn = fn.Parent()
	}
	return fn
}

// actsForC: like actsFor, for code inside closures: the enclosing named function is anchor,
// or a new helper running only on anchor's behalf.
func (c *Ctx) actsForC(fn, anchor *ssa.Function) bool {
	return c.actsFor(rootFn(fn), anchor)
}

// calledOnly: every use of the closure fn is a direct call of it (never stored, passed or returned).
func (c *Ctx) calledOnly(fn *ssa.Function) bool {
	if c.calledOnlyMemo == nil {
		c.calledOnlyMemo = map[*ssa.Function]bool{}
	}
	if v, ok := c.calledOnlyMemo[fn]; ok {
		return v
	}
	ok := false
	parent := fn.Parent()
	if parent != nil {
		ok = true
		n := 0
		for _, b := range parent.Blocks {
			for _, in := range b.Instrs {
				mc, isMC := in.(*ssa.MakeClosure)
				if !isMC || mc.Fn != ssa.Value(fn) {
					continue
				}
				n++
				if refs := mc.Referrers(); refs != nil {
					for _, r := range *refs {
						switch x := r.(type) {
						case *ssa.DebugRef:
						case ssa.CallInstruction:
							if x.Common().Value != ssa.Value(mc) {
								ok = false // passed as an argument
							}
						default:
							ok = false
						}
					}
				}
			}
		}
		if n == 0 {
			// a closure without free variables is referenced as a plain function value
			ok = false
		}
	}
	c.calledOnlyMemo[fn] = ok
	return ok
}
