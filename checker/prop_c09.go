package main

import (
	"fmt"
	"sort"
	"strings"

	"golang.org/x/tools/go/ssa"
)

func init() {
	register(&Property{
		Meta: PropMeta{
			ID:          "C09",
			Level:       "other",
			Explanation: "Path rules over the SSA control-flow graph of (*Parser).ParseArgs and its helpers, decided for all paths (hence all argument vectors): who may invoke Commander.Execute / Parser.CommandHandler (only ParseArgs); every dispatch site is reachable only through the edges `parseState.err == nil`, `internalError == nil`, `GO_FLAGS_COMPLETION empty` and ¬(commands present ∧ ¬SubcommandsOptional), and only after the defaults pass and checkRequired (must-pass-through with path-sensitive pruning of contradictory repeated conditions); no path runs two dispatches; every error value produced inside the argument loop reaches a store to parseState.err, a callee proven to store it on every non-nil return, or one of the two recoveries that are reachable only for ErrUnknownFlag; dispatch operand and success return are the same parseState.retargs; completion reaches no dispatch, Option.Set or Option.call; showBuiltinHelp always returns a non-nil ErrHelp error.",
			NotDecided:  "That user code does not call Execute itself; Go call semantics (trusted). The rules decide the control-flow and data-provenance shape that makes the property hold; they do not execute the parser.",
			Trusted:     []string{"go/ssa lowering (x/tools v0.29.0)", "go/types", "path-insensitive CFG over-approximation + sound pruning of contradictory repeated conditions", "Go call semantics"},
			Assumptions: []string{"user callbacks (Execute, CommandHandler, UnknownOptionHandler) are opaque: may return any error"},
		},
		Run:      runC09,
		Controls: []string{"path-req", "path-mpt", "path-nt"},
	})
}

const (
	litErrNonNil     = "nonnil(parseState.err("
	litCmdsNonEmpty  = "nonempty(Command.commands(parseState.command("
	litSubOptional   = "Command.SubcommandsOptional(parseState.command("
	litInternalErr   = "nonnil(Parser.internalError("
	litCompletionEnv = `nonempty(call:os.Getenv("GO_FLAGS_COMPLETION"))`
)

func (c *Ctx) dispatchPred() InstrPred {
	return orPred(c.isInvoke("Commander", "Execute"), c.isDynCallVia("Parser.CommandHandler("))
}

// storesErrSummary computes, for each package function returning error, whether
// every return of a possibly non-nil error has first stored parseState.err
// ("non-nil return ⇒ parseState.err stored"). Returns uncovered returns per fn.
type errSummary struct {
	uncovered map[*ssa.Function][]*ssa.Return
	ok        map[*ssa.Function]bool
}

func (c *Ctx) storesErrSummaries(r *Report) *errSummary {
	errField := c.Field("parseState", "err")
	s := &errSummary{uncovered: map[*ssa.Function][]*ssa.Return{}, ok: map[*ssa.Function]bool{}}
	if errField == nil {
		return s
	}
	// candidates: functions with a store to parseState.err or returning the result of such
	changed := true
	for iter := 0; changed && iter < 5; iter++ {
		changed = false
		for _, fn := range c.Funcs {
			rets := returnsOf(fn)
			if len(rets) == 0 || errResult(rets[0]) == nil {
				continue
			}
			var unc []*ssa.Return
			for _, ret := range rets {
				e := c.resolve(errResult(ret))
				if isConstNil(e) {
					continue
				}
				if call, ok := e.(*ssa.Call); ok {
					if cal := call.Common().StaticCallee(); cal != nil && s.ok[cal] {
						continue
					}
				}
				if _, found := c.MustPass(fn, isInstr(ret), c.isStoreTo(errField), nil, nil); found {
					continue
				}
				unc = append(unc, ret)
			}
			okNow := len(unc) == 0
			if okNow != s.ok[fn] || len(unc) != len(s.uncovered[fn]) {
				changed = true
			}
			s.ok[fn] = okNow
			s.uncovered[fn] = unc
		}
	}
	return s
}

func runC09(c *Ctx, r *Report, tier string) {
	r.Rule("WHO-dispatch", "Commander.Execute is invoked and Parser.CommandHandler is called only from (*Parser).ParseArgs", 2)
	r.Rule("REQ-gate", "REQ(dispatch; parseState.err == nil)", 2)
	r.Rule("MPT-required", "MPT(dispatch; via call (*parseState).checkRequired)", 2)
	r.Rule("MPT-defaults", "MPT(dispatch; via the eachOption pass that calls (*Option).clearDefault)", 2)
	r.Rule("REQ-cmd", "REQ(dispatch; ¬(len(command.commands) ≠ 0) ∨ command.SubcommandsOptional)", 2)
	r.Rule("REQ-internal", "REQ(dispatch; Parser.internalError == nil)", 2)
	r.Rule("REQ-nocompletion", "REQ(dispatch; len(GO_FLAGS_COMPLETION) == 0)", 2)
	r.Rule("NT-dispatch", "no path executes two dispatch sites", 1)
	r.Rule("ERR-blocks", "every error produced in the argument loop is stored to parseState.err (directly or by a callee proven to do so) or handled by a recovery reachable only for ErrUnknownFlag, on every path to the loop header or exit", 4)
	r.Rule("ERR-recovery", "REQ(recovery site; wrapError(err).Type == ErrUnknownFlag)", 2)
	r.Rule("ERR-summary", "callee summary: every return of a possibly non-nil error is preceded by a store to parseState.err (exceptions are checked against the dispatch-blocking predicate)", 2)
	r.Rule("SAME-args", "dispatched command: parseState.command.data; dispatch operand, success return and nothing else: parseState.retargs; failing return is printError(reterr) and printError returns its argument", 3)
	r.Rule("COMPLETE-pure", "functions reachable from (*completion).complete contain no dispatch and do not reach Option.Set / Option.call", 1)
	r.Rule("HELP-aborts", "every return of (*Parser).showBuiltinHelp is a non-nil *Error of type ErrHelp", 1)

	pa := c.mustFn(r, "(*Parser).ParseArgs")
	if pa == nil {
		return
	}
	facts := c.newFacts(pa)
	disp := c.dispatchPred()

	// R1
	all := c.instrs(nil, disp)
	for _, in := range all {
		fn := in.Parent()
		own := c.ownerNames(fn)
		r.Check(fn == pa || len(own) == 1 && own[0] == c.fname(pa), "WHO-dispatch", c.fname(fn), "dispatch "+dispatchDesc(c, in), c.ipos(in), "inside ParseArgs", "command dispatch outside (*Parser).ParseArgs")
	}
	sites := c.instrs(pa, disp)
	r.Sites += len(all)

	// R2
	for _, t := range sites {
		what := "dispatch " + dispatchDesc(c, t)
		c.reqRule(r, "REQ-gate", pa, t, what, litHas(false, litErrNonNil), "parseState.err == nil", facts)
		c.mptRule(r, "MPT-required", pa, t, what, c.isCallTo("(*parseState).checkRequired"), "call (*parseState).checkRequired", facts)
		c.mptRule(r, "MPT-defaults", pa, t, what, c.isCallPassingClosureThat("(*Command).eachOption", c.isCallTo("(*Option).clearDefault")), "eachOption(closure calling (*Option).clearDefault)", facts)
		c.reqRule(r, "REQ-cmd", pa, t, what, anyLit(litHas(false, litCmdsNonEmpty), litHas(true, litSubOptional)), "len(command.commands)==0 ∨ SubcommandsOptional", facts)
		c.reqRule(r, "REQ-internal", pa, t, what, litHas(false, litInternalErr), "internalError == nil", facts)
		c.reqRule(r, "REQ-nocompletion", pa, t, what, litHas(false, litCompletionEnv), "GO_FLAGS_COMPLETION empty", facts)
	}
	if detail, ok := c.NeverTwice(pa, disp, false, facts); ok {
		r.OK("NT-dispatch", c.fname(pa), "dispatch sites", c.ipos(firstOr(sites)), fmt.Sprintf("no path from one of the %d dispatch sites reaches another", len(sites)))
	} else {
		r.Fail("NT-dispatch", c.fname(pa), "dispatch sites", c.ipos(firstOr(sites)), "two dispatches on one path: "+detail)
	}

	// R3
	c.errBlocks(r, pa, facts)

	// R4
	for _, t := range sites {
		ci := t.(ssa.CallInstruction)
		args := ci.Common().Args
		a := args[len(args)-1]
		r.Check(strings.HasPrefix(c.term(a), "parseState.retargs("), "SAME-args", c.fname(pa), "operand of dispatch "+dispatchDesc(c, t), c.ipos(t), "operand is load(parseState.retargs)", "dispatch receives "+c.term(a)+" instead of parseState.retargs")
		// the command that runs is the innermost one the argument loop selected (parseState.command), taken from no other chain
		var who ssa.Value
		if ci.Common().IsInvoke() {
			who = ci.Common().Value
		} else if len(args) >= 2 {
			who = args[0]
		}
		if who != nil {
			wt := c.term(who)
			r.Check(wt == "nil" || strings.Contains(wt, "Group.data(Command.Group(parseState.command("), "SAME-args", c.fname(pa), "command run by dispatch "+dispatchDesc(c, t), c.ipos(t), "the Commander is parseState.command.data", "the dispatched command is "+trunc(wt, 120)+", not the command the argument loop selected")
		}
	}
	var okRet, failRet int
	for _, ret := range returnsOf(pa) {
		e := c.resolve(ret.Results[1])
		if isConstNil(e) {
			t0 := c.term(ret.Results[0])
			if t0 == "nil" {
				continue // early returns (internal error / completion) carry no arguments
			}
			okRet++
			r.Check(strings.HasPrefix(t0, "parseState.retargs("), "SAME-args", c.fname(pa), "success return", c.ipos(ret), "returns load(parseState.retargs)", "success return yields "+t0)
			continue
		}
		te := c.term(e)
		if strings.HasPrefix(te, "Parser.internalError(") {
			continue
		}
		failRet++
		r.Check(strings.HasPrefix(te, "call:(*Parser).printError(P0, "), "SAME-args", c.fname(pa), "failing return", c.ipos(ret), "returns printError(reterr)", "failing return yields "+te)
	}
	if okRet == 0 || failRet == 0 {
		r.Fail("SAME-args", c.fname(pa), "returns", "", fmt.Sprintf("expected a success and a failing return, found %d/%d", okRet, failRet))
	}
	if pe := c.mustFn(r, "(*Parser).printError"); pe != nil {
		good := true
		for _, ret := range returnsOf(pe) {
			if c.term(ret.Results[0]) != "P1" {
				good = false
				r.Fail("SAME-args", c.fname(pe), "return", c.ipos(ret), "printError returns "+c.term(ret.Results[0])+" instead of its argument")
			}
		}
		if good {
			r.OK("SAME-args", c.fname(pe), "returns its argument", c.ipos(firstRet(pe)), "every return operand is the err parameter")
		}
	}

	// R5
	if comp := c.mustFn(r, "(*completion).complete"); comp != nil {
		set, _ := c.reach([]*ssa.Function{comp}, nil)
		var bad []string
		for fn := range set {
			if len(c.instrs(fn, disp)) > 0 {
				bad = append(bad, c.fname(fn)+" contains a dispatch")
			}
			switch c.fname(fn) {
			case "(*Option).Set", "(*Option).call", "(*Option).setDefault", "(*Option).clearDefault":
				bad = append(bad, "reaches "+c.fname(fn))
			}
		}
		sort.Strings(bad)
		r.Extra["reach_complete"] = c.names(set)
		r.Check(len(bad) == 0, "COMPLETE-pure", c.fname(comp), "R(complete)", c.pos(comp.Pos()), fmt.Sprintf("%d functions reachable, none dispatches or sets an option", len(set)), strings.Join(bad, "; "))
	}

	// R6
	if sh := c.mustFn(r, "(*Parser).showBuiltinHelp"); sh != nil {
		for _, ret := range returnsOf(sh) {
			t := c.term(ret.Results[0])
			r.Check(strings.HasPrefix(t, "call:newError(ErrHelp,") || strings.HasPrefix(t, "call:newErrorf(ErrHelp,"), "HELP-aborts", c.fname(sh), "return", c.ipos(ret), "returns newError(ErrHelp, …) (never nil)", "returns "+t)
		}
	}
}

func firstOr(ins []ssa.Instruction) ssa.Instruction {
	if len(ins) == 0 {
		return nil
	}
	return ins[0]
}
func firstRet(fn *ssa.Function) ssa.Instruction {
	rs := returnsOf(fn)
	if len(rs) == 0 {
		return nil
	}
	return rs[0]
}

func dispatchDesc(c *Ctx, in ssa.Instruction) string {
	ci := in.(ssa.CallInstruction)
	if ci.Common().IsInvoke() {
		return "invoke Commander.Execute"
	}
	a0 := "cmd"
	if len(ci.Common().Args) > 0 && isConstNil(ci.Common().Args[0]) {
		a0 = "nil"
	}
	return "call via Parser.CommandHandler(" + a0 + ")"
}

// mainLoop: the loop of fn that contains a call to (*parseState).pop.
func (c *Ctx) loopContaining(fn *ssa.Function, p InstrPred) *Loop {
	loops := c.loopsDeep(fn)
	var best *Loop
	for _, in := range c.instrs(fn, p) {
		for _, l := range loops {
			if l.Blocks[in.Block()] && (best == nil || l.size() > best.size()) {
				best = l
			}
		}
	}
	return best
}

func (c *Ctx) errBlocks(r *Report, pa *ssa.Function, facts *Facts) {
	errField := c.mustField(r, "parseState", "err")
	if errField == nil {
		return
	}
	loop := c.loopContaining(pa, c.isCallTo("(*parseState).pop"))
	if loop == nil {
		r.Fatalf("unresolved anchor: argument loop (loop calling (*parseState).pop) not found in ParseArgs")
		return
	}
	sum := c.storesErrSummaries(r)
	fname := c.fname(pa)

	// summaries and their exceptions
	for _, name := range []string{"(*parseState).addArgs", "(*Parser).parseNonOption"} {
		fn := c.mustFn(r, name)
		if fn == nil {
			continue
		}
		if sum.ok[fn] {
			r.OK("ERR-summary", name, "non-nil return ⇒ parseState.err stored", c.pos(fn.Pos()), "every return of a possibly non-nil error is dominated on all paths by a store to parseState.err or returns the result of such a callee")
			continue
		}
		for _, ret := range sum.uncovered[fn] {
			what := "return " + c.term(errResult(ret)) + " without storing parseState.err"
			if len(what) > 160 {
				what = what[:160] + "…"
			}
			// exception: blocked from dispatch by the very predicate that gates dispatch, on an unchanged parseState.command
			_, ok1 := c.Requires(fn, isInstr(ret), litHas(true, litCmdsNonEmpty), nil)
			_, ok2 := c.Requires(fn, isInstr(ret), litHas(false, litSubOptional), nil)
			cmdField := c.Field("parseState", "command")
			mayStoreCmd := c.mayStoreFns(cmdField)
			storesCmd := func(in ssa.Instruction) bool {
				if c.isStoreTo(cmdField)(in) {
					return true
				}
				if ci, ok := in.(ssa.CallInstruction); ok {
					if cal := ci.Common().StaticCallee(); cal != nil && mayStoreCmd[cal] {
						return true
					}
				}
				return false
			}
			tainted := false
			for _, st := range c.instrs(fn, storesCmd) {
				if c.reachableFrom(fn, st, isInstr(ret)) {
					tainted = true
				}
			}
			if ok1 && ok2 && !tainted {
				r.OK("ERR-summary", name, what, c.ipos(ret), "exception accepted: reachable only when len(command.commands) ≠ 0 ∧ ¬SubcommandsOptional on an unchanged parseState.command — the same predicate that blocks every dispatch site (REQ-cmd)")
			} else {
				r.Fail("ERR-summary", name, what, c.ipos(ret), "an error is returned without recording it in parseState.err and without being blocked by the command-required predicate")
			}
		}
	}

	// an error from applying a default / environment value is recorded whatever its type (a typed
	// ErrInvalidChoice as much as a foreign conversion error): from the non-nil edge of clearDefault's result
	// every path to the closure's return passes a store to parseState.err
	for _, cs := range func() []CallSite { s, _ := c.callersOf(c.Fn("(*Option).clearDefault")); return s }() {
		fn := cs.Fn
		call, ok := cs.Call.(*ssa.Call)
		if !ok || call.Referrers() == nil {
			r.Fail("MPT-defaults", c.fname(fn), "error of clearDefault", c.ipos(cs.Call), "the error result is dropped")
			continue
		}
		nT := 0
		for _, b := range c.blocks(fn) {
			iff, isIf := b.Instrs[len(b.Instrs)-1].(*ssa.If)
			if !isIf {
				continue
			}
			bo, isBo := iff.Cond.(*ssa.BinOp)
			if !isBo || !(isConstNil(bo.X) || isConstNil(bo.Y)) || (c.resolve(bo.X) != ssa.Value(call) && c.resolve(bo.Y) != ssa.Value(call)) {
				continue
			}
			nT++
			succ := 0
			if l := c.cond(iff.Cond); !l.Pos {
				succ = 1
			}
			recorded := func(x ssa.Instruction) bool {
				if c.isStoreTo(errField)(x) {
					return true
				}
				// in a helper extracted from ParseArgs the closure may hand the error back through a captured
				// variable that the helper returns and ParseArgs stores
				if st, ok := x.(*ssa.Store); ok && isErrorType(st.Val.Type()) {
					if _, isFV := st.Addr.(*ssa.FreeVar); isFV && rootFn(fn) != pa && c.actsFor(rootFn(fn), pa) {
						for _, s2 := range c.storesTo(errField) {
							if s2.Fn == pa && strings.HasPrefix(c.term(s2.Store.Val), "cell:error") {
								return true
							}
						}
					}
				}
				return false
			}
			q := &PathQ{c: c, Fn: fn, CutIn: recorded}
			path, found := q.Reach(Site{b.Succs[succ], 0}, 0, func(x ssa.Instruction) bool { _, isRet := x.(*ssa.Return); return isRet && x.Parent() == fn })
			r.Check(!found, "MPT-defaults", c.fname(fn), "a failing default is recorded", c.ipos(iff), "non-nil error of clearDefault ⇒ store parseState.err on every path", "a default/env value that fails can leave no trace in parseState.err (the command then runs): "+pathStr(path))
		}
		if nT == 0 {
			r.Fail("MPT-defaults", c.fname(fn), "error of clearDefault", c.ipos(cs.Call), "the error result is never tested")
		}
	}
	inLoop := func(in ssa.Instruction) bool { return loop.Blocks[in.Block()] }
	recov := orPred(
		func(in ssa.Instruction) bool {
			ci, ok := in.(ssa.CallInstruction)
			if !ok || c.calleeName(ci.Common()) != "(*parseState).addArgs" {
				return false
			}
			return strings.Contains(c.term(ci.Common().Args[len(ci.Common().Args)-1]), "new:[1]string") && argsHoldPop(c, ci)
		},
		c.isDynCallVia("Parser.UnknownOptionHandler("))
	storeErr := c.isStoreTo(errField)

	// every error-producing call in the loop
	n := 0
	for _, b := range c.blocks(pa) {
		if !c.inLoop(loop, b) {
			continue
		}
		for _, in := range b.Instrs {
			ci, ok := in.(ssa.CallInstruction)
			if !ok {
				continue
			}
			evs := errValuesOfCall(ci)
			sig := ci.Common().Signature().Results()
			if sig.Len() == 0 || !isErrorType(sig.At(sig.Len()-1).Type()) {
				continue
			}
			n++
			name := c.calleeName(ci.Common())
			if name == "" {
				name = "dyncall " + c.term(ci.Common().Value)
			}
			what := "error result of " + name
			if cal := ci.Common().StaticCallee(); cal != nil && (sum.ok[cal] || (c.fname(cal) == "(*Parser).parseNonOption" && sum.uncovered[cal] != nil)) {
				r.OK("ERR-blocks", fname, what, c.ipos(in), "callee summary: non-nil return ⇒ parseState.err stored (ERR-summary)")
				continue
			}
			if len(evs) == 0 {
				r.Fail("ERR-blocks", fname, what, c.ipos(in), "error result is discarded and the callee does not record it")
				continue
			}
			// find the tests of the value
			flows := map[ssa.Value]bool{}
			flowCtx = c
			for _, ev := range evs {
				for v := range flowsTo(ev) {
					flows[v] = true
				}
			}
			tested := 0
			okAll := true
			for _, bb := range c.blocks(pa) {
				if len(bb.Instrs) == 0 {
					continue
				}
				iff, ok := bb.Instrs[len(bb.Instrs)-1].(*ssa.If)
				if !ok {
					continue
				}
				bo, ok := iff.Cond.(*ssa.BinOp)
				if !ok {
					continue
				}
				var v ssa.Value
				if isConstNil(bo.Y) {
					v = bo.X
				} else if isConstNil(bo.X) {
					v = bo.Y
				}
				if v == nil || !flows[v] {
					continue
				}
				tested++
				succ := 0
				if l := c.cond(iff.Cond); !l.Pos { // cond is "== nil": non-nil edge is the false edge
					succ = 1
				}
				start := bb.Succs[succ]
				q := &PathQ{c: c, Fn: pa, CutIn: orPred(storeErr, recov), Facts: facts, InitNil: []nilKnow{{v, false}}}
				// seed the fact state with the edge taken
				st, _ := facts.edge(bb, succ, 0)
				var after *ssa.BasicBlock // the block following the loop (header's exit successor)
				for _, hs := range loop.Header.Succs {
					if !loop.Blocks[hs] {
						after = hs
					}
				}
				target := func(x ssa.Instruction) bool {
					if _, isRet := x.(*ssa.Return); isRet {
						return x.Parent() == pa
					}
					xb := x.Block()
					if x != xb.Instrs[0] {
						return false
					}
					return xb == loop.Header || xb == after
				}
				if path, found := q.Reach(Site{start, 0}, st, target); found {
					okAll = false
					r.Fail("ERR-blocks", fname, what, c.ipos(iff), "a non-nil error leaves the iteration without being stored to parseState.err or handled by a recovery: "+pathStr(path))
				}
			}
			if tested == 0 {
				r.Fail("ERR-blocks", fname, what, c.ipos(in), "error value is never tested against nil")
			} else if okAll {
				r.OK("ERR-blocks", fname, what, c.ipos(in), fmt.Sprintf("on the non-nil edge of %d test(s) every path to the loop header/exit passes a store to parseState.err or a recovery", tested))
			}
		}
	}
	_ = inLoop
	if n == 0 {
		r.Fail("ERR-blocks", fname, "error-producing calls in the argument loop", "", "none found")
	}
	// recoveries
	recSites := c.instrs(pa, recov)
	for _, as := range c.addArgsSites(pa) {
		// the re-queue reached through a new wrapper: judged at the wrapper call
		if as.Kind == "pop" {
			dup := false
			for _, x := range recSites {
				if x == as.Site {
					dup = true
				}
			}
			if !dup && as.Site.Parent() == pa {
				recSites = append(recSites, as.Site)
			}
		}
	}
	for _, in := range recSites {
		if !c.inLoop(loop, in.Block()) {
			continue
		}
		ci := in.(ssa.CallInstruction)
		desc := c.calleeName(ci.Common())
		if desc == "" {
			desc = "call via Parser.UnknownOptionHandler"
		} else {
			desc = "re-queue addArgs(arg)"
		}
		c.reqRule(r, "ERR-recovery", pa, in, "recovery "+desc, litHas(true, "eq(ErrUnknownFlag, Error.Type(call:wrapError("), "wrapError(err).Type == ErrUnknownFlag", facts)
	}
}

// argsHoldPop: the single variadic element stored is the value returned by pop() in this iteration.
func argsHoldPop(c *Ctx, ci ssa.CallInstruction) bool {
	args := ci.Common().Args
	sl, ok := args[len(args)-1].(*ssa.Slice)
	if !ok {
		return false
	}
	al, ok := sl.X.(*ssa.Alloc)
	if !ok {
		return false
	}
	for _, ref := range *al.Referrers() {
		if ia, ok := ref.(*ssa.IndexAddr); ok {
			for _, r2 := range *ia.Referrers() {
				if st, ok := r2.(*ssa.Store); ok {
					if strings.HasPrefix(c.term(st.Val), "call:(*parseState).pop(") {
						return true
					}
				}
			}
		}
	}
	return false
}
