package main

// path.go — path rules over one function's SSA CFG at instruction granularity:
// reachability with deleted edges / cut instructions and one tracked nil-ness
// predicate; must-pass-through, requires-edge, never-twice, control dependence.

import (
	"fmt"
	"strings"

	"golang.org/x/tools/go/ssa"
)

type Site struct {
	B *ssa.BasicBlock
	I int
}

func siteOf(in ssa.Instruction) Site {
	b := in.Block()
	for i, x := range b.Instrs {
		if x == in {
			return Site{b, i}
		}
	}
	return Site{b, 0}
}

// PathQ is a reachability query.
type PathQ struct {
	c       *Ctx
	Fn      *ssa.Function
	CutIn   func(ssa.Instruction) bool              // passing this instruction ends the path
	CutEdge func(b *ssa.BasicBlock, succ int) bool // deleted edges
	Facts   *Facts // optional path-sensitivity on repeated branch conditions
	NoBack  bool   // do not follow back edges (target dominates source)
}

type pstate struct {
	b    *ssa.BasicBlock
	fact uint64
}

const factUnknown = uint64(0)

// Reach searches from site `from` (exclusive of instructions before from.I)
// for an instruction satisfying target. Returns the block path if found.
func (q *PathQ) Reach(from Site, startFact uint64, target func(ssa.Instruction) bool) ([]string, bool) {
	type item struct {
		b    *ssa.BasicBlock
		i    int
		fact uint64
		prev *item
	}
	seen := map[pstate]bool{}
	var work []*item
	work = append(work, &item{from.B, from.I, startFact, nil})
	for len(work) > 0 {
		it := work[len(work)-1]
		work = work[:len(work)-1]
		if it.i == 0 {
			st := pstate{it.b, it.fact}
			if seen[st] {
				continue
			}
			seen[st] = true
		}
		fact := it.fact
		cut := false
		for i := it.i; i < len(it.b.Instrs); i++ {
			in := it.b.Instrs[i]
			if target(in) {
				var path []string
				for p := it; p != nil; p = p.prev {
					path = append([]string{q.blockDesc(p.b)}, path...)
				}
				return path, true
			}
			if q.CutIn != nil && q.CutIn(in) {
				cut = true
				break
			}
			if q.Facts != nil {
				fact = q.Facts.step(in, fact)
			}
		}
		if cut {
			continue
		}
		for si, s := range it.b.Succs {
			if q.CutEdge != nil && q.CutEdge(it.b, si) {
				continue
			}
			if q.NoBack && s.Dominates(it.b) {
				continue
			}
			nf := fact
			if q.Facts != nil {
				var ok bool
				nf, ok = q.Facts.edge(it.b, si, fact)
				if !ok {
					continue
				}
			}
			work = append(work, &item{s, 0, nf, it})
		}
	}
	return nil, false
}

func (q *PathQ) blockDesc(b *ssa.BasicBlock) string {
	pos := ""
	for _, in := range b.Instrs {
		if in.Pos().IsValid() {
			pos = q.c.pos(in.Pos())
			break
		}
	}
	return fmt.Sprintf("b%d(%s)@%s", b.Index, b.Comment, pos)
}

func entrySite(fn *ssa.Function) Site { return Site{fn.Blocks[0], 0} }

// ---- rule helpers ---------------------------------------------------------------

type LitMatch func(l Lit) bool

// litIs matches an exact literal.
func litIs(term string, pos bool) LitMatch {
	return func(l Lit) bool { return l.Term == term && l.Pos == pos }
}

// litHas matches a literal whose term contains all substrings, with polarity.
func litHas(pos bool, subs ...string) LitMatch {
	return func(l Lit) bool {
		if l.Pos != pos {
			return false
		}
		for _, s := range subs {
			if !strings.Contains(l.Term, s) {
				return false
			}
		}
		return true
	}
}

func anyLit(ms ...LitMatch) LitMatch {
	return func(l Lit) bool {
		for _, m := range ms {
			if m(l) {
				return true
			}
		}
		return false
	}
}

// cutEdges builds a CutEdge function deleting every edge that witnesses m.
func (c *Ctx) cutEdges(m LitMatch) func(b *ssa.BasicBlock, succ int) bool {
	return func(b *ssa.BasicBlock, succ int) bool {
		l, ok := c.edgeLit(b, succ)
		return ok && m(l)
	}
}

// Requires: every path from entry to target passes an edge witnessing m
// (REQ(T; m)). Returns offending path when violated.
func (c *Ctx) Requires(fn *ssa.Function, target func(ssa.Instruction) bool, m LitMatch, tr *Facts) ([]string, bool) {
	q := &PathQ{c: c, Fn: fn, CutEdge: c.cutEdges(m), Facts: tr}
	path, found := q.Reach(entrySite(fn), factUnknown, target)
	return path, !found
}

// MustPass: every path from entry to target passes an instruction matching via
// (or an edge witnessing viaEdge, if non-nil).
func (c *Ctx) MustPass(fn *ssa.Function, target, via func(ssa.Instruction) bool, viaEdge LitMatch, tr *Facts) ([]string, bool) {
	q := &PathQ{c: c, Fn: fn, CutIn: via, Facts: tr}
	if viaEdge != nil {
		q.CutEdge = c.cutEdges(viaEdge)
	}
	path, found := q.Reach(entrySite(fn), factUnknown, target)
	return path, !found
}

// NeverTwice: no path from just after a site matching x reaches a site
// matching x. perIteration: back edges are not followed.
func (c *Ctx) NeverTwice(fn *ssa.Function, x func(ssa.Instruction) bool, perIteration bool, tr *Facts) (string, bool) {
	for _, b := range fn.Blocks {
		for i, in := range b.Instrs {
			if !x(in) {
				continue
			}
			q := &PathQ{c: c, Fn: fn, NoBack: perIteration, Facts: tr}
			if path, found := q.Reach(Site{b, i + 1}, factUnknown, x); found {
				return fmt.Sprintf("from %s via %s", c.ipos(in), strings.Join(path, " → ")), false
			}
		}
	}
	return "", true
}

// reachableFrom: can target be reached from just after `from`?
func (c *Ctx) reachableFrom(fn *ssa.Function, from ssa.Instruction, target func(ssa.Instruction) bool) bool {
	s := siteOf(from)
	q := &PathQ{c: c, Fn: fn}
	_, found := q.Reach(Site{s.B, s.I + 1}, factUnknown, target)
	return found
}

// ---- control dependence -----------------------------------------------------

// postDom computes immediate post-dominators with a virtual exit (index -1).
func postDom(fn *ssa.Function) map[*ssa.BasicBlock]*ssa.BasicBlock {
	// iterative data-flow on sets (functions are small)
	n := len(fn.Blocks)
	all := make([]bool, n)
	for i := range all {
		all[i] = true
	}
	pd := make([][]bool, n) // pd[b][x] : x post-dominates b
	isExit := func(b *ssa.BasicBlock) bool { return len(b.Succs) == 0 }
	for i, b := range fn.Blocks {
		pd[i] = make([]bool, n)
		if isExit(b) {
			pd[i][i] = true
		} else {
			copy(pd[i], all)
		}
	}
	changed := true
	for changed {
		changed = false
		for i := n - 1; i >= 0; i-- {
			b := fn.Blocks[i]
			if isExit(b) {
				continue
			}
			nw := make([]bool, n)
			copy(nw, all)
			for _, s := range b.Succs {
				for x := 0; x < n; x++ {
					nw[x] = nw[x] && pd[s.Index][x]
				}
			}
			nw[i] = true
			for x := 0; x < n; x++ {
				if nw[x] != pd[i][x] {
					changed = true
				}
			}
			pd[i] = nw
		}
	}
	// immediate: the strict post-dominator that is post-dominated by all other strict ones
	ipd := map[*ssa.BasicBlock]*ssa.BasicBlock{}
	for i, b := range fn.Blocks {
		var cands []int
		for x := 0; x < n; x++ {
			if x != i && pd[i][x] {
				cands = append(cands, x)
			}
		}
		for _, x := range cands {
			ok := true
			for _, y := range cands {
				if y != x && !pd[x][y] {
					ok = false
				}
			}
			if ok {
				ipd[b] = fn.Blocks[x]
			}
		}
	}
	return ipd
}

type CtlDep struct {
	B    *ssa.BasicBlock // the branching block
	Succ int             // the successor edge the dependent is reached through
}

// controlDeps returns the transitive closure of the (block, edge) pairs the
// block t is control dependent on.
func (c *Ctx) controlDeps(fn *ssa.Function, t *ssa.BasicBlock) []CtlDep {
	ipd := postDom(fn)
	pdoms := func(x, b *ssa.BasicBlock) bool { // x post-dominates b (reflexive)
		for cur := b; cur != nil; cur = ipd[cur] {
			if cur == x {
				return true
			}
		}
		return false
	}
	direct := func(t *ssa.BasicBlock) []CtlDep {
		var out []CtlDep
		for _, a := range fn.Blocks {
			if len(a.Succs) < 2 {
				continue
			}
			for si, s := range a.Succs {
				// t is control dependent on (a,si) if t post-dominates s and t does not strictly post-dominate a
				if pdoms(t, s) && !(t != a && pdoms(t, a)) {
					out = append(out, CtlDep{a, si})
				}
			}
		}
		return out
	}
	seen := map[*ssa.BasicBlock]bool{}
	seenDep := map[CtlDep]bool{}
	var out []CtlDep
	work := []*ssa.BasicBlock{t}
	for len(work) > 0 {
		b := work[len(work)-1]
		work = work[:len(work)-1]
		if seen[b] {
			continue
		}
		seen[b] = true
		for _, d := range direct(b) {
			if !seenDep[d] {
				seenDep[d] = true
				out = append(out, d)
			}
			work = append(work, d.B)
		}
	}
	return out
}

// isLoopCond reports whether the branch in block b is a loop header test
// (range / counted loop): one successor leads back to b.
func isLoopHeader(b *ssa.BasicBlock) bool {
	for _, p := range b.Preds {
		if b.Dominates(p) {
			return true
		}
	}
	return false
}
