package main

// path.go — path rules over one function's SSA CFG at instruction granularity:
// reachability with deleted edges / cut instructions and one tracked nil-ness
// predicate; must-pass-through, requires-edge, never-twice, control dependence.

import (
	"fmt"
	"go/constant"
	"go/token"
	"go/types"
	"strings"

	"golang.org/x/tools/go/ssa"
)

type Site struct {
	B *ssa.BasicBlock
	I int
}

func siteOf(in ssa.Instruction) Site {
	b := in.Block()
	for i, x := range b.Instrs {
		if x == in {
			return Site{b, i}
		}
	}
	return Site{b, 0}
}

// PathQ is a reachability query over the CFG of Fn, descending into the
// bodies of "new" (non-frozen) helper functions as if they were inlined.
type PathQ struct {
	c         *Ctx
	Fn        *ssa.Function
	CutIn     func(ssa.Instruction) bool             // passing this instruction ends the path
	CutEdge   func(b *ssa.BasicBlock, succ int) bool // deleted edges (static literal)
	CutLit    LitMatch                               // deleted edges: those whose (path-resolved) literal matches
	Facts     *Facts                                 // optional path-sensitivity on repeated branch conditions
	NoBack    bool                                   // do not follow back edges (target dominates source)
	base      []ssa.CallInstruction                  // frames active when the query started
	noDescend bool                                   // stay inside Fn (do not enter new helpers)
	InitNil   []nilKnow                              // nil knowledge holding at the start site (the edge just taken)
}

type pstate struct {
	b     *ssa.BasicBlock
	fact  uint64
	stack string
	memo  string
}

const factUnknown = uint64(0)

type frameNode struct {
	call ssa.CallInstruction
	ret  Site
	up   *frameNode
	id   string
}

// memoNode records, along one path, which value a boolean phi or the result of
// a descended helper call took.
type memoNode struct {
	key  ssa.Value
	idx  int // result index for calls
	val  ssa.Value
	up   *memoNode
	sign string
	fr   *frameNode // the helper frame the value lives in (call results), nil for the current function
}

func (m *memoNode) lookup(k ssa.Value, idx int) (ssa.Value, bool) {
	for n := m; n != nil; n = n.up {
		if n.key == k && n.idx == idx {
			return n.val, true
		}
	}
	return nil, false
}

func (m *memoNode) lookupFr(k ssa.Value, idx int) (ssa.Value, *frameNode, bool) {
	for n := m; n != nil; n = n.up {
		if n.key == k && n.idx == idx {
			return n.val, n.fr, true
		}
	}
	return nil, nil, false
}

func (m *memoNode) sig() string {
	if m == nil {
		return ""
	}
	return m.sign
}

func pushMemo(m *memoNode, k ssa.Value, idx int, v ssa.Value, fr *frameNode) *memoNode {
	// replace an older decision for the same key (keeps the chain short and the signature canonical per key)
	var keep []*memoNode
	for n := m; n != nil; n = n.up {
		if !(n.key == k && n.idx == idx) {
			keep = append(keep, n)
		}
	}
	var out *memoNode
	for i := len(keep) - 1; i >= 0; i-- {
		n := keep[i]
		out = &memoNode{key: n.key, idx: n.idx, val: n.val, up: out, fr: n.fr}
		out.sign = out.upSig() + memoEntrySig(n.key, n.idx, n.val)
	}
	nn := &memoNode{key: k, idx: idx, val: v, up: out, fr: fr}
	nn.sign = nn.upSig() + memoEntrySig(k, idx, v)
	return nn
}

// dropMemo removes the decision recorded for (k, idx).
func dropMemo(m *memoNode, k ssa.Value, idx int) *memoNode {
	var keep []*memoNode
	for n := m; n != nil; n = n.up {
		if !(n.key == k && n.idx == idx) {
			keep = append(keep, n)
		}
	}
	var out *memoNode
	for i := len(keep) - 1; i >= 0; i-- {
		n := keep[i]
		out = &memoNode{key: n.key, idx: n.idx, val: n.val, up: out, fr: n.fr}
		out.sign = out.upSig() + memoEntrySig(n.key, n.idx, n.val)
	}
	return out
}

func (m *memoNode) upSig() string {
	if m.up == nil {
		return ""
	}
	return m.up.sign
}

func memoEntrySig(k ssa.Value, idx int, v ssa.Value) string {
	return fmt.Sprintf("%p.%d=%p;", k, idx, v)
}

// resolveBool follows memoised phi/call decisions; returns the resolved value and accumulated negation.
func (q *PathQ) resolveBool(v ssa.Value, memo *memoNode) (ssa.Value, bool, *frameNode) {
	neg := false
	var ctx *frameNode
	for i := 0; i < 12; i++ {
		if ctx != nil {
			// values of a helper frame are resolved in that frame
			saved := q.c.frames
			q.c.frames = append(append([]ssa.CallInstruction{}, q.base...), chainOf(ctx)...)
			v = q.c.resolve(v)
			q.c.frames = saved
		} else {
			v = q.c.resolve(v)
		}
		switch x := v.(type) {
		case *ssa.UnOp:
			if x.Op.String() == "!" {
				neg = !neg
				v = x.X
				continue
			}
		case *ssa.Phi:
			if w, ok := memo.lookup(x, 0); ok {
				v = w
				continue
			}
		case *ssa.Call:
			if w, fr, ok := memo.lookupFr(x, 0); ok {
				v, ctx = w, fr
				continue
			}
		case *ssa.Extract:
			if call, isCall := x.Tuple.(*ssa.Call); isCall {
				if w, fr, ok := memo.lookupFr(call, x.Index); ok {
					v, ctx = w, fr
					continue
				}
			}
		}
		break
	}
	return v, neg, ctx
}

// resolveMemoVal: the value a helper call returned on this path (ok=false when v is not such a result).
func (q *PathQ) resolveMemoVal(v ssa.Value, memo *memoNode) (ssa.Value, bool) {
	found := false
	for i := 0; i < 8; i++ {
		if _, isMI := v.(*ssa.MakeInterface); isMI && found {
			return v, true // keep the conversion: it makes the interface non-nil
		}
		v = q.c.resolve(v)
		switch x := v.(type) {
		case *ssa.Call:
			if w, ok := memo.lookup(x, 0); ok {
				v, found = w, true
				continue
			}
		case *ssa.Extract:
			if call, isCall := x.Tuple.(*ssa.Call); isCall {
				if w, ok := memo.lookup(call, x.Index); ok {
					v, found = w, true
					continue
				}
			}
		case *ssa.Phi:
			if w, ok := memo.lookup(x, 0); ok {
				v, found = w, true
				continue
			}
		}
		break
	}
	return v, found
}

// nilTestedPhi: a phi of nilable type with a direct `== nil` / `!= nil` use.
func nilTestedPhi(ph *ssa.Phi) bool {
	if !nilable(ph.Type()) {
		return false
	}
	seen := map[*ssa.Phi]bool{}
	var rec func(p *ssa.Phi) bool
	rec = func(p *ssa.Phi) bool {
		if seen[p] {
			return false
		}
		seen[p] = true
		refs := p.Referrers()
		if refs == nil {
			return false
		}
		for _, r := range *refs {
			switch x := r.(type) {
			case *ssa.BinOp:
				if (x.Op == token.EQL || x.Op == token.NEQ) && (isConstNil(x.X) || isConstNil(x.Y)) {
					return true
				}
			case *ssa.Phi:
				if rec(x) {
					return true
				}
			}
		}
		return false
	}
	return rec(ph)
}
func chainOf(s *frameNode) []ssa.CallInstruction {
	var chain []ssa.CallInstruction
	for n := s; n != nil; n = n.up {
		chain = append([]ssa.CallInstruction{n.call}, chain...)
	}
	return chain
}

// dynLit: the literal witnessed by taking successor succ of b on this path.
// decided: the branch outcome is fixed by the path (constant); feasible tells whether succ is the taken one.
func (q *PathQ) dynLit(b *ssa.BasicBlock, succ int, memo *memoNode) (lit Lit, hasLit bool, decided bool, feasible bool) {
	lit, hasLit, decided, feasible, _ = q.dynLitK(b, succ, memo)
	return
}

// nilKnow: taking the edge establishes that value v is (not) nil.
type nilKnow struct {
	v     ssa.Value
	isNil bool
}

var nilYes = ssa.NewConst(constant.MakeBool(true), types.Typ[types.Bool])
var nilNo = ssa.NewConst(constant.MakeBool(false), types.Typ[types.Bool])

func (q *PathQ) dynLitK(b *ssa.BasicBlock, succ int, memo *memoNode) (lit Lit, hasLit bool, decided bool, feasible bool, nk *nilKnow) {
	iff, ok := b.Instrs[len(b.Instrs)-1].(*ssa.If)
	if !ok {
		return Lit{}, false, false, true, nil
	}
	v, neg, ctx := q.resolveBool(iff.Cond, memo)
	// comparison of a helper's result (or of a remembered pointer variable) with nil:
	// decided when the path fixed the value
	if bo, ok := v.(*ssa.BinOp); ok && (bo.Op == token.EQL || bo.Op == token.NEQ) && ctx == nil {
		var x ssa.Value
		if isConstNil(bo.Y) {
			x = bo.X
		} else if isConstNil(bo.X) {
			x = bo.Y
		}
		if x != nil {
			w, viaMemo := q.resolveMemoVal(x, memo)
			isNil, known := false, false
			if viaMemo {
				switch y := w.(type) {
				case *ssa.Const:
					isNil, known = y.Value == nil, y.Value == nil
				case *ssa.MakeInterface:
					known = true // an interface holding a typed value is never nil
				case *ssa.Alloc, *ssa.MakeMap, *ssa.MakeSlice, *ssa.MakeClosure, *ssa.Function:
					known = true
				}
			}
			if !known {
				// did an earlier branch of this path test the very same SSA value?
				if kv, ok := memo.lookup(w, -1); ok {
					isNil, known = kv == ssa.Value(nilYes), true
				}
			}
			if known {
				val := (isNil == (bo.Op == token.EQL)) != neg
				return Lit{}, false, true, (succ == 0) == val, nil
			}
			if _, isC := w.(*ssa.Const); !isC && q.c.nilTests(w) >= 2 {
				// worth remembering only when the same value is tested again somewhere
				vTruth := (succ == 0) != neg
				nk = &nilKnow{w, vTruth == (bo.Op == token.EQL)}
			}
		}
	}
	if k, isC := v.(*ssa.Const); isC && k.Value != nil {
		if bt, ok := k.Type().Underlying().(*types.Basic); ok && bt.Info()&types.IsBoolean != 0 {
			val := constantBool(k) != neg
			return Lit{}, false, true, (succ == 0) == val, nil
		}
	}
	var l Lit
	if ctx != nil {
		saved := q.c.frames
		q.c.frames = append(append([]ssa.CallInstruction{}, q.base...), chainOf(ctx)...)
		l = q.c.cond(v)
		q.c.frames = saved
	} else {
		l = q.c.cond(v)
	}
	if neg {
		l = l.Neg()
	}
	if succ == 1 {
		l = l.Neg()
	}
	return l, true, false, true, nk
}

// Reach searches from site `from` (exclusive of instructions before from.I)
// for an instruction satisfying target. Returns the block path if found.
func (q *PathQ) Reach(from Site, startFact uint64, target func(ssa.Instruction) bool) ([]string, bool) {
	c := q.c
	type item struct {
		b     *ssa.BasicBlock
		i     int
		fact  uint64
		stack *frameNode
		memo  *memoNode
		prev  *item
	}
	// initial stack when starting inside a new helper: its unique call chain up to q.Fn
	var stack0 *frameNode
	if fn := from.B.Parent(); fn != q.Fn {
		root, chain := c.callChain(fn)
		if root == q.Fn || q.Fn == nil {
			for _, site := range chain {
				st := siteOf(site)
				stack0 = &frameNode{call: site, ret: Site{st.B, st.I + 1}, up: stack0}
				stack0.id = fmt.Sprintf("%s/%p", idOf(stack0.up), site)
			}
		}
	}
	seen := map[pstate]bool{}
	var work []*item
	var memo0 *memoNode
	for _, nk := range q.InitNil {
		if nk.isNil {
			memo0 = pushMemo(memo0, c.resolve(nk.v), -1, nilYes, nil)
		} else {
			memo0 = pushMemo(memo0, c.resolve(nk.v), -1, nilNo, nil)
		}
	}
	work = append(work, &item{from.B, from.I, startFact, stack0, memo0, nil})
	savedFrames := c.frames
	q.base = savedFrames
	defer func() { c.frames = savedFrames }()
	setFrames := func(s *frameNode) {
		c.frames = savedFrames
		var chain []ssa.CallInstruction
		for n := s; n != nil; n = n.up {
			chain = append([]ssa.CallInstruction{n.call}, chain...)
		}
		c.frames = append(append([]ssa.CallInstruction{}, savedFrames...), chain...)
	}
	steps := 0
	for len(work) > 0 {
		it := work[len(work)-1]
		work = work[:len(work)-1]
		steps++
		if steps > 400000 {
			// search bound exceeded: report reachable (never silently "unreachable")
			return []string{"search bound exceeded in " + c.fname(q.Fn)}, true
		}
		if it.i == 0 {
			st := pstate{it.b, it.fact, idOf(it.stack), it.memo.sig()}
			if seen[st] {
				continue
			}
			seen[st] = true
		}
		fact := it.fact
		memo := it.memo
		stop := false
		descended := false
		// predicates over instructions of a helper frame see that frame: a helper's parameters render as the
		// operands of the call that led here
		if it.stack != nil {
			setFrames(it.stack)
		}
		for i := it.i; i < len(it.b.Instrs); i++ {
			in := it.b.Instrs[i]
			if target(in) {
				var path []string
				for p := it; p != nil; p = p.prev {
					path = append([]string{q.blockDesc(p.b)}, path...)
				}
				return path, true
			}
			if q.CutIn != nil && q.CutIn(in) {
				stop = true
				break
			}
			if val, isVal := in.(ssa.Value); isVal && memo != nil {
				if _, has := memo.lookup(val, -1); has {
					memo = dropMemo(memo, val, -1) // the value is computed anew: what was known about it is gone
				}
			}
			// descend into a new helper (its instructions then act on the facts one by one)
			if ci, ok := in.(ssa.CallInstruction); ok {
				if _, isDefer := in.(*ssa.Defer); !isDefer {
					cal := ci.Common().StaticCallee()
					if cal != nil && !q.noDescend && c.isNew(cal) && depthOf(it.stack) < 4 && !onStack(it.stack, cal) {
						fr := &frameNode{call: ci, ret: Site{it.b, i + 1}, up: it.stack}
						fr.id = fmt.Sprintf("%s/%p", idOf(it.stack), ci)
						work = append(work, &item{cal.Blocks[0], 0, fact, fr, memo, it})
						descended = true
						break
					}
				}
			}
			if q.Facts != nil {
				fact = q.Facts.step(in, fact)
			}
			if ret, ok := in.(*ssa.Return); ok && it.stack != nil {
				// return into the caller, remembering the returned values
				fr := it.stack
				nm := memo
				if cv := fr.call.Value(); cv != nil {
					for k, rv := range ret.Results {
						nm = pushMemo(nm, cv, k, rv, fr)
					}
				}
				work = append(work, &item{fr.ret.B, fr.ret.I, fact, fr.up, nm, it})
				descended = true
				break
			}
		}
		if stop || descended {
			c.frames = savedFrames
			continue
		}
		setFrames(it.stack)
		for si, s := range it.b.Succs {
			if q.CutEdge != nil && q.CutEdge(it.b, si) {
				continue
			}
			lit, hasLit, decided, feasible, nk := q.dynLitK(it.b, si, memo)
			if decided && !feasible {
				continue
			}
			if q.CutLit != nil {
				if hasLit && q.CutLit(lit) {
					continue
				}
				// the literal as written (before resolving named booleans) also counts as witnessed
				if sl, ok := c.edgeLit(it.b, si); ok && q.CutLit(sl) {
					continue
				}
			}
			if q.NoBack && s.Dominates(it.b) {
				continue
			}
			nf := fact
			if q.Facts != nil {
				var ok bool
				nf, ok = q.Facts.edge(it.b, si, fact)
				if !ok {
					continue
				}
				if hasLit {
					if nf, ok = q.Facts.lit(lit, nf); !ok {
						continue
					}
				}
			}
			// boolean phis at the successor take the value of this edge
			nm := memo
			if nk != nil {
				if nk.isNil {
					nm = pushMemo(nm, nk.v, -1, nilYes, nil)
				} else {
					nm = pushMemo(nm, nk.v, -1, nilNo, nil)
				}
			}
			pi := -1
			for k, p := range s.Preds {
				if p == it.b {
					pi = k
				}
			}
			if pi >= 0 {
				for _, in := range s.Instrs {
					ph, ok := in.(*ssa.Phi)
					if !ok {
						break
					}
					if bt, ok := ph.Type().Underlying().(*types.Basic); ok && bt.Info()&types.IsBoolean != 0 {
						nm = pushMemo(nm, ph, 0, ph.Edges[pi], nil)
					} else if nilTestedPhi(ph) || (nilable(ph.Type()) && c.nilTests(ph) >= 1) {
						// a pointer/interface variable that is later compared with nil: remember which value it took
						nm = pushMemo(nm, ph, 0, ph.Edges[pi], nil)
					}
				}
			}
			work = append(work, &item{s, 0, nf, it.stack, nm, it})
		}
		c.frames = savedFrames
	}
	return nil, false
}

func idOf(s *frameNode) string {
	if s == nil {
		return ""
	}
	return s.id
}
func depthOf(s *frameNode) int {
	n := 0
	for ; s != nil; s = s.up {
		n++
	}
	return n
}
func onStack(s *frameNode, fn *ssa.Function) bool {
	for ; s != nil; s = s.up {
		if s.call.Common().StaticCallee() == fn {
			return true
		}
	}
	return false
}

func (q *PathQ) blockDesc(b *ssa.BasicBlock) string {
	pos := ""
	for _, in := range b.Instrs {
		if in.Pos().IsValid() {
			pos = q.c.pos(in.Pos())
			break
		}
	}
	return fmt.Sprintf("b%d(%s)@%s", b.Index, b.Comment, pos)
}

func entrySite(fn *ssa.Function) Site { return Site{fn.Blocks[0], 0} }

// ---- rule helpers ---------------------------------------------------------------

type LitMatch func(l Lit) bool

// litIs matches an exact literal.
func litIs(term string, pos bool) LitMatch {
	return func(l Lit) bool { return l.Term == term && l.Pos == pos }
}

// litHas matches a literal whose term contains all substrings, with polarity.
func litHas(pos bool, subs ...string) LitMatch {
	return func(l Lit) bool {
		if l.Pos != pos {
			return false
		}
		for _, s := range subs {
			if !strings.Contains(l.Term, s) {
				return false
			}
		}
		return true
	}
}

func anyLit(ms ...LitMatch) LitMatch {
	return func(l Lit) bool {
		for _, m := range ms {
			if m(l) {
				return true
			}
		}
		return false
	}
}

// cutEdges builds a CutEdge function deleting every edge that witnesses m.
func (c *Ctx) cutEdges(m LitMatch) func(b *ssa.BasicBlock, succ int) bool {
	return func(b *ssa.BasicBlock, succ int) bool {
		l, ok := c.edgeLit(b, succ)
		return ok && m(l)
	}
}

// Requires: every path from entry to target passes an edge witnessing m
// (REQ(T; m)). Returns offending path when violated.
func (c *Ctx) Requires(fn *ssa.Function, target func(ssa.Instruction) bool, m LitMatch, tr *Facts) ([]string, bool) {
	q := &PathQ{c: c, Fn: fn, CutLit: m, Facts: tr}
	path, found := q.Reach(entrySite(fn), factUnknown, target)
	return path, !found
}

// MustPass: every path from entry to target passes an instruction matching via
// (or an edge witnessing viaEdge, if non-nil).
func (c *Ctx) MustPass(fn *ssa.Function, target, via func(ssa.Instruction) bool, viaEdge LitMatch, tr *Facts) ([]string, bool) {
	q := &PathQ{c: c, Fn: fn, CutIn: via, Facts: tr}
	if viaEdge != nil {
		q.CutLit = viaEdge
	}
	path, found := q.Reach(entrySite(fn), factUnknown, target)
	return path, !found
}

// NeverTwice: no path from just after a site matching x reaches a site
// matching x. perIteration: back edges are not followed.
func (c *Ctx) NeverTwice(fn *ssa.Function, x func(ssa.Instruction) bool, perIteration bool, tr *Facts) (string, bool) {
	for _, b := range fn.Blocks {
		for i, in := range b.Instrs {
			if !x(in) {
				continue
			}
			q := &PathQ{c: c, Fn: fn, NoBack: perIteration, Facts: tr}
			if path, found := q.Reach(Site{b, i + 1}, factUnknown, x); found {
				return fmt.Sprintf("from %s via %s", c.ipos(in), strings.Join(path, " → ")), false
			}
		}
	}
	return "", true
}

// reachableFrom: can target be reached from just after `from`?
func (c *Ctx) reachableFrom(fn *ssa.Function, from ssa.Instruction, target func(ssa.Instruction) bool) bool {
	s := siteOf(from)
	q := &PathQ{c: c, Fn: fn}
	_, found := q.Reach(Site{s.B, s.I + 1}, factUnknown, target)
	return found
}

// ---- control dependence -----------------------------------------------------

// postDom computes immediate post-dominators with a virtual exit (index -1).
func postDom(fn *ssa.Function) map[*ssa.BasicBlock]*ssa.BasicBlock {
	// iterative data-flow on sets (functions are small)
	n := len(fn.Blocks)
	all := make([]bool, n)
	for i := range all {
		all[i] = true
	}
	pd := make([][]bool, n) // pd[b][x] : x post-dominates b
	isExit := func(b *ssa.BasicBlock) bool { return len(b.Succs) == 0 }
	for i, b := range fn.Blocks {
		pd[i] = make([]bool, n)
		if isExit(b) {
			pd[i][i] = true
		} else {
			copy(pd[i], all)
		}
	}
	changed := true
	for changed {
		changed = false
		for i := n - 1; i >= 0; i-- {
			b := fn.Blocks[i]
			if isExit(b) {
				continue
			}
			nw := make([]bool, n)
			copy(nw, all)
			for _, s := range b.Succs {
				for x := 0; x < n; x++ {
					nw[x] = nw[x] && pd[s.Index][x]
				}
			}
			nw[i] = true
			for x := 0; x < n; x++ {
				if nw[x] != pd[i][x] {
					changed = true
				}
			}
			pd[i] = nw
		}
	}
	// immediate: the strict post-dominator that is post-dominated by all other strict ones
	ipd := map[*ssa.BasicBlock]*ssa.BasicBlock{}
	for i, b := range fn.Blocks {
		var cands []int
		for x := 0; x < n; x++ {
			if x != i && pd[i][x] {
				cands = append(cands, x)
			}
		}
		for _, x := range cands {
			ok := true
			for _, y := range cands {
				if y != x && !pd[x][y] {
					ok = false
				}
			}
			if ok {
				ipd[b] = fn.Blocks[x]
			}
		}
	}
	return ipd
}

type CtlDep struct {
	B    *ssa.BasicBlock // the branching block
	Succ int             // the successor edge the dependent is reached through
}

// controlDeps returns the transitive closure of the (block, edge) pairs the
// block t is control dependent on.
func (c *Ctx) controlDeps(fn *ssa.Function, t *ssa.BasicBlock) []CtlDep {
	if t.Parent() != fn {
		// the block lives in a helper: its own dependences plus those of the (unique) call site
		out := c.controlDeps(t.Parent(), t)
		if site := c.inlineSite(t.Parent()); site != nil && site.Block() != nil {
			out = append(out, c.controlDeps(fn, site.Block())...)
		}
		return out
	}
	ipd := postDom(fn)
	pdoms := func(x, b *ssa.BasicBlock) bool { // x post-dominates b (reflexive)
		for cur := b; cur != nil; cur = ipd[cur] {
			if cur == x {
				return true
			}
		}
		return false
	}
	direct := func(t *ssa.BasicBlock) []CtlDep {
		var out []CtlDep
		for _, a := range fn.Blocks {
			if len(a.Succs) < 2 {
				continue
			}
			for si, s := range a.Succs {
				// t is control dependent on (a,si) if t post-dominates s and t does not strictly post-dominate a
				if pdoms(t, s) && !(t != a && pdoms(t, a)) {
					out = append(out, CtlDep{a, si})
				}
			}
		}
		return out
	}
	seen := map[*ssa.BasicBlock]bool{}
	seenDep := map[CtlDep]bool{}
	var out []CtlDep
	work := []*ssa.BasicBlock{t}
	for len(work) > 0 {
		b := work[len(work)-1]
		work = work[:len(work)-1]
		if seen[b] {
			continue
		}
		seen[b] = true
		for _, d := range direct(b) {
			if !seenDep[d] {
				seenDep[d] = true
				out = append(out, d)
			}
			work = append(work, d.B)
		}
	}
	return out
}

// isLoopCond reports whether the branch in block b is a loop header test
// (range / counted loop): one successor leads back to b.
func isLoopHeader(b *ssa.BasicBlock) bool {
	for _, p := range b.Preds {
		if b.Dominates(p) {
			return true
		}
	}
	return false
}

// nilTests: in how many `== nil` / `!= nil` comparisons of its function the
// value v can be the compared operand, directly or through phis.
func (c *Ctx) nilTests(v ssa.Value) int {
	in, ok := v.(ssa.Instruction)
	if !ok || in.Parent() == nil {
		return 0
	}
	if c.nilTestAll == nil {
		m := map[ssa.Value]int{}
		for _, fn := range c.Funcs {
			for _, b := range fn.Blocks {
				for _, in := range b.Instrs {
					bo, ok := in.(*ssa.BinOp)
					if !ok || (bo.Op != token.EQL && bo.Op != token.NEQ) {
						continue
					}
					var x ssa.Value
					if isConstNil(bo.Y) {
						x = bo.X
					} else if isConstNil(bo.X) {
						x = bo.Y
					} else {
						continue
					}
					seen := map[ssa.Value]bool{}
					var rec func(v ssa.Value, depth int)
					rec = func(v ssa.Value, depth int) {
						v = c.resolve(v)
						if seen[v] || depth > 4 {
							return
						}
						seen[v] = true
						switch x := v.(type) {
						case *ssa.Phi:
							for _, e := range x.Edges {
								rec(e, depth)
							}
						case *ssa.Call:
							// the result of a new helper: the test is also a test of what the helper returns
							if cal := x.Common().StaticCallee(); cal != nil && c.isNew(cal) && cal.Signature.Results().Len() == 1 {
								for _, ret := range returnsOf(cal) {
									rec(ret.Results[0], depth+1)
								}
							}
						case *ssa.Extract:
							if call, ok := x.Tuple.(*ssa.Call); ok {
								if cal := call.Common().StaticCallee(); cal != nil && c.isNew(cal) {
									for _, ret := range returnsOf(cal) {
										if x.Index < len(ret.Results) {
											rec(ret.Results[x.Index], depth+1)
										}
									}
								}
							}
						}
						m[v]++
					}
					rec(x, 0)
				}
			}
		}
		c.nilTestAll = m
	}
	return c.nilTestAll[v]
}

// litEq matches the equality literal of two terms in either operand order.
func litEq(a, b string, pos bool) LitMatch {
	return func(l Lit) bool {
		return l.Pos == pos && (l.Term == "eq("+a+", "+b+")" || l.Term == "eq("+b+", "+a+")")
	}
}
