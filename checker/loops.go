package main

import (
	"sort"

	"golang.org/x/tools/go/ssa"
)

// Loop is a natural loop of the SSA CFG.
type Loop struct {
	Header *ssa.BasicBlock
	Blocks map[*ssa.BasicBlock]bool
}

func (l *Loop) size() int { return len(l.Blocks) }

// loopsOf returns the natural loops of fn (back edge = edge whose target
// dominates its source), loops with the same header merged, smallest first.
func loopsOf(fn *ssa.Function) []*Loop {
	byHeader := map[*ssa.BasicBlock]*Loop{}
	for _, b := range fn.Blocks {
		for _, s := range b.Succs {
			if s.Dominates(b) {
				l := byHeader[s]
				if l == nil {
					l = &Loop{Header: s, Blocks: map[*ssa.BasicBlock]bool{s: true}}
					byHeader[s] = l
				}
				// add all nodes that reach b without passing through s
				var work []*ssa.BasicBlock
				if !l.Blocks[b] {
					l.Blocks[b] = true
					work = append(work, b)
				}
				for len(work) > 0 {
					x := work[len(work)-1]
					work = work[:len(work)-1]
					for _, p := range x.Preds {
						if !l.Blocks[p] {
							l.Blocks[p] = true
							work = append(work, p)
						}
					}
				}
			}
		}
	}
	var out []*Loop
	for _, l := range byHeader {
		out = append(out, l)
	}
	sort.Slice(out, func(i, j int) bool {
		if out[i].size() != out[j].size() {
			return out[i].size() < out[j].size()
		}
		return out[i].Header.Index < out[j].Header.Index
	})
	return out
}

// innermost returns the smallest loop containing b, or nil.
func innermost(loops []*Loop, b *ssa.BasicBlock) *Loop {
	for _, l := range loops {
		if l.Blocks[b] {
			return l
		}
	}
	return nil
}

// loopWithHeader returns the loop whose header is h.
func loopWithHeader(loops []*Loop, h *ssa.BasicBlock) *Loop {
	for _, l := range loops {
		if l.Header == h {
			return l
		}
	}
	return nil
}

// exits returns the edges (from, succIdx) leaving the loop.
func (l *Loop) exits() []Site {
	var out []Site
	for b := range l.Blocks {
		for si, s := range b.Succs {
			if !l.Blocks[s] {
				out = append(out, Site{b, si})
			}
		}
	}
	sort.Slice(out, func(i, j int) bool {
		if out[i].B.Index != out[j].B.Index {
			return out[i].B.Index < out[j].B.Index
		}
		return out[i].I < out[j].I
	})
	return out
}
