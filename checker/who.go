package main

// who.go — who may call / store / reference; reachability over the package's
// own call graph (static callees + every function value created or referenced
// in a body + methods of package types converted to interfaces).

import (
	"go/constant"
	"go/types"
	"sort"

	"golang.org/x/tools/go/ssa"
)

func constantString(k *ssa.Const) string { return constant.StringVal(k.Value) }
func constantBool(k *ssa.Const) bool     { return constant.BoolVal(k.Value) }

// eachInstr visits every instruction of every package function.
func (c *Ctx) eachInstr(f func(fn *ssa.Function, in ssa.Instruction)) {
	for _, fn := range c.Funcs {
		for _, b := range fn.Blocks {
			for _, in := range b.Instrs {
				f(fn, in)
			}
		}
	}
}

type CallSite struct {
	Fn   *ssa.Function
	Call ssa.CallInstruction
}

// callersOf returns every call site whose static callee is target (including
// go/defer), plus whether target is ever referenced as a value.
func (c *Ctx) callersOf(target *ssa.Function) (sites []CallSite, asValue []ssa.Instruction) {
	c.eachInstr(func(fn *ssa.Function, in ssa.Instruction) {
		if ci, ok := in.(ssa.CallInstruction); ok {
			if ci.Common().StaticCallee() == target {
				sites = append(sites, CallSite{fn, ci})
			}
		}
		for _, op := range in.Operands(nil) {
			if *op == ssa.Value(target) {
				if ci, ok := in.(ssa.CallInstruction); ok && ci.Common().Value == ssa.Value(target) {
					continue
				}
				if _, isMC := in.(*ssa.MakeClosure); isMC && target.Parent() != nil && c.calledOnly(target) {
					continue // the closure object of a local helper that is only ever called
				}
				asValue = append(asValue, in)
			}
		}
	})
	return
}

// callsTo returns every call instruction in fn (or whole package if fn==nil)
// whose callee name (calleeName) satisfies match.
func (c *Ctx) callsTo(fn *ssa.Function, match func(name string) bool) []CallSite {
	var out []CallSite
	visit := func(f *ssa.Function, in ssa.Instruction) {
		if ci, ok := in.(ssa.CallInstruction); ok {
			if match(c.calleeName(ci.Common())) {
				out = append(out, CallSite{f, ci})
			}
		}
	}
	if fn != nil {
		for _, b := range fn.Blocks {
			for _, in := range b.Instrs {
				visit(fn, in)
			}
		}
	} else {
		c.eachInstr(visit)
	}
	return out
}

type StoreSite struct {
	Fn    *ssa.Function
	Store *ssa.Store
}

// storesTo returns every Store to the given struct field (by object).
func (c *Ctx) storesTo(f *types.Var) []StoreSite {
	var out []StoreSite
	c.eachInstr(func(fn *ssa.Function, in ssa.Instruction) {
		st, ok := in.(*ssa.Store)
		if !ok {
			return
		}
		if fa, ok := st.Addr.(*ssa.FieldAddr); ok && fieldObj(fa.X.Type(), fa.Field) == f {
			out = append(out, StoreSite{fn, st})
		}
	})
	return out
}

// loadsOf returns every load (UnOp * of FieldAddr, or Field) of the field.
func (c *Ctx) loadsOf(f *types.Var) []ssa.Instruction {
	var out []ssa.Instruction
	c.eachInstr(func(fn *ssa.Function, in ssa.Instruction) {
		switch x := in.(type) {
		case *ssa.FieldAddr:
			if fieldObj(x.X.Type(), x.Field) == f {
				out = append(out, x)
			}
		case *ssa.Field:
			if fieldObj(x.X.Type(), x.Field) == f {
				out = append(out, x)
			}
		}
	})
	return out
}

// funcsStoring returns names of functions containing a store to field f.
func (c *Ctx) funcsStoring(f *types.Var) []string {
	set := map[string]bool{}
	for _, s := range c.storesTo(f) {
		set[c.fname(s.Fn)] = true
	}
	return sortedKeys(set)
}

func sortedKeys(m map[string]bool) []string {
	var out []string
	for k := range m {
		out = append(out, k)
	}
	sort.Strings(out)
	return out
}

// ---- call graph ---------------------------------------------------------------

const userNode = "USER"

// edges returns the set of package functions f may transfer control to,
// and whether it calls into user code (interface invoke on a package-declared
// interface, call through a func-typed field/parameter that is not a closure
// bound at a call site, reflect.Value.Call).
func (c *Ctx) edges(f *ssa.Function) (out map[*ssa.Function]bool, user bool) {
	out = map[*ssa.Function]bool{}
	for _, b := range f.Blocks {
		for _, in := range b.Instrs {
			// any function value mentioned
			for _, op := range in.Operands(nil) {
				switch x := (*op).(type) {
				case *ssa.Function:
					if x.Pkg == c.Pkg || (x.Parent() != nil && x.Parent().Pkg == c.Pkg) {
						out[x] = true
					} else if x.Synthetic != "" {
						// bound method / thunk wrappers: follow to the wrapped package method
						if obj, ok := x.Object().(*types.Func); ok && obj.Pkg() == c.Types {
							if m := c.Prog.FuncValue(obj); m != nil {
								out[m] = true
							}
						}
					}
				case *ssa.MakeClosure:
					if fn, ok := x.Fn.(*ssa.Function); ok {
						if fn.Blocks != nil && (fn.Pkg == c.Pkg || fn.Parent() != nil) {
							out[fn] = true
						}
						if fn.Synthetic != "" {
							if obj, ok := fn.Object().(*types.Func); ok && obj.Pkg() == c.Types {
								if m := c.Prog.FuncValue(obj); m != nil {
									out[m] = true
								}
							}
						}
					}
				}
			}
			if mi, ok := in.(*ssa.MakeInterface); ok {
				// methods of a package type that becomes an interface value: the methods of the
				// target interface; for interface{} only what fmt and friends look for.
				ms := c.Prog.MethodSets.MethodSet(mi.X.Type())
				iface, _ := mi.Type().Underlying().(*types.Interface)
				for i := 0; i < ms.Len(); i++ {
					name := ms.At(i).Obj().Name()
					if iface != nil && iface.NumMethods() > 0 {
						found := false
						for k := 0; k < iface.NumMethods(); k++ {
							if iface.Method(k).Name() == name {
								found = true
							}
						}
						if !found {
							continue
						}
					} else {
						switch name {
						case "String", "Error", "GoString", "Format":
						default:
							continue
						}
					}
					if fn := c.Prog.MethodValue(ms.At(i)); fn != nil && fn.Pkg == c.Pkg {
						out[fn] = true
					}
				}
			}
			if ci, ok := in.(ssa.CallInstruction); ok {
				cc := ci.Common()
				if cc.IsInvoke() {
					if nt, ok := cc.Value.Type().(*types.Named); ok && nt.Obj().Pkg() == c.Types {
						user = true
					}
				} else if cc.StaticCallee() == nil {
					if _, isB := cc.Value.(*ssa.Builtin); !isB {
						// dynamic call through a value: a parameter (iterator callback — bound
						// at the caller by the "function value mentioned" rule) or a field (user)
						if _, isParam := c.resolve(cc.Value).(*ssa.Parameter); !isParam {
							user = true
						}
					}
				} else if n := c.calleeName(cc); n == "(reflect.Value).Call" {
					user = true
				}
			}
		}
	}
	return
}

// reach computes the package functions reachable from the roots, not entering
// functions for which stop returns true.
func (c *Ctx) reach(roots []*ssa.Function, stop func(*ssa.Function) bool) (set map[*ssa.Function]bool, user map[*ssa.Function]bool) {
	set = map[*ssa.Function]bool{}
	user = map[*ssa.Function]bool{}
	var work []*ssa.Function
	for _, r := range roots {
		if r != nil && !set[r] {
			set[r] = true
			work = append(work, r)
		}
	}
	for len(work) > 0 {
		f := work[len(work)-1]
		work = work[:len(work)-1]
		es, u := c.edges(f)
		if u {
			user[f] = true
		}
		for g := range es {
			if set[g] || g.Blocks == nil {
				continue
			}
			if stop != nil && stop(g) {
				continue
			}
			set[g] = true
			work = append(work, g)
		}
	}
	return
}

func (c *Ctx) names(set map[*ssa.Function]bool) []string {
	m := map[string]bool{}
	for f := range set {
		m[c.fname(f)] = true
	}
	return sortedKeys(m)
}

// mayStore reports whether calling fn may (transitively) store field f.
func (c *Ctx) mayStoreFns(f *types.Var) map[*ssa.Function]bool {
	direct := map[*ssa.Function]bool{}
	for _, s := range c.storesTo(f) {
		direct[s.Fn] = true
	}
	res := map[*ssa.Function]bool{}
	for _, fn := range c.Funcs {
		set, _ := c.reach([]*ssa.Function{fn}, nil)
		for g := range set {
			if direct[g] {
				res[fn] = true
				break
			}
		}
	}
	return res
}
