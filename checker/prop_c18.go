package main

import (
	"fmt"
	"go/token"
	"go/types"
	"regexp"
	"strings"

	"golang.org/x/tools/go/ssa"
)

// optionSelfRe: a read of an Option field or a call of an Option method in a normalised term.
var optionSelfRe = regexp.MustCompile(`(^|[^A-Za-z])Option\.[A-Za-z]+\(|\(\*Option\)\.[A-Za-z]+\(`)

func init() {
	register(&Property{
		Meta: PropMeta{
			ID:          "C18",
			Level:       "other",
			Explanation: "Structural necessary conditions of 'completion offers exactly the valid continuations', decided on the SSA of /repo for all paths: (SORTED) every return of complete passes sort.Sort on the result (and the order-taint rule of C15 covers the two map ranges feeding it); (FILTER) an option is offered exactly under HasPrefix(lookup key, typed prefix) ∧ ¬Hidden (plus the short-form bookkeeping), the offered item is the delimiter plus the *lookup key* (the namespaced name the parser accepts), a command exactly under ¬Hidden ∧ HasPrefix(Name, prefix) (∧ not completion's own data), with no further guard; (TOKENS) completion recognises option syntax only through the parser's own helpers argumentIsOption / argumentStartsOption / stripOptionPrefix / splitOption, resolves options and commands by lookups in the same parseState tables filled by fillParseState, and skips a following word as an option's argument only when the option takes an argument that is not optional — the parser's own condition for consuming the next token; (REATTACH) completeValue prefixes every returned item with the given prefix, and the three call sites pass the spelling typed so far: \"\" for a separate word, prefix + first rune with the remainder taken after the rune's encoded width, and prefix + name + separator with the inline argument; (NOEXEC) nothing reachable from complete sets an option, calls a callback or dispatches a command; (NP) panic-freedom of the functions reachable from complete.",
			NotDecided:  "agreement of completion's prefix walk with the parser's on every prefix — a relation between two procedures over all inputs; only the shared helpers, tables and the argument-skipping condition are checked.",
			Trusted:     []string{"go/ssa lowering", "go/types", "sort.Sort", "strings.HasPrefix"},
		},
		Run:      runC18,
		Controls: []string{"path-req", "path-cd", "path-mpt"},
	})
}

func runC18(c *Ctx, r *Report, tier string) {
	r.Rule("SORTED", "MPT(return of complete; via sort.Sort on the result)", 1)
	r.Rule("FILTER", "offer conditions: required and nothing else; offered item is delimiter + lookup key", 8)
	r.Rule("TOKENS", "option syntax only through the parser's helpers; same tables; argument skipping as the parser", 7)
	r.Rule("REATTACH", "items are prefixed; call sites pass the spelling typed so far", 5)
	r.Rule("NOEXEC", "R(complete) sets no option, calls no callback, dispatches nothing", 1)
	r.Rule("NP", "functions reachable from complete cannot panic (discharged or allow-listed with a reason)", 20)

	cp := c.mustFn(r, "(*completion).complete")
	con := c.mustFn(r, "(*completion).completeOptionNames")
	cc := c.mustFn(r, "(*completion).completeCommands")
	cv := c.mustFn(r, "(*completion).completeValue")
	if cp == nil || con == nil || cc == nil || cv == nil {
		return
	}
	cpn := c.fname(cp)

	// SORTED
	for _, ret := range returnsOf(cp) {
		res := c.resolve(ret.Results[0])
		q := &PathQ{c: c, Fn: cp, CutIn: func(in ssa.Instruction) bool {
			call, ok := in.(*ssa.Call)
			if !ok {
				return false
			}
			if c.calleeName(call.Common()) == "sort.Sort" && c.resolve(call.Call.Args[0]) == res {
				return true
			}
			// sort.Slice(ret, func(i, j) bool { return ret[i].Item < ret[j].Item }) is the same order
			if n := c.calleeName(call.Common()); (n == "sort.Slice" || n == "sort.SliceStable") && (c.resolve(call.Call.Args[0]) == res || c.term(call.Call.Args[0]) == c.term(res) && strings.HasPrefix(c.term(res), "cell:")) {
				for _, f := range closureArgs(call) {
					rets := returnsOf(f)
					if len(rets) == 1 {
						t := c.term(rets[0].Results[0])
						t = strings.ReplaceAll(t, "&idx(", "idx(")
						if strings.HasPrefix(t, "(Completion.Item(idx(") && strings.Contains(t, ", P0)) < Completion.Item(idx(") && strings.HasSuffix(t, ", P1)))") {
							return true
						}
					}
				}
			}
			return false
		}, CutEdge: func(b *ssa.BasicBlock, si int) bool {
			// a list of at most one item is sorted already
			return atMostOneEdge(b, si, func(v ssa.Value) bool { return c.resolve(v) == res })
		}}
		path, found := q.Reach(entrySite(cp), factUnknown, isInstr(ret))
		ok := !found
		r.Check(ok, "SORTED", cpn, "result sorted before return", c.ipos(ret), "every path passes sort.Sort(completions(ret)) on the returned slice", "unsorted return: "+pathStr(path))
	}

	// FILTER
	on := c.fname(con)
	// the short names remembered as "already offered through their long name" are those of options that WERE
	// offered: the bookkeeping store stands under the offer's own conditions (prefix match ∧ ¬Hidden)
	for _, b := range c.blocks(con) {
		for _, in := range b.Instrs {
			mu, ok := in.(*ssa.MapUpdate)
			if !ok || c.term(mu.Map) != "makemap[map[string]bool]" {
				continue
			}
			_, pre := c.Requires(con, isInstr(in), func(l Lit) bool { return l.Pos && strings.HasPrefix(l.Term, "call:strings.HasPrefix(") }, nil)
			_, vis := c.Requires(con, isInstr(in), func(l Lit) bool { return !l.Pos && strings.HasPrefix(l.Term, "Option.Hidden(") }, nil)
			r.Check(pre && vis, "FILTER", on, "a short name is marked as covered only by an option that is offered", c.ipos(in), "REQ(prefix match) ∧ REQ(¬Hidden) at the bookkeeping store", fmt.Sprintf("prefix necessary=%v ¬Hidden necessary=%v: a hidden or non-matching long option suppresses a visible option that shares its short name", pre, vis))
		}
	}
	nOff := 0
	for _, in := range c.instrs(con, c.isCallTo("append")) {
		call := in.(*ssa.Call)
		if relType(c, call.Type()) != "[]Completion" {
			continue
		}
		nOff++
		// which table
		var key, opt, table string
		for _, l := range c.depsOf(con, in) {
			if l.Pos && strings.HasPrefix(l.Term, "next(range(lookup.") && strings.HasSuffix(l.Term, "#0") {
				table = l.Term[len("next(range("):strings.Index(l.Term, "(&")]
				base := l.Term[:len(l.Term)-2]
				key, opt = base+"#1", base+"#2"
			}
		}
		if table == "" {
			r.Fail("FILTER", on, "offer site", c.ipos(in), "not inside a range over a lookup table")
			continue
		}
		_, a := c.Requires(con, isInstr(in), litIs("call:strings.HasPrefix("+key+", P3)", true), nil)
		_, b := c.Requires(con, isInstr(in), litIs("Option.Hidden("+opt+")", false), nil)
		r.Check(a && b, "FILTER", on, "option offered REQ(prefix match on the lookup key ∧ ¬Hidden) ["+table+"]", c.ipos(in), "both edges necessary", fmt.Sprintf("prefix necessary=%v ¬Hidden necessary=%v", a, b))
		var extra []string
		for _, l := range c.depsOf(con, in) {
			switch {
			case l.Term == "call:strings.HasPrefix("+key+", P3)" && l.Pos, l.Term == "Option.Hidden("+opt+")" && !l.Pos:
			case strings.HasPrefix(l.Term, "next(range(lookup."):
			case l.Term == "P4": // short
			case strings.HasPrefix(l.Term, "nonempty(P3)"): // the `short && len(match) != 0` early return
			case strings.HasPrefix(l.Term, "lookup(makemap[map[string]bool], ") && !l.Pos: // de-duplication against long names
			default:
				extra = append(extra, l.String())
			}
		}
		r.Check(len(extra) == 0, "FILTER", on, "option offer has no other guard ["+table+"]", c.ipos(in), "control-dependence closure: prefix, visibility, short-form bookkeeping, loop", "a matching visible option can be withheld by: "+strings.Join(extra, "; "))
		// item
		item := ""
		for _, e := range sliceLitElems(call.Call.Args[1]) {
			if t, ok := c.literalField(e, "Item", 0); ok {
				item = t
			}
		}
		want := `("--" + ` + key + `)`
		if table == "lookup.shortNames" {
			want = `("-" + ` + key + `)`
		}
		r.Check(item == want, "FILTER", on, "offered item is the delimiter plus the lookup key ["+table+"]", c.ipos(in), "Item = "+want, "Item = "+trunc(item, 120)+": what is offered is not the name the parser's lookup accepts")
	}
	r.Check(nOff == 2, "FILTER", on, "offer sites", c.pos(con.Pos()), "long and short", fmt.Sprintf("%d", nOff))
	ccn := c.fname(cc)
	for _, in := range c.instrs(cc, c.isCallTo("append")) {
		cmd := "idx(Command.commands(parseState.command(P1)), phi{(phi↺ + 1) | 0})"
		_, a := c.Requires(cc, isInstr(in), litIs("Group.Hidden(Command.Group("+cmd+"))", false), nil)
		_, b := c.Requires(cc, isInstr(in), litIs("call:strings.HasPrefix(Command.Name("+cmd+"), P2)", true), nil)
		var extra []string
		for _, l := range c.depsOf(cc, in) {
			switch {
			case l.Term == "Group.Hidden(Command.Group("+cmd+"))" && !l.Pos, l.Term == "call:strings.HasPrefix(Command.Name("+cmd+"), P2)" && l.Pos:
			case strings.HasPrefix(l.Term, "lt("):
			case l.Pos && strings.HasPrefix(l.Term, "nonempty(Command.commands(parseState.command(P1)))"): // "there are subcommands at all": what the loop tests anyway
			case strings.HasPrefix(l.Term, "eq(") && strings.Contains(l.Term, "Group.data(Command.Group("+cmd) && !l.Pos:
			default:
				extra = append(extra, l.String())
			}
		}
		r.Check(a && b && len(extra) == 0, "FILTER", ccn, "command offered exactly under ¬Hidden ∧ prefix match", c.ipos(in), "required edges present, no other guard", fmt.Sprintf("¬Hidden=%v prefix=%v extra=%s", a, b, strings.Join(extra, "; ")))
		// item is the name
		okI := false
		for _, e := range sliceLitElems(in.(*ssa.Call).Call.Args[1]) {
			if u, ok := e.(*ssa.UnOp); ok {
				if al, ok := u.X.(*ssa.Alloc); ok {
					for _, ref := range *al.Referrers() {
						if fa, ok := ref.(*ssa.FieldAddr); ok && fieldVarName(fieldObj(fa.X.Type(), fa.Field)) == "Item" {
							for _, r2 := range *fa.Referrers() {
								if st, ok := r2.(*ssa.Store); ok && c.term(st.Val) == "Command.Name("+cmd+")" {
									okI = true
								}
							}
						}
					}
				}
			}
		}
		r.Check(okI, "FILTER", ccn, "offered item is the command's name", c.ipos(in), "Item = cmd.Name", "a command is offered under another spelling than its name")
	}

	// TOKENS
	scope, _ := c.reach([]*ssa.Function{cp}, nil)
	helpers := map[string]bool{"argumentIsOption": true, "argumentStartsOption": true, "stripOptionPrefix": true, "splitOption": true}
	var own []string
	for fn := range scope {
		if helpers[c.fname(fn)] || !strings.HasPrefix(c.fname(fn), "(*completion).") {
			continue
		}
		for _, b := range c.blocks(fn) {
			for _, in := range b.Instrs {
				call, ok := in.(*ssa.Call)
				if !ok {
					continue
				}
				n := c.calleeName(call.Common())
				switch n {
				case "strings.Index", "strings.IndexByte", "strings.IndexRune", "strings.LastIndex", "strings.Split", "strings.SplitN", "strings.TrimPrefix", "strings.TrimLeft":
					own = append(own, c.fname(fn)+" calls "+n)
				case "strings.HasPrefix":
					// only table names may be prefix-tested, never a command-line token against a syntax literal
					if _, isLit := constStr(call.Call.Args[1]); isLit {
						own = append(own, c.fname(fn)+" tests a token against a literal prefix")
					}
				}
			}
			if iff, ok := b.Instrs[len(b.Instrs)-1].(*ssa.If); ok {
				t := c.cond(iff.Cond).Term
				if strings.HasPrefix(t, "eq(45, idx(") || strings.HasPrefix(t, "eq(61, idx(") {
					own = append(own, c.fname(fn)+" compares a byte with '-'/'='")
				}
			}
		}
	}
	r.Check(len(own) == 0, "TOKENS", cpn, "no private re-tokenising in completion", c.pos(cp.Pos()), "option syntax is recognised only through argumentIsOption/argumentStartsOption/stripOptionPrefix/splitOption", strings.Join(own, "; "))
	for _, h := range []string{"argumentIsOption", "argumentStartsOption", "stripOptionPrefix", "splitOption"} {
		r.Check(len(c.instrs(cp, c.isCallTo(h))) > 0, "TOKENS", cpn, "uses "+h, c.pos(cp.Pos()), "called", "complete does not use "+h)
	}
	nFill := 0
	for fn := range scope {
		if !strings.HasPrefix(c.fname(fn), "(*completion).") {
			continue
		}
		for _, in := range c.instrs(fn, c.isCallTo("(*Command).fillParseState")) {
			nFill++
			_ = in
		}
		for _, in := range c.instrs(fn, c.isCallTo("(*Command).makeLookup", "(*Command).fillLookup")) {
			r.Fail("TOKENS", c.fname(fn), "private lookup construction", c.ipos(in), "completion builds its own lookup instead of using fillParseState")
		}
	}
	// as in the parser (C10 BEFORE-COMMANDS): a word switches the command context only when no positional is pending
	for _, in := range c.instrs(cp, c.isCallTo("(*Command).fillParseState")) {
		call := in.(*ssa.Call)
		if c.term(call.Call.Args[0]) == "Parser.Command(completion.parser(P0))" {
			continue // the initial context
		}
		// the word is resolved in the parser's own command table (names AND aliases)
		recv := c.term(call.Call.Args[0])
		r.Check(strings.HasPrefix(recv, "lookup(lookup.commands(&parseState.lookup("), "TOKENS", cpn, "command words resolved through the lookup table", c.ipos(in), "s.lookup.commands[word]", "the context is switched to "+trunc(recv, 100)+": aliases (or the parser's own table) are bypassed")
		_, ok := c.Requires(cp, isInstr(in), func(l Lit) bool {
			return !l.Pos && strings.HasPrefix(l.Term, "nonempty(parseState.positional(")
		}, nil)
		r.Check(ok, "TOKENS", cpn, "command words are recognised only with an empty positional queue", c.ipos(in), "fillParseState REQ(len(s.positional) == 0): the parser binds the word to a pending positional first", "a word naming a subcommand switches the context although a positional argument is still pending (the parser would bind it as that argument)")
	}
	// a short option with an attached argument (`-ovalue`) takes nothing from the following words: as in the parser
	// (splitShortConcatArg: width of the first rune vs len), the test compares the cluster's byte length with the
	// first character's own byte length, for the first character, when it takes an argument
	{
		nW := 0
		for _, b := range c.blocks(cp) {
			iff, ok := b.Instrs[len(b.Instrs)-1].(*ssa.If)
			if !ok {
				continue
			}
			t := c.cond(iff.Cond).Term
			if !strings.HasPrefix(t, "eq(len(") || !strings.Contains(t, "runeat(") {
				continue
			}
			// eq(len(C), len(conv[string](runeat(C)))) / eq(len(C), RuneLen(runeat(C))) / eq(len(C), runewidth(C))
			inner := t[len("eq(len("):]
			cl := inner
			if i := strings.Index(inner, "), len(conv[string](runeat("); i >= 0 {
				cl = inner[:i]
			} else if i := strings.Index(inner, "), call:unicode/utf8.RuneLen(runeat("); i >= 0 {
				cl = inner[:i]
			} else {
				continue
			}
			if !strings.HasSuffix(strings.TrimSuffix(t, ")"), "runeat("+cl+"))") && !strings.HasSuffix(t, "runeat("+cl+"))))") && !strings.HasSuffix(t, "runeat("+cl+")))") {
				continue
			}
			nW++
			_, first := c.Requires(cp, isInstr(iff), litIs("nonzero(runepos("+cl+"))", false), nil)
			_, takes := c.Requires(cp, isInstr(iff), func(l Lit) bool {
				return l.Pos && strings.HasPrefix(l.Term, "call:(*Option).canArgument(lookup(lookup.shortNames(")
			}, nil)
			// once the rest of the cluster is known to be the option's value, the walk over the cluster is over: the
			// characters of VALUE are not looked up as option letters (the parser stops at the first rune there)
			if l := innermost(loopsOf(b.Parent()), b); l != nil {
				att := iff.Block().Succs[0]
				if c.cond(iff.Cond).Pos {
					att = iff.Block().Succs[1]
				}
				back := false
				seen := map[*ssa.BasicBlock]bool{}
				var walk func(x *ssa.BasicBlock)
				walk = func(x *ssa.BasicBlock) {
					if !l.Blocks[x] || seen[x] || back {
						return
					}
					if x == l.Header {
						back = true
						return
					}
					seen[x] = true
					for _, s := range x.Succs {
						walk(s)
					}
				}
				walk(att)
				r.Check(!back, "TOKENS", cpn, "the cluster walk stops at an attached argument", c.ipos(iff), "the edge `rest of the cluster is the value` leaves the loop over the cluster's characters", "the loop goes on to the next character: the characters of VALUE are looked up as option letters, so the option found (and the context reached) differs from the parser's")
			}
			r.Check(first && takes, "TOKENS", cpn, "attached-argument test applies to the first character of a cluster that takes an argument", c.ipos(iff), "REQ(byte offset 0) ∧ REQ(canArgument())", fmt.Sprintf("first necessary=%v canArgument necessary=%v", first, takes))
		}
		r.Check(nW >= 1, "TOKENS", cpn, "a cluster with an attached argument does not consume the next word", c.pos(cp.Pos()), "the cluster's byte length is compared with the byte length of its first character", "no such comparison: a multi-byte short option followed by its value as a separate word is taken for `-oVALUE`, and the value word is then read as a command or positional")
	}
	// what is known about one typed word is not carried over to the next: the option found for the current word and
	// its "may take the next word" flag are not loop-carried values of the word loop
	if wl := c.loopContaining(cp, c.isCallTo("(*parseState).pop")); wl != nil {
		carried := func(v ssa.Value) *ssa.Phi {
			seen := map[ssa.Value]bool{}
			var walk func(v ssa.Value) *ssa.Phi
			walk = func(v ssa.Value) *ssa.Phi {
				if v == nil || seen[v] {
					return nil
				}
				seen[v] = true
				if u, ok := v.(*ssa.UnOp); ok && u.Op == token.NOT {
					return walk(u.X)
				}
				ph, ok := v.(*ssa.Phi)
				if !ok {
					return nil
				}
				if ph.Block() == wl.Header {
					return ph
				}
				for _, e := range ph.Edges {
					if r := walk(e); r != nil {
						return r
					}
				}
				return nil
			}
			return walk(v)
		}
		nSt := 0
		for lb := range wl.Blocks {
			for _, in := range lb.Instrs {
				switch x := in.(type) {
				case *ssa.If:
					if bt, ok := x.Cond.Type().Underlying().(*types.Basic); ok && bt.Info()&types.IsBoolean != 0 {
						if _, isPhi := x.Cond.(*ssa.Phi); isPhi {
							nSt++
							ph := carried(x.Cond)
							r.Check(ph == nil, "TOKENS", cpn, "a per-word flag is not carried over from the previous word", c.ipos(x), "the flag tested here is set within the handling of the current word", "the flag can still hold what an earlier word set it to (loop-carried "+trunc(c.term(x.Cond), 60)+")")
						}
					}
				case *ssa.Call:
					if c.calleeName(x.Common()) == "(*Option).canArgument" {
						nSt++
						ph := carried(x.Call.Args[0])
						r.Check(ph == nil, "TOKENS", cpn, "the option examined belongs to the current word", c.ipos(x), "the option is looked up within the handling of the current word", "the option can be the one found for an earlier word (loop-carried)")
					}
				}
			}
		}
		r.Check(nSt >= 2, "TOKENS", cpn, "per-word state sites found", c.pos(cp.Pos()), "≥ 2", fmt.Sprintf("%d", nSt))
	}
	// words after a terminator: all of them but the last (the word being completed) have been typed
	for _, in := range c.instrs(cp, c.isCallTo("(*completion).skipPositional")) {
		var t string
		if nOp := c.argNamed(in.(*ssa.Call), "n"); nOp != nil {
			t = c.term(nOp)
		} else if spf := c.Fn("(*completion).skipPositional"); spf != nil {
			// the count derived by skipPositional itself: the lower bound it re-slices the queue from, in the caller's terms
			for _, st := range c.storesTo(c.mustField(r, "parseState", "positional")) {
				if c.actsFor(st.Fn, spf) {
					if sv := c.term(st.Store.Val); strings.HasPrefix(sv, "slice(parseState.positional(P1), ") {
						t = strings.ReplaceAll(strings.TrimSuffix(strings.TrimPrefix(sv, "slice(parseState.positional(P1), "), ", _)"), "(P1)", "("+c.term(in.(*ssa.Call).Call.Args[1])+")")
					}
				}
			}
		}
		r.Check(strings.HasPrefix(t, "(len(parseState.args(") && strings.HasSuffix(t, ")) - 1)"), "TOKENS", cpn, "positionals skipped for the words already typed", c.ipos(in), "skipPositional(s, len(s.args)-1): the last word is the one being completed", "skips "+trunc(t, 80)+" positionals: the partial last word is counted as typed")
	}
	// … and exactly that many are dropped from the queue, at once: the queue is re-sliced from the count (or
	// emptied when the count reaches its length), not shortened step by step against a moving bound
	if sp := c.Fn("(*completion).skipPositional"); sp != nil {
		posF := c.mustField(r, "parseState", "positional")
		nSp := 0
		for _, st := range c.storesTo(posF) {
			if !c.actsFor(st.Fn, sp) {
				continue
			}
			nSp++
			t := c.term(st.Store.Val)
			inLoop := innermost(loopsOf(st.Fn), st.Store.Block()) != nil
			switch {
			case isConstNil(c.resolve(st.Store.Val)):
				r.Check(!inLoop, "TOKENS", c.fname(sp), "queue emptied when the count covers it", c.ipos(st.Store), "positional = nil, outside any loop", "the queue is emptied inside a loop")
			case strings.HasPrefix(t, "slice(parseState.positional(P1), ") && strings.HasSuffix(t, ", _)"):
				lo := strings.TrimSuffix(strings.TrimPrefix(t, "slice(parseState.positional(P1), "), ", _)")
				_, isNum := constIntTerm(lo)
				r.Check(!inLoop && !isNum && !strings.Contains(lo, "phi"), "TOKENS", c.fname(sp), "queue re-sliced from the count", c.ipos(st.Store), "positional = positional[n:], outside any loop", "the queue is shortened by "+trunc(lo, 40)+" (in a loop: "+fmt.Sprint(inLoop)+"): the number dropped is not the number of words typed")
			default:
				r.Fail("TOKENS", c.fname(sp), "queue update", c.ipos(st.Store), "positional = "+trunc(t, 80))
			}
		}
		r.Check(nSp >= 1, "TOKENS", c.fname(sp), "queue updates found", c.pos(sp.Pos()), "≥ 1", fmt.Sprintf("%d", nSp))
	}
	// value completion asks the value itself first, whether or not it is addressable
	if cvf := c.Fn("(*completion).completeValue"); cvf != nil {
		nSelf := 0
		for _, b := range c.blocks(cvf) {
			for _, in := range b.Instrs {
				if ta, ok := in.(*ssa.TypeAssert); ok && typeName(ta.AssertedType) == "Completer" {
					t := c.term(ta.X)
					if strings.HasPrefix(t, "call:(reflect.Value).Interface(") && !strings.Contains(t, ".Addr(") {
						nSelf++
					}
				}
			}
		}
		r.Check(nSelf >= 1, "REATTACH", c.fname(cvf), "the value itself is asked for completions", c.pos(cvf.Pos()), "a Completer assertion on value.Interface() (not on its address)", "only the value's address is asked: an option field that is a pointer to a completing type offers nothing")
		for _, b := range c.blocks(cvf) {
			for _, in := range b.Instrs {
				ta, ok := in.(*ssa.TypeAssert)
				if !ok || typeName(ta.AssertedType) != "Completer" || !(strings.HasPrefix(c.term(ta.X), "call:(reflect.Value).Interface(P1") || strings.HasPrefix(c.term(ta.X), "call:(reflect.Value).Interface(phi{P1")) {
					continue
				}
				var extra []string
				for _, d := range c.controlDeps(cvf, b) {
					if l, ok := c.edgeLit(d.B, d.Succ); ok && strings.Contains(l.Term, "CanAddr(") {
						extra = append(extra, l.String())
					}
				}
				r.Check(len(extra) == 0, "REATTACH", c.fname(cvf), "the value itself is asked for completions unconditionally", c.ipos(in), "value.Interface().(Completer) does not depend on addressability", "the value is probed only under "+strings.Join(extra, "; ")+": a pointer-typed value whose type implements Completer is never asked")
			}
		}
	}
	r.Check(nFill >= 2, "TOKENS", cpn, "context comes from fillParseState", c.pos(cp.Pos()), fmt.Sprintf("%d calls (root and on each command word)", nFill), "completion does not switch context with fillParseState")
	// argument skipping condition
	nSkip := 0
	for _, in := range c.instrs(cp, c.isCallTo("(*parseState).pop")) {
		// the pop that skips an option's argument: its value is unused
		call := in.(*ssa.Call)
		used := false
		if call.Referrers() != nil {
			for _, ref := range *call.Referrers() {
				if _, isDbg := ref.(*ssa.DebugRef); !isDbg {
					used = true
				}
			}
		}
		if used {
			continue
		}
		nSkip++
		_, a := c.Requires(cp, isInstr(in), func(l Lit) bool { return l.Pos && strings.HasPrefix(l.Term, "call:(*Option).canArgument(phi{") }, nil)
		_, b := c.Requires(cp, isInstr(in), func(l Lit) bool { return !l.Pos && strings.HasPrefix(l.Term, "Option.OptionalArgument(phi{") }, nil)
		_, d := c.Requires(cp, isInstr(in), func(l Lit) bool { return l.Pos && strings.HasPrefix(l.Term, "nonnil(phi{") }, nil)
		r.Check(a && b && d, "TOKENS", cpn, "next word skipped as an argument exactly as the parser consumes it", c.ipos(in), "REQ(option found) ∧ REQ(canArgument()) ∧ REQ(¬OptionalArgument)", fmt.Sprintf("found=%v canArgument=%v ¬OptionalArgument=%v", d, a, b))
	}
	r.Check(nSkip == 1, "TOKENS", cpn, "argument-skipping site", c.pos(cp.Pos()), "one", fmt.Sprintf("%d", nSkip))

	// REATTACH
	cvn := c.fname(cv)
	okPre := false
	for _, s := range c.instrs(cv, func(in ssa.Instruction) bool { _, ok := in.(*ssa.Store); return ok }) {
		st := s.(*ssa.Store)
		if fa, ok := st.Addr.(*ssa.FieldAddr); ok && fieldVarName(fieldObj(fa.X.Type(), fa.Field)) == "Item" {
			t := c.term(st.Val)
			if strings.HasPrefix(t, "(P2 + Completion.Item(") {
				okPre = true
			} else {
				r.Fail("REATTACH", cvn, "item rewrite", c.ipos(st), "Item = "+trunc(t, 100))
			}
		}
	}
	r.Check(okPre, "REATTACH", cvn, "every item is prefixed", c.pos(cv.Pos()), "ret[i].Item = prefix + v.Item over the whole result", "items are not prefixed with the spelling typed so far")
	last := "idx(parseState.args(new:parseState), (len(parseState.args(new:parseState)) - 1))"
	strip := "call:stripOptionPrefix(" + last + ")"
	split := "call:splitOption(" + strip + "#0, " + strip + "#1, " + strip + "#2)"
	seenForms := map[string]bool{}
	for _, in := range c.instrs(cp, c.isCallTo("(*completion).completeValue")) {
		a := in.(*ssa.Call).Call.Args
		pre, m := c.term(a[2]), c.term(a[3])
		switch {
		case pre == `""` && m == last:
			seenForms["separate"] = true
			r.OK("REATTACH", cpn, "separate word: no prefix, whole word matched", c.ipos(in), "completeValue(v, \"\", lastarg)")
		case pre == "("+strip+"#0 + conv[string](call:unicode/utf8.DecodeRuneInString("+split+"#0)#0))":
			seenForms["short"] = true
			// the parser attaches `-oVALUE` for every option that can take an argument (splitShortConcatArg tests
			// canArgument() alone): the attached-value completion is chosen on that test and on nothing else the
			// option says about itself
			var extra []string
			for _, l := range c.depsOf(cp, in) {
				t := strings.ReplaceAll(l.Term, "(*Option).canArgument(", "")
				if optionSelfRe.MatchString(t) {
					extra = append(extra, trunc(l.String(), 80))
				}
			}
			r.Check(len(extra) == 0, "REATTACH", cpn, "attached short form is chosen for every option that can take an argument", c.ipos(in), "REQ(option found) ∧ REQ(canArgument()), no other attribute of the option", "also depends on "+strings.Join(extra, "; ")+": the parser accepts `-oVALUE` for this option, completion echoes the word instead of completing VALUE")
			r.Check(m == "slice("+split+"#0, call:unicode/utf8.DecodeRuneInString("+split+"#0)#1, _)", "REATTACH", cpn, "attached short form: remainder after the rune's encoded width", c.ipos(in), "completeValue(v, prefix+string(rune), optname[width:])", "partial value is "+trunc(m, 140))
		case pre == "(("+strip+"#0 + "+split+"#0) + "+split+"#1)":
			seenForms["inline"] = true
			r.Check(m == "*("+split+"#2)", "REATTACH", cpn, "inline form: name + separator re-attached", c.ipos(in), "completeValue(v, prefix+name+sep, *argument)", "partial value is "+trunc(m, 140))
		default:
			r.Fail("REATTACH", cpn, "completeValue call", c.ipos(in), "unrecognised prefix "+trunc(pre, 140))
		}
	}
	r.Check(seenForms["separate"] && seenForms["short"] && seenForms["inline"], "REATTACH", cpn, "three spellings handled", c.pos(cp.Pos()), "separate, attached short, inline", fmt.Sprintf("%v", seenForms))

	// NOEXEC
	var bad []string
	disp := c.dispatchPred()
	for fn := range scope {
		if len(c.instrs(fn, disp)) > 0 {
			bad = append(bad, c.fname(fn)+" dispatches")
		}
		switch c.fname(fn) {
		case "(*Option).Set", "(*Option).call", "(*Option).setDefault", "(*Option).clearDefault", "convert":
			bad = append(bad, "reaches "+c.fname(fn))
		}
	}
	r.Check(len(bad) == 0, "NOEXEC", cpn, "R(complete)", c.pos(cp.Pos()), fmt.Sprintf("%d functions reachable; none sets an option, runs a callback or dispatches", len(scope)), strings.Join(bad, "; "))

	// NP
	allow := append(append([]*npAllow{}, parseAllow...),
		&npAllow{Func: "(*completion).complete", Construct: "index parseState.args(new:parseState)[(len(parseState.args(new:parseState)) - 1)]", Max: 1, Reason: "args is replaced by [\"\"] when empty on entry and the walk loop runs only while len(args) > 1 (pop removes one element), so at least one element remains"},
		&npAllow{Func: "(*completion).skipPositional", Construct: "slice parseState.positional(P1)[P2:_]", Max: 1, Reason: "n = len(s.args)-1 ≥ 0 at both call sites (inside the loop len(args) ≥ 1 after pop) and n < len(positional) is tested"},
		&npAllow{Func: "(*completion).skipPositional", Construct: "slice parseState.positional(P1)[(len(parseState.args(P1)) - 1):_]", Max: 1, Reason: "the same count derived inside: len(s.args)-1 ≥ 0 at both call sites (inside the loop len(args) ≥ 1 after pop) and the bound is tested against len(positional)"},
		&npAllow{Func: "(*completion).complete", Construct: "index parseState.positional(new:parseState)[0]", Max: 0, Reason: ""},
	)
	c.runNP(r, "NP", scope, allow)
	r.Extra["scope"] = c.names(scope)
}

// literalField: e is a struct literal (a load of a local cell filled field by field), possibly built by a new
// helper that returns it: the term of the value stored into the named field, rendered in the caller's frame.
func (c *Ctx) literalField(e ssa.Value, field string, depth int) (string, bool) {
	if depth > 3 {
		return "", false
	}
	switch x := e.(type) {
	case *ssa.UnOp:
		al, ok := x.X.(*ssa.Alloc)
		if !ok || al.Referrers() == nil {
			return "", false
		}
		for _, ref := range *al.Referrers() {
			if fa, ok := ref.(*ssa.FieldAddr); ok && fieldVarName(fieldObj(fa.X.Type(), fa.Field)) == field && fa.Referrers() != nil {
				for _, r2 := range *fa.Referrers() {
					if st, ok := r2.(*ssa.Store); ok {
						return c.term(st.Val), true
					}
				}
			}
		}
	case *ssa.Call:
		h := x.Call.StaticCallee()
		if h == nil || !c.isNew(h) || h.Signature.Results().Len() != 1 {
			return "", false
		}
		rets := returnsOf(h)
		if len(rets) != 1 {
			return "", false
		}
		for _, f := range c.frames {
			if f.Common().StaticCallee() == h {
				return "", false
			}
		}
		c.frames = append(c.frames, x)
		defer func() { c.frames = c.frames[:len(c.frames)-1] }()
		return c.literalField(rets[0].Results[0], field, depth+1)
	}
	return "", false
}
