package main

import (
	"fmt"
	"go/token"
	"go/types"
	"strings"

	"golang.org/x/tools/go/ssa"
)

func init() {
	register(&Property{
		Meta: PropMeta{
			ID:          "C14",
			Level:       "other",
			Explanation: "Structural necessary conditions of robust, located INI reading, decided on the SSA of /repo for all paths: (NP) the no-panic prover over every function reachable from IniParser.Parse/ParseFile; (LINENO) the line counter of readIni starts at the constant 0, every back edge of the read loop carries the same `counter + 1` (so it is bumped exactly once per line, before any `continue`), and every consumer uses the bumped value; (LOCATED) every IniError literal in the package stores LineNumber — the bumped counter in readIni, the entry's recorded line in IniParser.parse — and every iniValue literal records the bumped counter; every non-nil error returned by IniParser.parse is an IniError literal or the ErrUnknownGroup constructor; (CLASSIFY) header and key=value handling are reachable only for non-empty lines not starting with ';' or '#', and section name, key and value are TrimSpace results; (LONGLINE) in readFullLine the accumulated line is extended only by append(line, chunk...) of the chunk just read and every returned string is a fresh conversion of the accumulated line or, for a first and final chunk, of that chunk; (UNKNOWN) the unknown-section and unknown-option failures require ¬IgnoreUnknown, and the IgnoreUnknown branches stay inside their loop (continue, not break); (PROGRESS) each read loop consumes input in its header block.",
			NotDecided:  "that noise lines leave the meaning of other lines unchanged (a relation over values); CRLF handling is bufio.Reader.ReadLine's (trusted); termination on an endless reader.",
			Trusted:     []string{"go/ssa lowering", "go/types", "bufio.Reader.ReadLine contract (a returned chunk is valid only until the next call; isPrefix signals continuation)", "strings/strconv preconditions"},
		},
		Run:      runC14,
		Controls: []string{"np-index", "np-slice", "np-nil", "np-kind"},
	})
}

var iniAllow = []*npAllow{
	{Func: "readIni", Construct: "slice call:strings.TrimSpace(call:readFullLine(", Max: 1, Reason: "line[1:len(line)-1] is reached only after line[0] == '[' and line[len(line)-1] == ']' were both tested on the same string; '[' != ']' so the two positions differ and len(line) ≥ 2"},
	{Func: "(*IniParser).parse", Construct: "index call:strings.SplitN(iniValue.Value(", Max: 3, Reason: "parts[1] is used only under len(parts) == 2 (same SplitN result; the prover loses the relation through the element load)"},
}

func runC14(c *Ctx, r *Report, tier string) {
	r.Rule("NP", "no instruction reachable from IniParser.Parse / ParseFile can raise a run-time panic (discharged by dominating conditions or allow-listed with a reason)", 60)
	r.Rule("LINENO", "readIni's line counter: init 0, every back edge carries counter+1, every consumer uses the bumped value", 3)
	r.Rule("LOCATED", "every IniError literal stores LineNumber from the line counter (readIni) or the entry's recorded line (parse); iniValue literals record the counter; parse returns only located or ErrUnknownGroup errors", 6)
	r.Rule("CLASSIFY", "header / key=value handling REQ(line non-empty ∧ not ';' ∧ not '#'); names and values are TrimSpace results", 5)
	r.Rule("LONGLINE", "readFullLine accumulates only by append(line, chunk...) and returns a fresh string of the accumulated line (or of a first-and-final chunk)", 3)
	r.Rule("UNKNOWN", "unknown section/option failures REQ(¬IgnoreUnknown); the IgnoreUnknown branches continue their loop", 4)
	r.Rule("PROGRESS", "the two read loops consume input in their header block", 2)

	parse := c.mustFn(r, "(*IniParser).Parse")
	parseFile := c.mustFn(r, "(*IniParser).ParseFile")
	ri := c.mustFn(r, "readIni")
	rfl := c.mustFn(r, "readFullLine")
	ip := c.mustFn(r, "(*IniParser).parse")
	if parse == nil || parseFile == nil || ri == nil || rfl == nil || ip == nil {
		return
	}
	scope, _ := c.reach([]*ssa.Function{parse, parseFile}, nil)
	r.Extra["scope"] = c.names(scope)
	allow := append(append([]*npAllow{}, parseAllow...), iniAllow...)
	c.runNP(r, "NP", scope, allow)

	// ---- LINENO
	var counter *ssa.Phi
	var bump ssa.Value
	loops := c.loopsDeep(ri)
	var mainLoop *Loop
	for _, l := range loops {
		for _, in := range l.Header.Instrs {
			p, ok := in.(*ssa.Phi)
			if !ok {
				break
			}
			if bt, ok := p.Type().Underlying().(*types.Basic); ok && bt.Kind() == types.Uint {
				counter, mainLoop = p, l
			}
		}
	}
	fname := c.fname(ri)
	var cellBump *ssa.Store // cell form: the counter is a variable captured by a closure
	if counter == nil {
		var cell *ssa.Alloc
		for _, b := range ri.Blocks {
			for _, in := range b.Instrs {
				if al, ok := in.(*ssa.Alloc); ok {
					if bt, ok := al.Type().(*types.Pointer).Elem().Underlying().(*types.Basic); ok && bt.Kind() == types.Uint {
						cell = al
					}
				}
			}
		}
		if cell == nil {
			r.Fail("LINENO", fname, "line counter", "", "no uint loop-carried variable found in readIni")
		} else {
			stores, esc := c.cellStores(cell)
			var inc []*ssa.Store
			okInit := !esc
			for _, st := range stores {
				if k, ok := constInt(st.Val); ok && k == 0 && st.Parent() == ri {
					continue
				}
				inc = append(inc, st)
			}
			var why []string
			okBack := len(inc) == 1
			if okBack {
				st := inc[0]
				bo, ok := st.Val.(*ssa.BinOp)
				isLoad := func(v ssa.Value) bool {
					u, ok := v.(*ssa.UnOp)
					if !ok || u.Op != token.MUL {
						return false
					}
					root, _ := c.cellRoot(u.X)
					return root == ssa.Value(cell)
				}
				if !ok || bo.Op != token.ADD || !isLoad(bo.X) {
					okBack = false
					why = append(why, "the counter is assigned "+c.term(st.Val))
				} else if k, ok := constInt(bo.Y); !ok || k != 1 {
					okBack = false
					why = append(why, "step "+c.term(bo.Y))
				}
				for _, l := range loops {
					if l.Blocks[st.Block()] && (mainLoop == nil || len(l.Blocks) > len(mainLoop.Blocks)) {
						mainLoop = l
					}
				}
				if mainLoop == nil || st.Parent() != ri {
					okBack = false
					why = append(why, "the increment is not in the read loop")
				} else {
					// every trip around the loop passes the increment
					q := &PathQ{c: c, Fn: ri, CutIn: isInstr(st)}
					latchEnd := func(x ssa.Instruction) bool {
						b := x.Block()
						if x != b.Instrs[len(b.Instrs)-1] || !mainLoop.Blocks[b] {
							return false
						}
						for _, s := range b.Succs {
							if s == mainLoop.Header {
								return true
							}
						}
						return false
					}
					if path, found := q.Reach(Site{mainLoop.Header, 0}, 0, latchEnd); found {
						okBack = false
						why = append(why, "an iteration can finish without the increment: "+pathStr(path))
					}
					if d, ok := c.NeverTwice(ri, isInstr(st), true, nil); !ok {
						okBack = false
						why = append(why, "incremented twice in one iteration: "+d)
					}
					cellBump = st
					bump = st.Val
					// consumers: loads of the counter (and calls of closures loading it) come after the increment
					bad := 0
					consumer := func(in ssa.Instruction) {
						if !mainLoop.Blocks[in.Block()] {
							return
						}
						q := &PathQ{c: c, Fn: ri, CutIn: isInstr(st)}
						if _, found := q.Reach(Site{mainLoop.Header, 0}, 0, isInstr(in)); found {
							bad++
						}
					}
					for _, b := range ri.Blocks {
						for _, in := range b.Instrs {
							if u, ok := in.(*ssa.UnOp); ok && isLoad(u) && ssa.Value(u) != bo.X {
								consumer(in)
							}
							if ci, ok := in.(ssa.CallInstruction); ok {
								if mc, ok := ci.Common().Value.(*ssa.MakeClosure); ok {
									for _, bnd := range mc.Bindings {
										if bnd == ssa.Value(cell) {
											consumer(in)
										}
									}
								}
							}
						}
					}
					r.Check(bad == 0, "LINENO", fname, "consumers use the bumped value", c.ipos(st), "every read of the counter in the loop (directly or in a closure) comes after the increment of its iteration", fmt.Sprintf("%d reads of the counter can precede the increment", bad))
				}
			} else {
				why = append(why, fmt.Sprintf("%d assignments besides the initialisation", len(inc)))
			}
			r.Check(okInit, "LINENO", fname, "counter starts at 0 (so the first line is 1)", c.ipos(cell), "zero-initialised variable whose address does not escape", "the counter's address escapes")
			r.Check(okBack, "LINENO", fname, "every back edge carries counter+1", c.ipos(cell), "every trip around the read loop passes the single increment exactly once", strings.Join(why, "; "))
		}
	} else {
		okInit, okBack := true, true
		var why []string
		for i, e := range counter.Edges {
			pred := counter.Block().Preds[i]
			if !mainLoop.Blocks[pred] {
				if k, ok := constInt(e); !ok || k != 0 {
					okInit = false
					why = append(why, "initial value "+c.term(e))
				}
				continue
			}
			bo, ok := e.(*ssa.BinOp)
			if !ok || bo.Op != token.ADD || bo.X != ssa.Value(counter) {
				okBack = false
				why = append(why, fmt.Sprintf("back edge from b%d carries %s", pred.Index, c.term(e)))
				continue
			}
			if k, ok := constInt(bo.Y); !ok || k != 1 {
				okBack = false
				why = append(why, "step "+c.term(bo.Y))
			}
			if bump == nil {
				bump = bo
			} else if bump != ssa.Value(bo) {
				okBack = false
				why = append(why, "more than one increment")
			}
		}
		r.Check(okInit, "LINENO", fname, "counter starts at 0 (so the first line is 1)", c.ipos(counter), "initial edge is the constant 0", strings.Join(why, "; "))
		r.Check(okBack && bump != nil, "LINENO", fname, "every back edge carries counter+1", c.ipos(counter), "all back edges of the read loop carry the single increment: bumped exactly once per line, before every continue", strings.Join(why, "; "))
		// consumers use the bumped value
		bad := 0
		if refs := counter.Referrers(); refs != nil {
			for _, ref := range *refs {
				if v, isV := ref.(ssa.Value); isV && v == bump {
					continue
				}
				if _, isDbg := ref.(*ssa.DebugRef); isDbg {
					continue
				}
				bad++
			}
		}
		r.Check(bad == 0, "LINENO", fname, "consumers use the bumped value", c.ipos(counter), "the un-bumped counter has no use besides the increment", fmt.Sprintf("%d uses of the stale counter", bad))
	}

	// ---- LOCATED
	lnField := c.mustField(r, "IniError", "LineNumber")
	ivLn := c.mustField(r, "iniValue", "LineNumber")
	nLit := 0
	c.eachInstr(func(fn *ssa.Function, in ssa.Instruction) {
		al, ok := in.(*ssa.Alloc)
		if !ok {
			return
		}
		tn := typeName(al.Type())
		if tn != "IniError" && tn != "iniValue" {
			return
		}
		if _, isStruct := al.Type().(*types.Pointer).Elem().Underlying().(*types.Struct); !isStruct || al.Comment != "complit" {
			return
		}
		nLit++
		var stored ssa.Value
		for _, ref := range *al.Referrers() {
			if fa, ok := ref.(*ssa.FieldAddr); ok {
				fo := fieldObj(fa.X.Type(), fa.Field)
				if fo == lnField || fo == ivLn {
					for _, r2 := range *fa.Referrers() {
						if st, ok := r2.(*ssa.Store); ok {
							stored = st.Val
						}
					}
				}
			}
		}
		what := tn + " literal stores LineNumber"
		if stored == nil {
			r.Fail("LOCATED", c.fname(fn), what, c.ipos(in), "literal does not set LineNumber")
			return
		}
		owner := fn
		for owner.Parent() != nil {
			owner = owner.Parent()
		}
		if owner == ri && cellBump != nil {
			t := c.term(stored)
			r.Check(c.resolve(stored) == bump || t == "cell:uint" || t == "(cell:uint + 1)", "LOCATED", c.fname(fn), what, c.ipos(in), "value is the line counter, read after its increment (LINENO)", "LineNumber is "+t)
			return
		}
		switch c.fname(fn) {
		case "readIni":
			r.Check(bump != nil && stored == bump, "LOCATED", c.fname(fn), what, c.ipos(in), "value is the bumped line counter", "LineNumber is "+c.term(stored))
		case "(*IniParser).parse":
			r.Check(strings.HasPrefix(c.term(stored), "iniValue.LineNumber("), "LOCATED", c.fname(fn), what, c.ipos(in), "value is the entry's recorded line", "LineNumber is "+c.term(stored))
		default:
			r.OK("LOCATED", c.fname(fn), what, c.ipos(in), "LineNumber is set")
		}
	})
	for _, ret := range returnsOf(ip) {
		e := c.resolve(ret.Results[0])
		if isConstNil(e) {
			continue
		}
		t := c.term(e)
		r.Check(t == "new:IniError" || strings.HasPrefix(t, "call:newErrorf(ErrUnknownGroup,"), "LOCATED", c.fname(ip), "failing return", c.ipos(ret), "an IniError literal (located) or the ErrUnknownGroup constructor", "returns "+trunc(t, 100))
	}

	// ---- CLASSIFY
	lineT := "call:strings.TrimSpace(call:readFullLine("
	var handlers []ssa.Instruction
	for _, b := range c.blocks(ri) {
		if iff, ok := b.Instrs[len(b.Instrs)-1].(*ssa.If); ok {
			l := c.cond(iff.Cond)
			if strings.HasPrefix(l.Term, "eq(91, idx("+lineT) && len(handlers) == 0 {
				handlers = append(handlers, iff)
			}
		}
	}
	for _, b := range c.blocks(ri) {
		if iff, ok := b.Instrs[len(b.Instrs)-1].(*ssa.If); ok {
			if l := c.cond(iff.Cond); strings.HasPrefix(l.Term, "has("+lineT) && strings.HasSuffix(l.Term, `, "=")`) {
				handlers = append(handlers, iff)
				break
			}
		}
	}
	if len(handlers) < 2 {
		r.Fail("CLASSIFY", fname, "header / key=value handling", "", "could not locate the `[` test and the SplitN call on the trimmed line")
	}
	for _, h := range handlers {
		what := "key=value test"
		if iff, isIf := h.(*ssa.If); isIf && strings.HasPrefix(c.cond(iff.Cond).Term, "eq(91,") {
			what = "section header test"
		}
		_, a := c.Requires(ri, isInstr(h), litHas(true, "nonempty("+lineT), nil)
		_, b := c.Requires(ri, isInstr(h), litHas(false, "eq(59, idx("+lineT), nil)
		_, d := c.Requires(ri, isInstr(h), litHas(false, "eq(35, idx("+lineT), nil)
		if what == "key=value test" {
			path, e := c.Requires(ri, isInstr(h), litHas(false, "eq(91, idx("+lineT), nil)
			r.Check(e, "CLASSIFY", fname, "a line starting with '[' is a section header or an error, never an entry", c.ipos(h), "REQ(first byte != '[')", "an unclosed `[header` line falls through to the key=value handling: "+pathStr(path))
		}
		r.Check(a && b && d, "CLASSIFY", fname, what+" only for non-blank, non-comment lines", c.ipos(h), "REQ(non-empty) ∧ REQ(first byte != ';') ∧ REQ(first byte != '#')", fmt.Sprintf("non-empty=%v not-';'=%v not-'#'=%v", a, b, d))
	}
	// names and values are trimmed
	for _, b := range c.blocks(ri) {
		for _, in := range b.Instrs {
			al, ok := in.(*ssa.Alloc)
			if !ok || typeName(al.Type()) != "iniValue" {
				continue
			}
			for _, ref := range *al.Referrers() {
				fa, ok := ref.(*ssa.FieldAddr)
				if !ok {
					continue
				}
				fn := fieldVarName(fieldObj(fa.X.Type(), fa.Field))
				for _, r2 := range *fa.Referrers() {
					st, ok := r2.(*ssa.Store)
					if !ok {
						continue
					}
					t := c.term(st.Val)
					switch fn {
					case "Name":
						r.Check(strings.HasPrefix(t, "call:strings.TrimSpace(before("+lineT) && strings.HasSuffix(t, `, "="))`), "CLASSIFY", fname, "entry name is the trimmed text before the first '='", c.ipos(st), "TrimSpace(before(line, \"=\"))", "name is "+trunc(t, 120))
						// `= value` is a malformed line: an entry is recorded only under a non-empty name (an empty
						// one would match every option without an ini-name tag, a field name or a long name)
						_, ne := c.Requires(ri, isInstr(st), litIs("nonempty("+t+")", true), nil)
						r.Check(ne, "CLASSIFY", fname, "entries have a non-empty name", c.ipos(st), "REQ(name ≠ \"\")", "a line `= value` is recorded as an entry with an empty name and applied to the first option that has no ini-name tag, instead of being reported with its line number")
					case "Value":
						okV := strings.Contains(t, "call:strings.TrimSpace(after("+lineT)
						r.Check(okV, "CLASSIFY", fname, "entry value is the trimmed text after the first '=' (unquoted when quoted)", c.ipos(st), "TrimSpace(after(line, \"=\")) or its strconv.Unquote", "value is "+trunc(t, 160))
					}
				}
			}
		}
	}
	// bad quoting is reported: an entry is recorded without an unquote attempt only if its value is empty or
	// does not start with a double quote (a lone `"` is bad quoting, not a literal)
	if mainLoop != nil {
		for _, b := range c.blocks(ri) {
			for _, in := range b.Instrs {
				al, ok := in.(*ssa.Alloc)
				if !ok || typeName(al.Type()) != "iniValue" {
					continue
				}
				noQuote := func(l Lit) bool {
					if l.Pos {
						return false
					}
					return strings.HasPrefix(l.Term, "nonempty(call:strings.TrimSpace(after(") || strings.HasPrefix(l.Term, "eq(34, idx(call:strings.TrimSpace(after(") ||
						(strings.HasPrefix(l.Term, "call:strings.HasPrefix(call:strings.TrimSpace(after(") && strings.HasSuffix(l.Term, `, "\"")`))
				}
				q := &PathQ{c: c, Fn: ri, CutLit: noQuote, CutIn: c.isCallTo("strconv.Unquote")}
				path, found := q.Reach(Site{mainLoop.Header, 0}, 0, isInstr(in))
				r.Check(!found, "CLASSIFY", fname, "a value starting with a quote is always put through Unquote", c.ipos(in), "entry recorded REQ(Unquote attempted ∨ value empty ∨ value[0] ≠ '\"')", "a value that starts with a double quote can be recorded without an unquote attempt (bad quoting is accepted silently): "+pathStr(path))
			}
		}
	}
	for _, ci := range c.instrsCtx(ri, func(in ssa.Instruction) bool { _, ok := in.(*ssa.MapUpdate); return ok }) {
		in := ci.In
		mu := in.(*ssa.MapUpdate)
		var k string
		c.within(ci.Frames, func() { k = c.term(mu.Key) })
		if k == `""` {
			continue
		}
		r.Check(strings.Contains(k, "call:strings.TrimSpace(slice("+lineT) || strings.HasPrefix(k, "phi{"), "CLASSIFY", fname, "section key is the trimmed header name", c.ipos(in), "TrimSpace(line[1:len(line)-1]) (or the current section name)", "section stored under "+trunc(k, 120))
	}

	// ---- LONGLINE
	rname := c.fname(rfl)
	var acc *ssa.Phi
	var rl *Loop
	for _, l := range c.loopsDeep(rfl) {
		for _, in := range l.Header.Instrs {
			if p, ok := in.(*ssa.Phi); ok && isSliceT(p.Type()) {
				acc, rl = p, l
			}
		}
	}
	if acc == nil {
		r.Fail("LONGLINE", rname, "accumulated line", "", "no loop-carried []byte found")
	} else {
		ok := true
		var why []string
		for i, e := range acc.Edges {
			if !rl.Blocks[acc.Block().Preds[i]] {
				if !isConstNil(e) {
					ok = false
					why = append(why, "initial value "+c.term(e))
				}
				continue
			}
			call, isCall := e.(*ssa.Call)
			if !isCall || c.calleeName(call.Common()) != "append" || call.Call.Args[0] != ssa.Value(acc) || !strings.HasPrefix(c.term(call.Call.Args[1]), "call:(*bufio.Reader).ReadLine(P0)#0") {
				ok = false
				why = append(why, "back edge carries "+trunc(c.term(e), 100))
			}
		}
		r.Check(ok, "LONGLINE", rname, "line is extended only by append(line, chunk...)", c.ipos(acc), "every back edge carries append(line, <chunk of this ReadLine>...): chunks are copied, none is kept by reference", strings.Join(why, "; "))
		// a failing return throws away nothing that was read: with chunks accumulated, end of input is the
		// end of the line, not an error (a last line of exactly k·bufsize bytes without a newline)
		for _, ret := range returnsOf(rfl) {
			// a return that ends the reading: a non-nil error, or (where end of input is told by a flag) that flag set
			ending := false
			for _, res := range ret.Results {
				switch {
				case relType(c, res.Type()) == "error":
					ending = ending || !isConstNil(c.resolve(res))
				case relType(c, res.Type()) == "bool":
					ending = ending || c.term(res) == "true"
				}
			}
			if !ending {
				continue
			}
			_, ok := c.Requires(rfl, isInstr(ret), anyLit(
				func(l Lit) bool { return !l.Pos && strings.HasPrefix(l.Term, "nonnil(phi{") },
				func(l Lit) bool {
					return !l.Pos && strings.HasPrefix(l.Term, "eq(") && strings.Contains(l.Term, "io.EOF")
				},
			), nil)
			r.Check(ok, "LONGLINE", rname, "an error does not discard accumulated chunks", c.ipos(ret), "failing return REQ(line == nil ∨ err ≠ io.EOF)", "when the input ends right after a full buffer the chunks read so far are dropped with the EOF: the last line is lost")
		}
		for _, ret := range returnsOf(rfl) {
			if !isConstNil(c.resolve(ret.Results[1])) {
				continue
			}
			t := c.term(ret.Results[0])
			switch {
			case strings.HasPrefix(t, "conv[string](append("), t == "conv[string]("+c.term(acc)+")":
				r.OK("LONGLINE", rname, "returns string(accumulated line)", c.ipos(ret), "conversion of the accumulated line (a copy)")
			case t == "conv[string](call:(*bufio.Reader).ReadLine(P0)#0)":
				_, a := c.Requires(rfl, isInstr(ret), litHas(false, "nonnil(phi{"), nil)
				_, b := c.Requires(rfl, isInstr(ret), litHas(false, "call:(*bufio.Reader).ReadLine(P0)#1"), nil)
				r.Check(a && b, "LONGLINE", rname, "returns string(chunk) only for a first and final chunk", c.ipos(ret), "REQ(line == nil) ∧ REQ(¬more)", fmt.Sprintf("line==nil necessary=%v, !more necessary=%v", a, b))
			default:
				r.Fail("LONGLINE", rname, "successful return", c.ipos(ret), "returns "+trunc(t, 100))
			}
		}
	}

	// ---- UNKNOWN
	ipn := c.fname(ip)
	ignoreLit := "nonzero((Parser.Options("
	for _, in := range c.instrs(ip, c.isCallTo("newErrorf")) {
		if strings.HasPrefix(c.term(in.(ssa.Value)), "call:newErrorf(ErrUnknownGroup") {
			_, a := c.Requires(ip, isInstr(in), func(l Lit) bool {
				return !l.Pos && strings.HasPrefix(l.Term, ignoreLit) && strings.Contains(l.Term, "& IgnoreUnknown))")
			}, nil)
			_, b := c.Requires(ip, isInstr(in), litHas(false, "nonempty(call:(*IniParser).matchingGroups("), nil)
			r.Check(a && b, "UNKNOWN", ipn, "ErrUnknownGroup REQ(no matching group ∧ ¬IgnoreUnknown)", c.ipos(in), "both edges necessary", fmt.Sprintf("no-group=%v ¬IgnoreUnknown=%v", b, a))
			// … and under nothing else: an unknown section is reported whether or not it has entries
			var extra []string
			// (only the branches taken in this iteration count: those from which the site is reached without going
			// round the section loop again)
			var hdr *ssa.BasicBlock
			for x, k := in.Block(), 0; hdr == nil && x != nil && k < 4; k++ {
				// (a block that returns lies outside the natural loop: look at what leads to it)
				if l := innermost(c.loopsDeep(ip), x); l != nil {
					hdr = l.Header
				}
				if len(x.Preds) == 0 {
					break
				}
				x = x.Preds[0]
			}
			sameIter := func(from *ssa.BasicBlock) bool {
				seen := map[*ssa.BasicBlock]bool{}
				var walk func(x *ssa.BasicBlock) bool
				walk = func(x *ssa.BasicBlock) bool {
					if x == in.Block() {
						return true
					}
					if seen[x] || x == hdr {
						return false
					}
					seen[x] = true
					for _, sx := range x.Succs {
						if walk(sx) {
							return true
						}
					}
					return false
				}
				return walk(from)
			}
			for _, d := range c.controlDeps(ip, in.Block()) {
				if d.B != hdr && !sameIter(d.B.Succs[d.Succ]) {
					continue
				}
				l, ok := c.edgeLit(d.B, d.Succ)
				if !ok {
					continue
				}
				t := l.Term
				if strings.HasPrefix(t, ignoreLit) || strings.Contains(t, "call:(*IniParser).matchingGroups(") || strings.HasPrefix(t, "lt(") || strings.HasPrefix(t, "phi{") {
					continue
				}
				extra = append(extra, trunc(l.String(), 70))
			}
			r.Check(len(extra) == 0, "UNKNOWN", ipn, "an unknown section is reported under no further condition", c.ipos(in), "guards: no matching group, ¬IgnoreUnknown, the section loop", "also conditional on "+strings.Join(extra, "; ")+": an unknown section for which that fails is accepted silently")
		}
	}
	// IgnoreUnknown tests: the ignoring edge must stay inside the innermost loop
	iloops := c.loopsDeep(ip)
	nIgn := 0
	for _, b := range c.blocks(ip) {
		iff, ok := b.Instrs[len(b.Instrs)-1].(*ssa.If)
		if !ok {
			continue
		}
		l := c.cond(iff.Cond)
		if !(strings.HasPrefix(l.Term, ignoreLit) && strings.Contains(l.Term, "& IgnoreUnknown))")) {
			continue
		}
		nIgn++
		// successor taken when IgnoreUnknown is set
		si := 0
		if !l.Pos {
			si = 1
		}
		// which loop must this skip stay in: the section loop for an unknown section, the entry loop for an unknown option
		// which loop must this skip stay in: the section loop for an unknown section, the entry loop for an
		// unknown option (identified by the setter call, or by the call of the helper that contains it)
		siteBlock := func(in ssa.Instruction) *ssa.BasicBlock {
			if in.Parent() == ip {
				return in.Block()
			}
			if _, chain := c.callChain(in.Parent()); len(chain) > 0 && chain[0].Parent() == ip {
				return chain[0].Block()
			}
			return in.Block()
		}
		var lp *Loop
		if _, isSection := c.Requires(ip, isInstr(iff), litHas(false, "nonempty(call:(*IniParser).matchingGroups("), nil); isSection {
			for _, in := range c.instrs(ip, c.isCallTo("(*IniParser).matchingGroups")) {
				lp = innermost(iloops, siteBlock(in))
			}
		} else {
			for _, in := range c.instrs(ip, c.isCallTo("(*Option).Set")) {
				lp = innermost(iloops, siteBlock(in))
			}
		}
		tgt := b.Succs[si]
		ok2 := lp != nil && lp.Blocks[b] && lp.Blocks[tgt]
		// and it must reach the loop header without passing an option setter
		if ok2 {
			q := &PathQ{c: c, Fn: ip, CutIn: c.isCallTo("(*Option).Set", "(*Option).setDefault")}
			_, reaches := q.Reach(Site{tgt, 0}, 0, func(x ssa.Instruction) bool { return x == lp.Header.Instrs[0] })
			ok2 = reaches
		}
		r.Check(ok2, "UNKNOWN", ipn, "IgnoreUnknown branch continues its loop", c.ipos(iff), "the ignoring edge stays inside the innermost loop and returns to its header (continue)", "with IgnoreUnknown set control leaves the loop (break/return) instead of skipping one item")
		// the failing side produces an error
		other := b.Succs[1-si]
		hasRet := false
		for _, in := range other.Instrs {
			if _, isR := in.(*ssa.Return); isR {
				hasRet = true
			}
		}
		if !hasRet && lp != nil {
			// the error may be returned a few steps later (the unknown-item test repeated after the ignoring test): with
			// what is known when this test is reached, no path from the non-ignoring edge gets back to the loop or to a setter
			var init []nilKnow
			for _, f := range c.domFacts(b) {
				if f.Alts != nil {
					continue
				}
				if bo, ok := c.resolve(f.Cond).(*ssa.BinOp); ok && (isConstNil(bo.X) || isConstNil(bo.Y)) && (bo.Op == token.EQL || bo.Op == token.NEQ) {
					v := bo.X
					if isConstNil(bo.X) {
						v = bo.Y
					}
					init = append(init, nilKnow{v, (bo.Op == token.EQL) == f.Pos})
				}
				// len(groups) == 0 style tests are literals: handled by Facts below
			}
			q := &PathQ{c: c, Fn: ip, InitNil: init, Facts: c.newFacts(ip)}
			st, _ := q.Facts.edge(b, 1-si, factUnknown)
			for _, f := range c.domFacts(b) {
				if f.Alts == nil && f.If != nil {
					for k, s := range f.If.Block().Succs {
						_ = s
						if (k == 0) == f.Pos {
							st, _ = q.Facts.edge(f.If.Block(), k, st)
						}
					}
				}
			}
			_, escapes := q.Reach(Site{other, 0}, st, func(x ssa.Instruction) bool {
				if x == lp.Header.Instrs[0] {
					return true
				}
				ci, ok := x.(ssa.CallInstruction)
				return ok && (c.calleeName(ci.Common()) == "(*Option).Set" || c.calleeName(ci.Common()) == "(*Option).setDefault")
			})
			hasRet = !escapes
		}
		r.Check(hasRet, "UNKNOWN", ipn, "without IgnoreUnknown the item is an error", c.ipos(iff), "the other edge returns an error", "the non-ignoring edge does not return")
	}
	if nIgn < 2 {
		r.Fail("UNKNOWN", ipn, "IgnoreUnknown tests", "", fmt.Sprintf("expected tests for unknown sections and unknown options, found %d", nIgn))
	}

	// every section is looked up, also one without entries: an unknown section header is reported
	for _, in := range c.instrs(ip, c.isCallTo("(*IniParser).matchingGroups")) {
		if sl := innermost(iloops, in.Block()); sl != nil {
			r.Check(c.everyTripPasses(ip, sl, c.isCallTo("(*IniParser).matchingGroups")), "UNKNOWN", ipn, "every section name is resolved", c.ipos(in), "every trip around the section loop passes matchingGroups(name)", "a section can be skipped before its name is looked up: an unknown (e.g. empty) section is not reported as ErrUnknownGroup")
		}
	}
	// ---- PROGRESS
	if mainLoop != nil {
		has := c.everyTripPasses(ri, mainLoop, c.isCallTo("readFullLine"))
		r.Check(has, "PROGRESS", fname, "read loop consumes a line per iteration", c.ipos(mainLoop.Header.Instrs[0]), "every trip around the read loop passes a readFullLine call (EOF/error exit)", "the read loop can iterate without calling readFullLine")
	}
	if rl != nil {
		has := c.everyTripPasses(rfl, rl, c.isCallTo("(*bufio.Reader).ReadLine"))
		r.Check(has, "PROGRESS", rname, "chunk loop consumes input per iteration", c.ipos(rl.Header.Instrs[0]), "every trip around the chunk loop passes a ReadLine call", "the chunk loop can iterate without reading")
	}
}

// everyTripPasses: no path from the loop header back to it (via any back edge) avoids an instruction matching via.
func (c *Ctx) everyTripPasses(fn *ssa.Function, l *Loop, via InstrPred) bool {
	q := &PathQ{c: c, Fn: fn, CutIn: via}
	latchEnd := func(x ssa.Instruction) bool {
		b := x.Block()
		if x != b.Instrs[len(b.Instrs)-1] || !l.Blocks[b] {
			return false
		}
		for _, s := range b.Succs {
			if s == l.Header {
				return true
			}
		}
		return false
	}
	_, found := q.Reach(Site{l.Header, 0}, 0, latchEnd)
	return !found
}
