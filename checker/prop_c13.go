package main

import (
	"fmt"
	"go/token"
	"os"
	"sort"
	"strings"

	"golang.org/x/tools/go/ssa"
)

func init() {
	register(&Property{
		Meta: PropMeta{
			ID:          "C13",
			Level:       "other",
			Explanation: "Structural necessary conditions of 'an INI entry means the same as the corresponding flag', decided on the SSA of /repo for all paths: (FUNNEL) IniParser.parse applies values only through Option.Set / Option.setDefault — the same conversion path as the command line — and the value handed over is the entry's value, nil exactly for an argument-less option with an empty value, or for maps key + \":\" + unquoted value split at the first colon only; (PRIORITY) optionByName assigns priority 4 to the caller's matcher, 3 to the field name, 2 to the namespaced long name and 1 to the short name, each assignment guarded by its own name test and by `current priority < that constant`, and the matcher the INI reader passes compares the lower-cased ini-name tag with the lower-cased name; (SECTION) the empty section name addresses every group of the parser's own group tree, other names go through Command.groupByName, which tries the command's own groups (case-insensitive description match via Group.Find) and then recurses into *subcommands* — the same function on the subcommand, with the prefix `Name.` stripped — or returns the subcommand's group on an exact name; (NOINI) an option with a non-empty no-ini tag is unresolvable; (ACCUMULATE) clearReferenceBeforeSet is armed once before the entry loops and no branch inside them reads Option.preventDefault.",
			NotDecided:  "equality of the resulting value with the command-line outcome (both go through the same Set/convert, which is what is checked).",
			Trusted:     []string{"go/ssa lowering", "go/types", "strings.ToLower / HasPrefix contracts"},
		},
		Run:      runC13,
		Controls: []string{"path-req"},
	})
}

func runC13(c *Ctx, r *Report, tier string) {
	r.Rule("FUNNEL", "values applied only through Set/setDefault; operand provenance; map values split at the first colon", 5)
	r.Rule("PRIORITY", "four name tests with priorities 4 > 3 > 2 > 1, each guarded by its own test and `prio < k`; case-insensitive ini-name matcher", 6)
	r.Rule("SECTION", "empty name → all parser groups; else own groups then subcommands recursively with `Name.` stripped; case-insensitive description match", 6)
	r.Rule("NOINI", "no-ini makes the option unresolvable", 1)
	r.Rule("ACCUMULATE", "armed once before the loops; no loop-carried inhibition", 2)

	ip := c.mustFn(r, "(*IniParser).parse")
	obn := c.mustFn(r, "(*Group).optionByName")
	mg := c.mustFn(r, "(*IniParser).matchingGroups")
	cg := c.mustFn(r, "(*Command).groupByName")
	gf := c.mustFn(r, "(*Group).Find")
	if ip == nil || obn == nil || mg == nil || cg == nil || gf == nil {
		return
	}
	in_ := c.fname(ip)

	// FUNNEL
	setters := c.instrs(ip, c.isCallTo("(*Option).Set", "(*Option).setDefault"))
	r.Check(len(setters) == 2, "FUNNEL", in_, "setter call sites", c.pos(ip.Pos()), "Set and setDefault", fmt.Sprintf("%d", len(setters)))
	for _, s := range setters {
		arg := c.resolve(s.(*ssa.Call).Call.Args[1])
		p, ok := arg.(*ssa.Phi)
		var origins []string
		okAll := ok
		if ok {
			var walk func(v ssa.Value)
			seen := map[ssa.Value]bool{}
			walk = func(v ssa.Value) {
				if seen[v] {
					return
				}
				seen[v] = true
				if pp, isPhi := v.(*ssa.Phi); isPhi {
					for _, e := range pp.Edges {
						walk(e)
					}
					return
				}
				t := c.term(v)
				switch {
				case t == "&iniValue.Value(new:iniValue)":
					origins = append(origins, "&inival.Value")
				case t == "nil":
					origins = append(origins, "nil")
				case t == "new:string":
					// the rebuilt map entry: key + ":" + unquoted
					al := v.(*ssa.Alloc)
					stores, _ := c.cellStores(al)
					tv := ""
					if len(stores) == 1 {
						tv = c.term(stores[0].Val)
					}
					// key + ":" + unquoted value part
					good := len(stores) == 1 && strings.HasPrefix(tv, `((before(iniValue.Value(new:iniValue), ":") + ":") + `) &&
						(strings.Contains(tv, `call:strconv.Unquote(after(iniValue.Value(new:iniValue), ":"))#0`) || strings.HasSuffix(tv, `+ after(iniValue.Value(new:iniValue), ":"))`))
					if !good && len(stores) == 1 {
						good = c.rebuiltByHelper(ip, stores[0], al)
					}
					if !good && len(stores) == 1 {
						good = c.rebuiltLockstep(ip, stores[0]) || c.rebuiltByJoin(ip, stores[0])
					}
					if good {
						origins = append(origins, "&(key:unquoted)")
					} else {
						okAll = false
						origins = append(origins, "?rebuilt "+trunc(c.term(stores[0].Val), 80))
					}
				default:
					okAll = false
					origins = append(origins, "?"+trunc(t, 60))
				}
			}
			walk(p)
		}
		sort.Strings(origins)
		r.Check(okAll && len(origins) == 3, "FUNNEL", in_, "value handed to "+c.calleeName(s.(ssa.CallInstruction).Common()), c.ipos(s), "origins {"+strings.Join(origins, ", ")+"}", "value originates from {"+strings.Join(origins, ", ")+"}")
	}
	// nil exactly for an argument-less option with an empty value
	for _, b := range c.blocks(ip) {
		for _, in := range b.Instrs {
			p, ok := in.(*ssa.Phi)
			if !ok || relType(c, p.Type()) != "*string" {
				continue
			}
			for i, e := range p.Edges {
				if !isConstNil(e) {
					continue
				}
				pred := p.Block().Preds[i]
				last := pred.Instrs[len(pred.Instrs)-1]
				o := Origin{Val: e, At: last, Pred: pred, Succ: p.Block()} // (the edge into the merge may itself carry the test)
				a := c.reqAt(ip, o, func(l Lit) bool { return !l.Pos && strings.HasPrefix(l.Term, "call:(*Option).canArgument(") })
				bb := c.reqAt(ip, o, litHas(false, "nonempty(iniValue.Value(new:iniValue))"))
				r.Check(a && bb, "FUNNEL", in_, "nil value only for an argument-less option with an empty value", c.ipos(last), "REQ(¬canArgument ∧ len(Value) == 0)", fmt.Sprintf("¬canArgument necessary=%v empty necessary=%v", a, bb))
			}
		}
	}
	// the unquoted part is the text after the FIRST colon
	nUq := 0
	for _, ci := range c.instrsCtx(ip, c.isCallTo("strconv.Unquote")) {
		s := ci.In
		nUq++
		var t string
		c.within(ci.Frames, func() { t = c.term(s.(*ssa.Call).Call.Args[0]) })
		aft := `after(iniValue.Value(new:iniValue), ":")`
		if t == `phi{"" | `+aft+`}` || t == `phi{`+aft+` | ""}` {
			// `key, value := whole, ""; if colon found { key, value = before, after }`: under len(value) != 0 the value is the after part
			if _, ne := c.Requires(ip, isInstr(s), litIs("nonempty("+t+")", true), nil); ne {
				t = aft
			}
		}
		r.Check(t == aft, "FUNNEL", in_, "map value part: text after the first colon", c.ipos(s), "Unquote(after(value, \":\")): as convert splits on the command line", "the quoted map value is taken from "+trunc(t, 100))
	}
	r.Check(nUq == 1, "FUNNEL", in_, "one unquote of a map value", c.pos(ip.Pos()), "one", fmt.Sprintf("%d", nUq))
	// no store to reflect values / direct conversion in parse
	var direct []string
	for _, s := range c.instrs(ip, c.isCallTo("convert", "(*Option).call", "(reflect.Value).Set", "(*Option).empty")) {
		direct = append(direct, c.calleeName(s.(ssa.CallInstruction).Common()))
	}
	r.Check(len(direct) == 0, "FUNNEL", in_, "no conversion outside Set", c.pos(ip.Pos()), "parse never converts or stores a value itself", "parse calls "+strings.Join(direct, ", "))

	// PRIORITY
	c.priorityRules(r, "PRIORITY", obn)
	// the matcher passed by parse
	for _, s := range c.instrs(ip, c.isCallTo("(*Group).optionByName")) {
		call := s.(*ssa.Call)
		r.Check(c.term(call.Call.Args[1]) == "iniValue.Name(new:iniValue)", "PRIORITY", in_, "name looked up", c.ipos(s), "the entry's name", "looks up "+c.term(call.Call.Args[1]))
		okM, okTag := false, false
		var matcher *ssa.Function
		for _, f := range closureArgs(call) {
			matcher = f
		}
		if fnv, ok := call.Call.Args[2].(*ssa.Function); ok {
			matcher = fnv
		}
		if matcher != nil {
			// every way the matcher can answer true: the lower-cased tag equals the lower-cased name,
			// and the option HAS an ini-name tag (an empty entry name must not match options without one)
			eqT := `(call:strings.ToLower(call:(*multiTag).Get(&Option.tag(P0), "ini-name")) == call:strings.ToLower(P1))`
			// (the lower-cased name may be computed once by the caller: optionByName hands the matcher the very name it was
			// given — priority 4's test is dyncall(matcher; option, P1) — and that name is the entry's name, checked above)
			eqT2 := `(call:strings.ToLower(call:(*multiTag).Get(&Option.tag(P0), "ini-name")) == call:strings.ToLower(` + c.term(call.Call.Args[1]) + `))`
			tagT := `nonempty(call:(*multiTag).Get(&Option.tag(P0), "ini-name"))`
			if os, ok := c.verdictOrigins(matcher, true); ok && len(os) > 0 {
				okM, okTag = true, true
				for _, fs := range os {
					hasEq, hasTag := false, false
					for _, f := range fs {
						if f.pos && (c.term(f.cond) == eqT || c.term(f.cond) == eqT2) {
							hasEq = true
						}
						if l := c.cond(f.cond); l.Term == tagT && l.Pos == f.pos {
							hasTag = true
						}
					}
					okM = okM && hasEq
					okTag = okTag && hasTag
				}
			}
		}
		_ = okTag // (an empty entry name never reaches the matcher: readIni rejects it — C14 CLASSIFY)
		r.Check(okM, "PRIORITY", in_, "ini-name matched case-insensitively", c.ipos(s), "ToLower(tag ini-name) == ToLower(name)", "the matcher is not the case-insensitive ini-name comparison")
	}

	// SECTION
	mn := c.fname(mg)
	for _, s := range c.instrs(mg, c.isCallTo("(*Group).eachGroup")) {
		call := s.(*ssa.Call)
		_, req := c.Requires(mg, isInstr(s), litIs("nonempty(P1)", false), nil)
		r.Check(req && c.term(call.Call.Args[0]) == "Command.Group(Parser.Command(IniParser.parser(P0)))", "SECTION", mn, "entries before any header address all of the parser's own groups", c.ipos(s), "REQ(name == \"\"); eachGroup over the parser's group tree", "empty section handled by "+trunc(c.term(call.Call.Args[0]), 80))
	}
	// what the header-less section resolves to is collected by that walk: every return that an empty name can reach
	// (other than "no group") passes it
	for _, ret := range returnsOf(mg) {
		if isConstNil(c.resolve(ret.Results[0])) {
			continue
		}
		// (paths on which the name is empty: edges that establish a non-empty name are cut)
		q := &PathQ{c: c, Fn: mg, CutLit: litIs("nonempty(P1)", true), CutIn: c.isCallTo("(*Group).eachGroup")}
		path, found := q.Reach(entrySite(mg), 0, isInstr(ret))
		r.Check(!found, "SECTION", mn, "the header-less section is the flattened group tree", c.ipos(ret), "with an empty name every path to a non-nil result passes eachGroup over the parser's group tree", "reachable for an empty section name without that walk: "+pathStr(path))
	}
	for _, s := range c.instrs(mg, c.isCallTo("(*Command).groupByName")) {
		call := s.(*ssa.Call)
		r.Check(c.term(call.Call.Args[0]) == "Parser.Command(IniParser.parser(P0))" && c.term(call.Call.Args[1]) == "P1", "SECTION", mn, "named sections resolved from the root command", c.ipos(s), "parser.groupByName(name)", "named section resolved by "+trunc(c.term(call.Call.Args[0]), 80))
	}
	cgn := c.fname(cg)
	sub := "idx(Command.commands(P0), phi{(phi↺ + 1) | 0})"
	prefix := "(Command.Name(" + sub + ") + \".\")"
	okOwn, okRec, okExact := false, false, false
	// (Group.groupByName is looked through: "the command's own groups" is the value that is the command's group for
	// the empty name and Find(name) among its subgroups otherwise — in that helper or written out in place)
	for _, b := range c.blocks(cg) {
		for _, in := range b.Instrs {
			v, ok := in.(ssa.Value)
			if !ok || in.Parent() != cg {
				continue
			}
			if _, isPhi := in.(*ssa.Phi); !isPhi {
				if _, isCall := in.(*ssa.Call); !isCall {
					continue
				}
			}
			set := map[string]bool{}
			for _, o := range c.originsOf(v, in) {
				set[o.Term] = true
			}
			if len(set) == 2 && set["Command.Group(P0)"] && set["call:(*Group).Find(Command.Group(P0), P1)"] {
				okOwn = true
			}
		}
	}
	if !okOwn {
		// the same written as two early returns: the command's group for the empty name, Find(name) when it finds one
		retOwn, retFind := false, false
		for _, ret := range returnsOf(cg) {
			switch c.term(ret.Results[0]) {
			case "Command.Group(P0)":
				_, retOwn = c.Requires(cg, isInstr(ret), litIs("nonempty(P1)", false), nil)
			case "call:(*Group).Find(Command.Group(P0), P1)":
				retFind = true
			}
		}
		okOwn = retOwn && retFind
	}
	for _, ci := range c.instrsCtx(cg, c.isCallTo("(*Group).Find")) {
		var rt string
		c.within(ci.Frames, func() { rt = c.term(ci.In.(*ssa.Call).Call.Args[0]) })
		if strings.HasPrefix(rt, "Command.Group("+sub) {
			r.Fail("SECTION", cgn, "recursion into a subcommand", c.ipos(ci.In), "descends with Find on "+trunc(rt, 100)+": only the subcommand's own groups are searched, nested subcommands are never reached")
		}
	}
	for _, s := range c.instrs(cg, func(in ssa.Instruction) bool { _, ok := in.(*ssa.Call); return ok }) {
		t := c.term(s.(*ssa.Call))
		switch {
		case t == "call:(*Group).groupByName(Command.Group(P0), P1)":
			okOwn = true
		case t == "call:(*Command).groupByName("+sub+", slice(P1, len("+prefix+"), _))",
			t == "call:(*Command).groupByName("+sub+", call:strings.TrimPrefix(P1, "+prefix+"))":
			_, req := c.Requires(cg, isInstr(s), litIs("call:strings.HasPrefix(P1, "+prefix+")", true), nil)
			okRec = req
		case strings.HasPrefix(t, "call:(*Group).groupByName(Command.Group("+sub) || strings.HasPrefix(t, "call:(*Group).groupByName("):
			if t != "call:(*Group).groupByName(Command.Group(P0), P1)" {
				r.Fail("SECTION", cgn, "recursion into a subcommand", c.ipos(s), "descends with "+trunc(t, 120)+": only the subcommand's own groups are searched, nested subcommands are never reached")
			}
		}
	}
	for _, ret := range returnsOf(cg) {
		if c.term(ret.Results[0]) == "Command.Group("+sub+")" {
			_, okExact = c.Requires(cg, isInstr(ret), litIs("eq(Command.Name("+sub+"), P1)", true), nil)
		}
	}
	r.Check(okOwn, "SECTION", cgn, "own groups first", c.pos(cg.Pos()), "c.Group.groupByName(name)", "the command's own groups are not consulted")
	r.Check(okRec, "SECTION", cgn, "dotted path recurses into the subcommand", c.pos(cg.Pos()), "subc.groupByName(name[len(Name+\".\"):]) REQ(HasPrefix(name, Name+\".\"))", "no recursion of (*Command).groupByName on the subcommand with the prefix stripped")
	r.Check(okExact, "SECTION", cgn, "bare command name addresses the command's own group", c.pos(cg.Pos()), "return subc.Group REQ(name == subc.Name)", "an exact command name does not return that command's group")
	// Find: case-insensitive
	okFind := false
	for _, s := range c.instrs(gf, c.isCallTo("(*Group).eachGroup")) {
		for _, f := range closureArgs(s.(ssa.CallInstruction)) {
			for _, b := range c.blocks(f) {
				if iff, ok := b.Instrs[len(b.Instrs)-1].(*ssa.If); ok {
					l := c.cond(iff.Cond)
					if strings.HasPrefix(l.Term, "eq(") && strings.Contains(l.Term, "call:strings.ToLower(Group.ShortDescription(P0))") {
						okFind = true
					}
				}
			}
		}
	}
	lower := false
	for _, s := range c.instrs(gf, c.isCallTo("strings.ToLower")) {
		if c.term(s.(*ssa.Call).Call.Args[0]) == "P1" {
			lower = true
		}
	}
	// every group of the tree is a candidate: the match is guarded by nothing but `not the receiver` and the description test
	for _, s := range c.instrs(gf, c.isCallTo("(*Group).eachGroup")) {
		for _, f := range closureArgs(s.(ssa.CallInstruction)) {
			for _, b := range c.blocks(f) {
				for _, in := range b.Instrs {
					st, ok := in.(*ssa.Store)
					if !ok {
						continue
					}
					if _, isFV := st.Addr.(*ssa.FreeVar); !isFV {
						continue
					}
					var extra []string
					for _, d := range c.controlDeps(f, b) {
						l, ok := c.edgeLit(d.B, d.Succ)
						if !ok {
							continue
						}
						switch {
						case strings.HasPrefix(l.Term, "eq(") && strings.Contains(l.Term, "call:strings.ToLower(Group.ShortDescription(P0))") && l.Pos:
						case strings.HasPrefix(l.Term, "eq(") && strings.Contains(l.Term, "P0") && !strings.Contains(l.Term, "call:") && !l.Pos: // gg != g
						default:
							extra = append(extra, l.String())
						}
					}
					r.Check(len(extra) == 0, "SECTION", c.fname(f), "every group of the tree can be addressed by its description", c.ipos(st), "the match depends only on `not the receiver` and the description comparison", "a group is found only under the additional condition "+strings.Join(extra, "; ")+": sections naming other groups are rejected")
				}
			}
		}
	}
	r.Check(okFind && lower, "SECTION", c.fname(gf), "group description matched case-insensitively", c.pos(gf.Pos()), "ToLower(description) == ToLower(name)", "Group.Find does not lower-case both sides")

	// a repeated section header continues the existing section: a name enters ini.order (and gets a fresh
	// section) only when the lookup of that name is nil — not when the section merely has no entries yet
	if ri := c.Fn("readIni"); ri != nil {
		ordF := c.Field("ini", "order")
		nOrd := 0
		for _, s := range c.storesTo(ordF) {
			if s.Fn != ri && !c.actsFor(s.Fn, ri) {
				continue
			}
			if !strings.HasPrefix(c.term(s.Store.Val), "append(") {
				continue
			}
			if innermost(c.loopsDeep(ri), s.Store.Block()) == nil && s.Fn == ri {
				continue // the initial (global) section, entered once before the read loop
			}
			nOrd++
			_, req := c.Requires(ri, isInstr(s.Store), func(l Lit) bool {
				return !l.Pos && strings.HasPrefix(l.Term, "nonnil(lookup(ini.Sections(")
			}, nil)
			r.Check(req, "ACCUMULATE", c.fname(ri), "a section name is ordered once", c.ipos(s.Store), "ini.order = append(…, name) REQ(Sections[name] == nil)", "a section that is reopened can be entered in the section order again: its entries are then applied twice")
		}
		r.Check(nOrd == 1, "ACCUMULATE", c.fname(ri), "section order writer", c.pos(ri.Pos()), "one append", fmt.Sprintf("%d", nOrd))
		// a section is recorded under the name written between the brackets, as written (command names in a dotted
		// path are compared exactly; only group descriptions are matched case-insensitively, by the lookup)
		nKey := 0
		for _, b := range c.blocks(ri) {
			for _, in := range b.Instrs {
				mu, ok := in.(*ssa.MapUpdate)
				if !ok || !strings.HasPrefix(c.term(mu.Map), "ini.Sections(") {
					continue
				}
				var keyTerms []string
				for _, o := range c.originsOf(mu.Key, mu) {
					keyTerms = append(keyTerms, o.Term)
					if p, isP := c.resolve(o.Val).(*ssa.Parameter); isP && c.isNew(p.Parent()) {
						// recorded by a new helper that several places call: the names those places hand it
						if sites, _ := c.callersOf(p.Parent()); len(sites) > 0 {
							keyTerms = keyTerms[:len(keyTerms)-1]
							for k, q := range p.Parent().Params {
								if q == p {
									for _, cs := range sites {
										for _, o2 := range c.originsOf(cs.Call.Common().Args[k], cs.Call) {
											keyTerms = append(keyTerms, o2.Term)
										}
									}
								}
							}
						}
					}
				}
				for _, t := range keyTerms {
					nKey++
					okKey := t == `""`
					if strings.HasPrefix(t, "call:strings.TrimSpace(slice(") && strings.HasSuffix(t, ") - 1)))") {
						inner := t[len("call:strings.TrimSpace(slice("):]
						if i := strings.Index(inner, ", 1, (len("); i > 0 {
							line := inner[:i]
							okKey = inner == line+", 1, (len("+line+") - 1)))"
						}
					}
					r.Check(okKey, "SECTION", c.fname(ri), "a section is recorded under the text between its brackets", c.ipos(mu), "key = TrimSpace(line[1:len(line)-1]) (or \"\" before any header)", "the section key is "+trunc(t, 120)+": a header is not matched as written")
				}
			}
		}
		r.Check(nKey >= 1, "SECTION", c.fname(ri), "section writers found", c.pos(ri.Pos()), "≥ 1", fmt.Sprintf("%d", nKey))
	}
	// entries before any header address ALL groups of the parser's tree (also groups without options of their
	// own: the root group keeps the name priority across its subgroups)
	for _, s := range c.instrs(mg, c.isCallTo("(*Group).eachGroup")) {
		for _, f := range closureArgs(s.(ssa.CallInstruction)) {
			for _, b := range c.blocks(f) {
				for _, in := range b.Instrs {
					st, ok := in.(*ssa.Store)
					if !ok {
						continue
					}
					if _, isFV := st.Addr.(*ssa.FreeVar); !isFV {
						continue
					}
					var extra []string
					for _, d := range c.controlDeps(f, b) {
						if l, ok := c.edgeLit(d.B, d.Succ); ok {
							extra = append(extra, l.String())
						}
					}
					r.Check(len(extra) == 0, "SECTION", c.fname(f), "the empty section collects every group", c.ipos(st), "append under no condition", "a group is collected only under "+strings.Join(extra, "; "))
				}
			}
		}
	}
	// arming for accumulation is unconditional (C05 FLAGS shares the rule)
	for _, st := range c.storesTo(c.Field("Option", "clearReferenceBeforeSet")) {
		if c.term(st.Store.Val) != "true" || !c.actsForC(st.Fn, ip) {
			continue
		}
		var extra []string
		for _, d := range c.controlDeps(st.Fn, st.Store.Block()) {
			if l, ok := c.edgeLit(d.B, d.Succ); ok {
				extra = append(extra, l.String())
			}
		}
		r.Check(len(extra) == 0, "ACCUMULATE", c.fname(st.Fn), "every option is armed before the entries are read", c.ipos(st.Store), "clearReferenceBeforeSet = true under no condition", "options are armed only under "+strings.Join(extra, "; ")+": for the others the first entry appends to the previous contents instead of replacing them")
	}
	// NOINI: every path that hands a value to an option passes the edge "its no-ini tag is empty"
	noIniEmpty := func(l Lit) bool {
		return !l.Pos && strings.HasPrefix(l.Term, "nonempty(call:(*multiTag).Get(&Option.tag(") && strings.HasSuffix(l.Term, `"no-ini"))`)
	}
	nNo := 0
	for _, in := range c.instrs(ip, c.isCallTo("(*Option).Set", "(*Option).setDefault")) {
		nNo++
		path, ok := c.Requires(ip, isInstr(in), noIniEmpty, nil)
		r.Check(ok, "NOINI", in_, "no-ini options cannot be set from INI", c.ipos(in), "REQ(no-ini tag of the resolved option is empty): an option carrying the tag is treated as unknown", "an option tagged no-ini can be set from an INI entry: "+pathStr(path))
	}
	if nNo == 0 {
		r.Fail("NOINI", in_, "no-ini options cannot be set from INI", c.pos(ip.Pos()), "no Set/setDefault call found in IniParser.parse")
	}

	// ACCUMULATE
	crbs := c.Field("Option", "clearReferenceBeforeSet")
	arm := c.isCallPassingClosureThat("(*Command).eachOption", func(in ssa.Instruction) bool {
		st, ok := in.(*ssa.Store)
		return ok && c.isStoreTo(crbs)(in) && c.term(st.Val) == "true"
	})
	iloops := c.loopsDeep(ip)
	arms := c.instrs(ip, arm)
	okArm := len(arms) == 1
	for _, a := range arms {
		if innermost(iloops, a.Block()) != nil {
			okArm = false
		}
	}
	r.Check(okArm, "ACCUMULATE", in_, "repeated entries accumulate like repeated flags", c.pos(ip.Pos()), "clearReferenceBeforeSet armed once, outside every loop", "arming is missing or inside a loop")
	nLC := 0
	for _, l := range iloops {
		for b := range l.Blocks {
			if iff, ok := b.Instrs[len(b.Instrs)-1].(*ssa.If); ok && strings.Contains(c.cond(iff.Cond).Term, "Option.preventDefault(") {
				nLC++
			}
		}
	}
	r.Check(nLC == 0, "ACCUMULATE", in_, "no loop-carried inhibition", c.pos(ip.Pos()), "no branch inside the entry loops reads Option.preventDefault", "a branch inside the loops reads the flag the loop body stores: later entries of one option are dropped in as-defaults mode")
}

// priorityRules: the name-resolution priorities of Group.optionByName (shared by C12 and C13).
func (c *Ctx) priorityRules(r *Report, rule string, obn *ssa.Function) {
	var cl *ssa.Function
	for _, s := range c.instrs(obn, c.isCallTo("(*Group).eachGroup")) {
		for _, f := range closureArgs(s.(ssa.CallInstruction)) {
			cl = f
		}
	}
	if cl == nil {
		r.Fail(rule, c.fname(obn), "matching closure", "", "optionByName does not iterate eachGroup with a closure")
	} else {
		cn := c.fname(cl)
		opt := "idx(Group.options(P0), phi{(phi↺ + 1) | 0})"
		tests := map[int64][]LitMatch{
			4: {litIs("dyncall(P2; "+opt+", P1)", true), litIs("nonnil(P2)", true)},
			3: {litIs("eq(P1, StructField.Name(&Option.field("+opt+")))", true)},
			2: {litIs("eq(P1, call:(*Option).LongNameWithNamespace("+opt+"))", true)},
			1: {litIs("eq(P1, conv[string](Option.ShortName("+opt+")))", true), litIs("nonzero(Option.ShortName("+opt+"))", true)},
		}
		names := map[int64]string{4: "matcher (ini-name)", 3: "field name", 2: "namespaced long name", 1: "short name"}
		seenK := map[int64]bool{}
		for _, b := range c.blocks(cl) {
			for _, in := range b.Instrs {
				st, ok := in.(*ssa.Store)
				if !ok {
					continue
				}
				k, isC := constInt(st.Val)
				if _, isFV := st.Addr.(*ssa.FreeVar); !isFV {
					continue
				}
				if !isC {
					// rank form: the option's own best match is computed first (a switch, or a helper returning the
					// rank) and recorded only if it beats the best so far
					if relType(c, st.Val.Type()) != "int" {
						continue
					}
					vt := c.term(st.Val)
					_, okG := c.Requires(cl, isInstr(st), litIs("lt(cell:int, "+vt+")", true), nil)
					okO := false
					for _, in2 := range b.Instrs {
						if s2, ok := in2.(*ssa.Store); ok && s2 != st {
							if _, isFV := s2.Addr.(*ssa.FreeVar); isFV && c.term(s2.Val) == opt {
								okO = true
							}
						}
					}
					r.Check(okG && okO, rule, cn, "an option replaces the best so far only with a strictly higher rank", c.ipos(st), "prio = rank REQ(prio < rank); the matched option is recorded", fmt.Sprintf("guard=%v option recorded=%v (rank %s)", okG, okO, trunc(vt, 80)))
					for _, o := range c.originsOf(st.Val, st) {
						ko, isK := constInt(o.Val)
						if !isK {
							r.Fail(rule, cn, "rank origin", c.ipos(o.At), "the rank can be "+trunc(o.Term, 60)+", not one of the documented constants")
							continue
						}
						if ko == 0 {
							continue // no match
						}
						ms, known := tests[ko]
						if !known {
							r.Fail(rule, cn, fmt.Sprintf("priority %d", ko), c.ipos(o.At), "undocumented priority constant")
							continue
						}
						seenK[ko] = true
						okT := true
						for _, m := range ms {
							if !c.reqAt(cl, o, m) {
								okT = false
							}
						}
						// the rank is the BEST match: every higher way of matching has failed on the way here
						okHi := true
						for hk, hms := range tests {
							if hk <= ko {
								continue
							}
							var negs []LitMatch
							for _, hm := range hms {
								hm := hm
								negs = append(negs, func(l Lit) bool { return hm(l.Neg()) })
							}
							// (or the running best, tested `< this rank`, shows that no higher rank has been assigned)
							ko := ko
							negs = append(negs, func(l Lit) bool {
								return l.Pos && strings.HasPrefix(l.Term, "lt(") && strings.HasSuffix(l.Term, fmt.Sprintf(", %d)", ko))
							})
							if !c.reqAt(cl, o, anyLit(negs...)) {
								okHi = false
							}
						}
						r.Check(okT && okHi, rule, cn, fmt.Sprintf("priority %d ← %s", ko, names[ko]), c.ipos(o.At), "REQ(name test) ∧ REQ(no higher-ranked way matches)", fmt.Sprintf("test necessary=%v higher ranks excluded=%v", okT, okHi))
					}
					continue
				}
				seenK[k] = true
				ms, known := tests[k]
				if !known {
					r.Fail(rule, cn, fmt.Sprintf("priority %d", k), c.ipos(st), "undocumented priority constant")
					continue
				}
				okT := true
				for _, m := range ms {
					if _, ok := c.Requires(cl, isInstr(st), m, nil); !ok {
						okT = false
					}
				}
				_, okG := c.Requires(cl, isInstr(st), litIs(fmt.Sprintf("lt(cell:int, %d)", k), true), nil)
				// the option stored alongside
				okO := false
				for _, in2 := range b.Instrs {
					if s2, ok := in2.(*ssa.Store); ok && s2 != st {
						if _, isFV := s2.Addr.(*ssa.FreeVar); isFV && c.term(s2.Val) == opt {
							okO = true
						}
					}
				}
				r.Check(okT && okG && okO, rule, cn, fmt.Sprintf("priority %d ← %s", k, names[k]), c.ipos(st), fmt.Sprintf("REQ(name test) ∧ REQ(prio < %d); the matched option is recorded", k), fmt.Sprintf("name-test necessary=%v, `prio < %d` necessary=%v, option recorded=%v", okT, k, okG, okO))
			}
		}
		r.Check(len(seenK) == 4, rule, cn, "four priorities", c.pos(cl.Pos()), "4, 3, 2, 1", fmt.Sprintf("%d priorities assigned", len(seenK)))
	}
}

// rebuiltByHelper: the stored string is result #0 of a new helper h(entry) (string, bool, error) called on the
// entry's value; the store happens only under h's boolean verdict; and every return of h that can report
// true returns key + ":" + strconv.Unquote(value part) of its parameter.
func (c *Ctx) rebuiltByHelper(ip *ssa.Function, st *ssa.Store, cell *ssa.Alloc) bool {
	v := st.Val
	for {
		if u, ok := v.(*ssa.UnOp); ok && u.Op == token.MUL {
			if al, ok := u.X.(*ssa.Alloc); ok {
				if ss, _ := c.cellStores(al); len(ss) == 1 {
					v = ss[0].Val
					continue
				}
			}
		}
		break
	}
	ex, ok := v.(*ssa.Extract)
	if os.Getenv("GF_DBG13") != "" {
		fmt.Fprintf(os.Stderr, "rebuilt: v=%T %s\n", v, v)
	}
	if !ok || ex.Index != 0 {
		dbg13(1)
		return false
	}
	call, ok := ex.Tuple.(*ssa.Call)
	if !ok {
		dbg13(2)
		return false
	}
	h := call.Call.StaticCallee()
	if h == nil || !c.isNew(h) || h.Signature.Results().Len() < 2 || relType(c, h.Signature.Results().At(1).Type()) != "bool" {
		dbg13(3)
		return false
	}
	if len(call.Call.Args) != 1 || c.term(call.Call.Args[0]) != "iniValue.Value(new:iniValue)" {
		dbg13(4)
		return false
	}
	var verdict *ssa.Extract
	for _, ref := range *call.Referrers() {
		if e2, ok := ref.(*ssa.Extract); ok && e2.Index == 1 {
			verdict = e2
		}
	}
	if verdict == nil {
		dbg13(5)
		return false
	}
	// the cell is handed on only under the verdict: every phi edge carrying its address is taken under `verdict == true`
	isVerdict := func(l Lit) bool { return l.Pos && l.Term == c.term(verdict) }
	if cell.Referrers() == nil {
		dbg13(6)
		return false
	}
	for _, ref := range *cell.Referrers() {
		switch u := ref.(type) {
		case *ssa.Store, *ssa.DebugRef:
		case *ssa.Phi:
			for i, e := range u.Edges {
				if e != ssa.Value(cell) {
					continue
				}
				pred := u.Block().Preds[i]
				if l, has := c.edgeLitTo(pred, u.Block()); has && isVerdict(l) {
					continue
				}
				if _, req := c.Requires(ip, isInstr(pred.Instrs[len(pred.Instrs)-1]), isVerdict, nil); !req {
					dbg13(7)
					return false
				}
			}
		default:
			dbg13(8)
			return false
		}
	}
	n := 0
	for _, ret := range returnsOf(h) {
		if k, isC := ret.Results[1].(*ssa.Const); isC && !constantBool(k) {
			continue
		}
		n++
		t := c.term(ret.Results[0])
		okT := false
		for _, src := range []string{"P0", "iniValue.Value(new:iniValue)"} {
			if strings.HasPrefix(t, `((before(`+src+`, ":") + ":") + `) && strings.Contains(t, `call:strconv.Unquote(after(`+src+`, ":"))#0`) {
				okT = true
			}
		}
		if !okT {
			dbg13(9)
			return false
		}
	}
	return n > 0
}

func dbg13(n int) {
	if os.Getenv("GF_DBG13") != "" {
		fmt.Fprintf(os.Stderr, "rebuilt: exit %d\n", n)
	}
}

// rebuiltLockstep: the rebuilt entry is key + ":" + value where key and value are the lockstep pair
// `key, value := whole, ""` overridden by `before, after` when a colon was found, value possibly replaced by its
// Unquote — and the rebuild happens only under len(value) != 0, i.e. only when the colon was found.
func (c *Ctx) rebuiltLockstep(ip *ssa.Function, st *ssa.Store) bool {
	x := `iniValue.Value(new:iniValue)`
	keyPhi := "phi{before(" + x + `, ":") | ` + x + "}"
	keyPhi2 := "phi{" + x + " | before(" + x + `, ":")}`
	valPhi := `phi{"" | after(` + x + `, ":")}`
	valPhi2 := "phi{after(" + x + `, ":") | ""}`
	tv := c.term(st.Val)
	okKey := strings.HasPrefix(tv, "(("+keyPhi+` + ":") + `) || strings.HasPrefix(tv, "(("+keyPhi2+` + ":") + `)
	okVal := strings.Contains(tv, "call:strconv.Unquote("+valPhi+")#0") || strings.Contains(tv, "call:strconv.Unquote("+valPhi2+")#0")
	if !okKey || !okVal {
		return false
	}
	_, ne := c.Requires(ip, isInstr(st), func(l Lit) bool {
		return l.Pos && (l.Term == "nonempty("+valPhi+")" || l.Term == "nonempty("+valPhi2+")")
	}, nil)
	if !ne {
		return false
	}
	// lockstep: the two phis sit in one block and take their "not found" members on the same edge
	var kp, vp *ssa.Phi
	for _, b := range c.blocks(ip) {
		for _, in := range b.Instrs {
			if ph, ok := in.(*ssa.Phi); ok {
				switch c.term(ph) {
				case keyPhi, keyPhi2:
					kp = ph
				case valPhi, valPhi2:
					vp = ph
				}
			}
		}
	}
	if kp == nil || vp == nil || kp.Block() != vp.Block() || len(kp.Edges) != len(vp.Edges) {
		return false
	}
	for i := range kp.Edges {
		keyWhole := c.term(kp.Edges[i]) == x
		valEmpty := c.term(vp.Edges[i]) == `""`
		if keyWhole != valEmpty {
			return false
		}
	}
	return true
}

// rebuiltByJoin: the rebuilt entry is strings.Join(parts, ":") of the two parts of SplitN(value, ":", 2) after
// parts[1] was replaced in place by its Unquote.
func (c *Ctx) rebuiltByJoin(ip *ssa.Function, st *ssa.Store) bool {
	x := `iniValue.Value(new:iniValue)`
	if c.term(st.Val) != "call:strings.Join(call:strings.SplitN("+x+`, ":", 2), ":")` {
		return false
	}
	call, ok := c.resolve(st.Val).(*ssa.Call)
	if !ok {
		return false
	}
	parts := c.resolve(call.Call.Args[0])
	n := 0
	for _, b := range c.blocks(ip) {
		for _, in := range b.Instrs {
			s2, ok := in.(*ssa.Store)
			if !ok {
				continue
			}
			ia, ok := s2.Addr.(*ssa.IndexAddr)
			if !ok || c.resolve(ia.X) != parts {
				continue
			}
			k, isK := constInt(ia.Index)
			if !isK || k != 1 || !strings.HasPrefix(c.term(s2.Val), "call:strconv.Unquote(after("+x+`, ":"))#0`) {
				return false // some other element store
			}
			n++
		}
	}
	// the join is reached only with two parts
	_, two := c.Requires(ip, isInstr(st), litIs("has("+x+`, ":")`, true), nil)
	return n == 1 && two
}
