#!/usr/bin/env python3
"""seed_install.py <ID> [mK ...] — confirm sub-agent mutants from $MUT_ROOT/<ID>/mK (default /tmp/mut) and install them as
/verif/seeded/<ID>-<prefix>K/ (prefix $MUT_PREFIX, default m; round 2 uses n)."""
import json, os, shutil, subprocess, sys
ROOT = os.environ.get("MUT_ROOT", "/tmp/mut")
PREFIX = os.environ.get("MUT_PREFIX", "m")
NOTE = os.environ.get("MUT_NOTE", "")
pid = sys.argv[1]
ms = sys.argv[2:] or sorted(d for d in os.listdir(f"{ROOT}/{pid}") if d.startswith("m") and os.path.isdir(f"{ROOT}/{pid}/{d}"))
for m in ms:
    src = f"{ROOT}/{pid}/{m}"
    if not os.path.exists(f"{src}/patch.diff"):
        print(pid, m, "no patch"); continue
    c = subprocess.run(["/verif/confirm_mut.sh", src], capture_output=True, text=True)
    conf = c.stdout.strip()
    r = subprocess.run(["/verif/mutrun.sh", f"{src}/patch.diff", pid], capture_output=True, text=True)
    res = r.stdout.strip()
    print(pid, m, conf, "|", res[:300])
    if c.returncode != 0:
        print("   NOT CONFIRMED; not installed"); continue
    dst = f"/verif/seeded/{pid}-{PREFIX}{m[1:]}"
    os.makedirs(dst, exist_ok=True)
    shutil.copy(f"{src}/patch.diff", dst); shutil.copy(f"{src}/zz_demo_test.go", dst)
    try: meta = json.load(open(f"{src}/meta.json"))
    except Exception as e: meta = {"property": pid, "summary": "(agent meta unreadable)"}
    meta["property"] = pid
    meta["author"] = "independent sub-agent given only the property text and a scratch worktree"
    meta["confirmed_by_me"] = {"how": "confirm_mut.sh on a scratch copy of /repo HEAD: demo test without patch / existing suite with patch / demo test with patch", "result": conf}
    if NOTE: meta["note"] = NOTE
    meta["check_result"] = {"cmd": f"./mutrun.sh seeded/{pid}-{PREFIX}{m[1:]}/patch.diff {pid}", "result": res.split(":")[0] if res else ""}
    json.dump(meta, open(f"{dst}/meta.json", "w"), indent=1)
