#!/bin/bash
# setup: build gfcheck from vendored sources, offline.
set -eu
HERE="$(cd "$(dirname "${BASH_SOURCE[0]}")" && pwd)"
export GOPROXY=off GOSUMDB=off GOTOOLCHAIN=local CGO_ENABLED=0 GOFLAGS=-mod=vendor
unset GOWORK
mkdir -p "$HERE/bin" "$HERE/evidence"
cd "$HERE/checker" && go build -o "$HERE/bin/gfcheck" .
echo "gfcheck built"
