#!/bin/bash
# mutrun.sh <patch.diff> <PROP> [<PROP>...] — apply a patch to a scratch copy of /repo and run the given checks on it.
# prints "<PROP> CAUGHT|MISSED" per property; exit 0 if every listed property raised a VIOLATION.
set -u
HERE="$(cd "$(dirname "${BASH_SOURCE[0]}")" && pwd)"
PATCH="$1"; shift
W=$(mktemp -d /tmp/gfmut.XXXXXX)
trap 'rm -rf "$W"' EXIT
mkdir -p "$W/repo" "$W/out"
(cd "${VERIF_REPO_SRC:-/repo}" && git ls-files -z | xargs -0 cp --parents -t "$W/repo")
if ! (cd "$W/repo" && git init -q . 2>/dev/null && git apply --whitespace=nowarn "$PATCH" 2>"$W/apply.err"); then
  echo "SKIPPED(context changed): $(head -1 "$W/apply.err")"; exit 3
fi
rc=0
for P in "$@"; do
  out=$(VERIF_REPO="$W/repo" VERIF_OUT="$W/out" VERIF_NO_THOROUGH=1 "$HERE/check.sh" "$P" quick 2>&1)
  if echo "$out" | grep -q "^VIOLATION property=$P"; then
    echo "$P CAUGHT: $(echo "$out" | grep -E '^\s+(VIOLATED|UNDECIDED|FATAL)' | head -3 | tr '\n' ' ' | cut -c1-400)"
  else
    echo "$P MISSED"; rc=1
  fi
done
exit $rc
