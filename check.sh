#!/bin/bash
# check.sh <ID|explain> <tier|replay-file> — runs gfcheck for one property against /repo's current tree.
set -u
HERE="$(cd "$(dirname "${BASH_SOURCE[0]}")" && pwd)"
export GOPROXY=off GOSUMDB=off GOTOOLCHAIN=local CGO_ENABLED=0
unset GOWORK
REPO="${VERIF_REPO:-/repo}"
build() {
  if [ ! -x "$HERE/bin/gfcheck" ] || [ -n "$(find "$HERE/checker" -name '*.go' -newer "$HERE/bin/gfcheck" -not -path '*/vendor/*' -not -path '*/testdata/*' | head -1)" ]; then
    (cd "$HERE/checker" && GOFLAGS=-mod=vendor go build -o "$HERE/bin/gfcheck.tmp.$$" . && mv "$HERE/bin/gfcheck.tmp.$$" "$HERE/bin/gfcheck") || { echo "gfcheck build failed"; exit 2; }
  fi
}
mkdir -p "$HERE/bin" "$HERE/evidence"
build
if [ "${1:-}" = "explain" ]; then
  cat "${2:?replay file}"; echo
  id=$(python3 -c "import json,sys;print(json.load(open(sys.argv[1]))['property'])" "$2")
  exec "$HERE/bin/gfcheck" -prop "$id" -tier quick -repo "$REPO" -out "$HERE/evidence" -known "$HERE/known_findings.json" -controls "$HERE/checker/testdata/controls"
fi
ID="${1:?property id}"; TIER="${2:-${VERIF_TIER:-quick}}"
export GOFLAGS=-mod=mod
AUXARG=""
if [ "$TIER" = "thorough" ] && [ -z "${VERIF_NO_THOROUGH:-}" ]; then
  AUX="$(mktemp /tmp/gfaux.XXXXXX)"
  "$HERE/thorough.sh" "$ID" "$AUX"
  AUXARG="-aux $AUX"
fi
"$HERE/bin/gfcheck" -prop "$ID" -tier "$TIER" -repo "$REPO" -out "${VERIF_OUT:-$HERE/evidence}" -known "$HERE/known_findings.json" -controls "$HERE/checker/testdata/controls" $AUXARG
rc=$?
[ -n "${AUX:-}" ] && rm -f "$AUX"
exit $rc
