#!/bin/bash
# cross.sh [refdir] — development experiment: every seeded mutant applied ON TOP of every behaviour-preserving
# refactoring (where the patch still applies) must still be caught by its property's check.
HERE="$(cd "$(dirname "${BASH_SOURCE[0]}")" && pwd)"
REFS="${1:-$HERE/refactorings}"
export GOPROXY=off GOSUMDB=off GOTOOLCHAIN=local GOFLAGS=-mod=mod; unset GOWORK
one() {
  R="$1"; HERE="$2"
  W=$(mktemp -d /tmp/gfcross.XXXXXX); mkdir -p $W/repo
  # a private build cache per worker, removed with it: tens of thousands of variant builds must not fill the shared cache
  export GOCACHE=$W/gocache
  (cd /repo && git ls-files -z | xargs -0 cp --parents -t $W/repo)
  cd $W/repo && git init -q . && git apply --whitespace=nowarn $R/patch.diff 2>/dev/null || { rm -rf $W; return; }
  git add -A >/dev/null 2>&1; git -c user.email=a@b -c user.name=x commit -qm r >/dev/null 2>&1
  for M in $HERE/seeded/*/; do
    id=$(basename $M); p=${id%%-*}
    git apply --whitespace=nowarn $M/patch.diff 2>/dev/null || continue
    if go build ./... >/dev/null 2>&1; then
      out=$($HERE/bin/gfcheck -prop $p -tier quick -repo $W/repo -out $W/out -known $HERE/known_findings.json -controls $HERE/checker/testdata/controls 2>&1 | grep -E "^$p quick:")
      if echo "$out" | grep -q "violated=0 undecided=0 fatal=0"; then echo "MISSED $(basename $R) + $id"; else echo "caught $(basename $R) + $id"; fi
    fi
    git checkout -q -- . ; git clean -qfd
  done
  rm -rf $W
}
export -f one
ls -d $REFS/*/ | xargs -P 8 -I{} bash -c 'one {} '"$HERE" | sort > /tmp/gfcross.txt
grep -c caught /tmp/gfcross.txt | sed 's/^/caught: /'; grep MISSED /tmp/gfcross.txt
