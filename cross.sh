#!/bin/bash
# cross.sh [refdir] — development experiment: every seeded mutant applied ON TOP of every behaviour-preserving
# refactoring (where the patch still applies) must still be caught by its property's check.
# CROSS_SAMEFILE=1 restricts the product to (refactoring, mutant) pairs whose patches touch a common file
# (the pairs that can interact); results are appended per refactoring to $CROSS_OUT (default /tmp/gfcross_parts).
HERE="$(cd "$(dirname "${BASH_SOURCE[0]}")" && pwd)"
REFS="${1:-$HERE/refactorings}"
export CROSS_OUT="${CROSS_OUT:-/tmp/gfcross_parts}"; mkdir -p "$CROSS_OUT"
export CROSS_SAMEFILE="${CROSS_SAMEFILE:-0}"
# CROSS_SEEDS: glob of seed directories to apply (default: all of seeded/)
export CROSS_SEEDS
export GOPROXY=off GOSUMDB=off GOTOOLCHAIN=local GOFLAGS=-mod=mod; unset GOWORK
one() {
  R="$1"; HERE="$2"
  tag="$(basename $(dirname $R))_$(basename $R)"
  W=$(mktemp -d /tmp/gfcross.XXXXXX); mkdir -p $W/repo
  # a private build cache per worker, removed with it: tens of thousands of variant builds must not fill the shared cache
  export GOCACHE=$W/gocache
  (cd /repo && git ls-files -z | xargs -0 cp --parents -t $W/repo)
  cd $W/repo && git init -q . && git apply --whitespace=nowarn $R/patch.diff 2>/dev/null || { rm -rf $W; return; }
  git add -A >/dev/null 2>&1; git -c user.email=a@b -c user.name=x commit -qm r >/dev/null 2>&1
  rfiles=$(grep '^+++ b/' $R/patch.diff | sed 's/^+++ b\///' | sort -u)
  : > $W/res.txt
  for M in ${CROSS_SEEDS:-$HERE/seeded/*/}; do
    id=$(basename $M); p=${id%%-*}
    if [ "$CROSS_SAMEFILE" = 1 ]; then
      share=0
      for f in $(grep '^+++ b/' $M/patch.diff | sed 's/^+++ b\///' | sort -u); do
        case " $(echo $rfiles | tr '\n' ' ') " in *" $f "*) share=1;; esac
      done
      [ $share = 1 ] || continue
    fi
    git apply --whitespace=nowarn $M/patch.diff 2>/dev/null || continue
    if go build ./... >/dev/null 2>&1; then
      out=$($HERE/bin/gfcheck -prop $p -tier quick -repo $W/repo -out $W/out -known $HERE/known_findings.json -controls $HERE/checker/testdata/controls 2>&1 | grep -E "^$p quick:")
      if echo "$out" | grep -q "violated=0 undecided=0 fatal=0"; then echo "MISSED $tag + $id" >> $W/res.txt; else echo "caught $tag + $id" >> $W/res.txt; fi
    fi
    git checkout -q -- . ; git clean -qfd
  done
  cp $W/res.txt $CROSS_OUT/$tag.txt
  rm -rf $W
}
export -f one
ls -d $REFS/*/ | sed 's/\/$//' | xargs -P ${CROSS_WORKERS:-8} -I{} bash -c 'one {} '"$HERE"
cat $CROSS_OUT/$(basename $REFS)_*.txt 2>/dev/null | sort > /tmp/gfcross.txt
grep -c caught /tmp/gfcross.txt | sed 's/^/caught: /'; grep MISSED /tmp/gfcross.txt
